#!/venv/bin/python
"""check.py <property> [--tier quick|thorough] [--replay file]

Decides one property: Lean proof obligations (build + axiom audit), correspondence of the
Lean model with /repo's current working tree, property-oracle search on disagreement.
Exit 0: held on everything explored; 1: VIOLATION line printed; 2: harness error / timeout.
"""
import argparse
import importlib
import os
import sys
import traceback
from pathlib import Path

HERE = Path(__file__).resolve().parent
sys.path.insert(0, str(HERE))
sys.path.insert(0, os.environ.get("VERIF_REPO_SRC", "/repo/src"))
os.environ.setdefault("BIOMEDIA_DEEPALI_VERIF", "1")


def main() -> int:
    ap = argparse.ArgumentParser()
    ap.add_argument("prop")
    ap.add_argument("--tier", default=os.environ.get("VERIF_TIER", "quick"), choices=["quick", "thorough"])
    ap.add_argument("--replay")
    args = ap.parse_args()
    seed = int(os.environ.get("VERIF_SEED", "0"))
    try:
        import warnings

        warnings.filterwarnings("ignore")
        import torch

        torch.set_num_threads(int(os.environ.get("VERIF_THREADS", "4")))
        from lib import core

        mod = importlib.import_module(f"props.{args.prop.lower()}")
        if args.replay:
            return core.run_replay(mod, args.replay)
        return core.run_check(mod, args.tier, seed)
    except Exception:
        traceback.print_exc()
        print(f"[{args.prop}] harness error (exit 2)")
        return 2


if __name__ == "__main__":
    sys.exit(main())
