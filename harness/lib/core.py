"""Check framework: proof step, correspondence streams, property oracles, evidence, reporting.

A property module (harness/props/cXX.py) exposes

    PROP        = "C01"
    STREAMS     = [Stream(...), ...]    # correspondence: implementation vs. Lean model
    ORACLES     = [Oracle(...), ...]    # the property stated directly against the deepali API
    ASSUMPTIONS = [...]                 # strings for the evidence file
    TRUSTED     = [...]

`run_check` decides the property as DESIGN.md §2.7 describes.
"""
from __future__ import annotations

import hashlib
import json
import math
import os
import random
import sys
import time
import traceback
from fractions import Fraction
from pathlib import Path
from typing import Any, Callable, Dict, Iterable, List, Optional, Sequence, Tuple

from . import lean

VERIF = Path(__file__).resolve().parents[2]
EVIDENCE = Path(os.environ.get("VERIF_EVIDENCE_DIR", VERIF / "evidence"))
REPLAY = Path(os.environ.get("VERIF_REPLAY_DIR", VERIF / "replay"))
CORPUS = VERIF / "corpus"
KNOWN = VERIF / "known_findings.json"


# ----------------------------------------------------------------------------- helpers
def jsonable(x):
    if isinstance(x, Fraction):
        return str(x)
    if isinstance(x, (list, tuple)):
        return [jsonable(v) for v in x]
    if isinstance(x, dict):
        return {str(k): jsonable(v) for k, v in x.items()}
    if isinstance(x, float):
        if math.isnan(x) or math.isinf(x):
            return repr(x)
        return x
    if isinstance(x, (int, str, bool)) or x is None:
        return x
    try:
        import torch

        if isinstance(x, torch.Tensor):
            return x.detach().cpu().tolist()
    except ImportError:  # pragma: no cover
        pass
    return repr(x)


def case_key(case: dict) -> str:
    return hashlib.sha1(json.dumps(jsonable(case), sort_keys=True).encode()).hexdigest()[:16]


def close(impl: Sequence[float], model: Sequence[Fraction], rtol: float, scale: float = 1.0) -> Optional[str]:
    """None when |impl − model| ≤ rtol·max(1, scale, |model|∞) elementwise, else a description."""
    if len(impl) != len(model):
        return f"length {len(impl)} != {len(model)}"
    m = [float(v) for v in model]
    s = max([1.0, abs(scale)] + [abs(v) for v in m])
    worst, where = 0.0, -1
    for i, (a, b) in enumerate(zip(impl, m)):
        if isinstance(a, float) and (math.isnan(a) or math.isinf(a)):
            return f"non-finite impl value at {i}: {a}"
        e = abs(float(a) - b)
        if e > worst:
            worst, where = e, i
    if worst > rtol * s:
        return f"max abs diff {worst:.3e} at {where} (impl {impl[where]!r} vs model {m[where]!r}, tol {rtol * s:.1e})"
    return None


class Stream:
    """Correspondence stream: `gen(rng, tier)` yields JSON-able cases; `impl(case)` runs deepali;
    `line(case)` is the driver op; `compare(case, impl_result, model_line_out)` returns None or text."""

    def __init__(self, name, gen, impl, line, compare, nontrivial=lambda c: True, exhaustive=False, doc=""):
        self.name, self.gen, self.impl, self.line, self.compare = name, gen, impl, line, compare
        self.nontrivial, self.exhaustive, self.doc = nontrivial, exhaustive, doc


class Oracle:
    """Property oracle on the implementation only: `check(case)` returns None (holds) or
    (finding_key, description). Used to search for failing inputs and to surface known findings."""

    def __init__(self, name, gen, check, nontrivial=lambda c: True, doc=""):
        self.name, self.gen, self.check, self.nontrivial, self.doc = name, gen, check, nontrivial, doc


def impl_call(fn: Callable, case: dict):
    """Run the implementation; exceptions are mapped to a small enum so rejections compare too."""
    try:
        return fn(case)
    except AssertionError as e:
        return f"err:assert:{str(e)[:80]}"
    except (ValueError, IndexError) as e:
        return f"err:value:{str(e)[:80]}"
    except (TypeError, AttributeError) as e:
        return f"err:type:{str(e)[:80]}"
    except NotImplementedError as e:
        return f"err:notimpl:{str(e)[:80]}"
    except RuntimeError as e:
        return f"err:runtime:{str(e)[:80]}"


# ----------------------------------------------------------------------------- known findings
def load_known() -> List[dict]:
    if not KNOWN.exists():
        return []
    return json.loads(KNOWN.read_text()).get("findings", [])


# ----------------------------------------------------------------------------- main driver
class Run:
    def __init__(self, prop: str, tier: str, seed: int):
        self.prop, self.tier, self.seed = prop, tier, seed
        self.t0 = time.time()
        self.streams: Dict[str, dict] = {}
        self.oracles: Dict[str, dict] = {}
        self.disagreements: List[dict] = []
        self.violations: List[dict] = []
        self.samples: List[Any] = []
        self.distinct: set = set()
        self.evaluations = 0
        self.proof: dict = {}

    def rng(self, name: str) -> random.Random:
        return random.Random(f"{self.seed}:{self.prop}:{name}")


def proof_step(run: Run, thorough: bool, extra_modules: Sequence[str] = ()) -> List[str]:
    """Build the property's theorems, audit axioms, scan for escape hatches. Returns broken names.
    `extra_modules`: further Props/<m>.lean files whose OBLIGATIONS also belong to this property."""
    prop = run.prop
    names = lean.obligations(prop)
    for m in extra_modules:
        names = names + [n for n in lean.obligations(m) if n not in names]
    ok, log = lean.build([f"Deepali.Props.{m}" for m in [prop, *extra_modules]] + ["Deepali.Drv.All"])
    broken: List[str] = []
    res: Dict[str, dict] = {}
    if ok and names:
        res = lean.audit(prop, names, extra_modules)
        broken = [n for n in names if not res[n]["ok"]]
    else:
        broken = list(names) or [f"Deepali.Props.{prop}"]
    hatch = lean.forbidden_tokens()
    if hatch:
        broken = broken or list(names)
    lc = None
    if thorough and ok:
        lc_ok, lc_log = lean.leanchecker([f"Deepali.Props.{prop}"])
        lc = {"ok": lc_ok, "log": lc_log[-400:]}
        if not lc_ok:
            broken = broken or list(names)
    axioms = sorted({a for r in res.values() for a in r.get("axioms", [])})
    # second tie: definitions regenerated from the current source, proved equal to the hand-written model (lib/fragments.py)
    gen: dict = {}
    if ok:
        from . import fragments

        gen = fragments.check(prop)
        gnames = ["gen:" + n for n in gen.get("names", [])]
        names = list(names) + gnames
        broken = list(broken) + ["gen:" + n for n in gen.get("broken", [])]
        axioms = sorted(set(axioms) | {a for a in gen.get("axioms", []) if a != "sorryAx"})
    run.proof = {
        "generated": {k: gen.get(k) for k in ("fragments", "skipped", "names", "broken", "errors")} if gen.get("names") else None,
        "obligations": len(names),
        "discharged": len([n for n in names if n not in broken]),
        "names": names,
        "broken": broken,
        "build_ok": ok,
        "build_log_tail": "" if ok else log[-1500:],
        "axioms_used": axioms,
        "escape_hatches": hatch,
        "leanchecker": lc,
    }
    return broken


def run_streams(run: Run, streams: Sequence[Stream], only: Optional[str] = None) -> None:
    model = lean.Model()
    pending: List[Tuple[Stream, dict, Any, int]] = []
    corpus_dir = CORPUS / run.prop
    for st in streams:
        if only and st.name != only:
            continue
        info = run.streams.setdefault(st.name, {"cases": 0, "nontrivial_distinct": 0, "disagreements": 0,
                                                "impl_errors": 0, "exhaustive": st.exhaustive, "doc": st.doc})
        cases: List[dict] = []
        if corpus_dir.exists():
            for f in sorted(corpus_dir.glob(f"{st.name}__*.json")):
                cases.append(json.loads(f.read_text())["case"])
        cases.extend(st.gen(run.rng(st.name), run.tier))
        for case in cases:
            r = impl_call(st.impl, case)
            if isinstance(r, str) and r.startswith("err:"):
                info["impl_errors"] += 1
            h = model.ask(st.line(case))
            pending.append((st, case, r, h))
    out = model.run()
    for st, case, r, h in pending:
        info = run.streams[st.name]
        info["cases"] += 1
        run.evaluations += 1
        k = (st.name, case_key(case))
        if st.nontrivial(case) and k not in run.distinct:
            run.distinct.add(k)
            info["nontrivial_distinct"] += 1
        try:
            why = st.compare(case, r, out[h])
        except Exception as e:  # comparison itself must never crash the run
            why = f"compare error: {type(e).__name__}: {e}"
        if why:
            info["disagreements"] += 1
            run.disagreements.append({"stream": st.name, "case": jsonable(case), "impl": jsonable(r),
                                      "model": out[h], "why": why})
        elif len([s for s in run.samples if s.get("stream") == st.name]) < 2:
            run.samples.append({"stream": st.name, "case": jsonable(case), "impl": jsonable(r), "model": out[h]})
    run.model_wall = model.wall


def run_oracles(run: Run, oracles: Sequence[Oracle], extra_cases: Optional[Dict[str, List[dict]]] = None,
                only: Optional[str] = None) -> None:
    for orc in oracles:
        if only and orc.name != only:
            continue
        info = run.oracles.setdefault(orc.name, {"cases": 0, "nontrivial_distinct": 0, "failures": 0, "doc": orc.doc})
        cases = list((extra_cases or {}).get(orc.name, []))
        cases.extend(orc.gen(run.rng("oracle:" + orc.name), run.tier))
        for case in cases:
            info["cases"] += 1
            run.evaluations += 1
            k = ("oracle:" + orc.name, case_key(case))
            if orc.nontrivial(case) and k not in run.distinct:
                run.distinct.add(k)
                info["nontrivial_distinct"] += 1
            try:
                res = orc.check(case)
            except Exception as e:
                res = (f"{run.prop}:{orc.name}:exception:{type(e).__name__}",
                       f"{type(e).__name__}: {str(e)[:200]}")
            if res is not None:
                info["failures"] += 1
                key, what = res
                run.violations.append({"oracle": orc.name, "key": key, "what": what, "case": jsonable(case)})
            elif len([s for s in run.samples if s.get("oracle") == orc.name]) < 1:
                run.samples.append({"oracle": orc.name, "case": jsonable(case), "holds": True})


def write_replay(run: Run, name: str, payload: dict) -> Path:
    REPLAY.mkdir(parents=True, exist_ok=True)
    p = REPLAY / f"{run.prop}_{name}.json"
    p.write_text(json.dumps(jsonable(payload), indent=1))
    return p


def finish(run: Run, mod, level: str = "proof") -> int:
    known = [k for k in load_known() if k.get("property") == run.prop]
    known_keys = {k["key"]: k for k in known if k.get("status") == "known"}
    lines: List[str] = []
    unlisted = 0
    # 1. violations found on the implementation (oracle)
    by_key: Dict[str, List[dict]] = {}
    for v in run.violations:
        by_key.setdefault(v["key"], []).append(v)
    known_hit = []
    for key, vs in sorted(by_key.items()):
        if key in known_keys:
            known_hit.append(key)
            lines.append(f"KNOWN-FINDING: property={run.prop} {known_keys[key]['what_fails']} [{key}; {len(vs)} case(s)]")
            continue
        unlisted += 1
        v = min(vs, key=lambda v: len(json.dumps(v["case"])))
        p = write_replay(run, "violation_" + hashlib.sha1(key.encode()).hexdigest()[:8], {
            "property": run.prop, "kind": "impl-violates-property", "oracle": v["oracle"], "key": key,
            "seed": run.seed, "case": v["case"], "what": v["what"], "no_failing_input_found": False,
            "cases_failing": len(vs)})
        lines.append(f"VIOLATION property={run.prop} replay={p}")
    # 2. broken proof obligations / correspondence without a failing input
    broken = run.proof.get("broken", [])
    if (broken or run.disagreements) and unlisted == 0:
        p = write_replay(run, "unverified", {
            "property": run.prop,
            "kind": "proof-obligation" if broken else "correspondence",
            "theorems_not_checked": broken, "build_log_tail": run.proof.get("build_log_tail", ""),
            "generated_from_source": run.proof.get("generated"),
            "escape_hatches": run.proof.get("escape_hatches", []),
            "correspondence_disagreements": run.disagreements[:20],
            "streams": sorted({d["stream"] for d in run.disagreements}),
            "seed": run.seed, "no_failing_input_found": True,
            "note": "the model no longer matches the implementation (or a theorem no longer checks); the property "
                    "oracle found no input on which the implementation breaks the property itself"})
        unlisted += 1
        lines.append(f"VIOLATION property={run.prop} replay={p} no-failing-input-found")
    elif run.disagreements or broken:
        # a failing input was found; keep the broken correspondence/proof next to it for the reader
        write_replay(run, "correspondence", {"property": run.prop, "theorems_not_checked": broken,
                                             "correspondence_disagreements": run.disagreements[:20]})
    for l in lines:
        print(l)
    wall = time.time() - run.t0
    n_distinct = len(run.distinct)
    cov = {
        "obligations": run.proof.get("obligations", 0),
        "discharged": run.proof.get("discharged", 0),
        "checker_cmd": f"cd lean && lake build Deepali.Props.{run.prop} && lake env lean <#print axioms of each obligation>"
                       + (" && lake env leanchecker Deepali.Props." + run.prop if run.tier == "thorough" else ""),
        "trusted_base": list(getattr(mod, "TRUSTED", [])) + [
            "Lean 4.33 kernel", "axioms: " + ", ".join(run.proof.get("axioms_used", []) or ["none"]),
            "Mathlib v4.33.0 (single modules)", "harness/lib + harness/props/%s.py (float→ℚ exact, tolerances)" % run.prop.lower(),
            "Lean driver parser/printer (Deepali/Proto.lean)"],
        "theorems": run.proof.get("names", []),
        "generated_from_source": run.proof.get("generated") or {"note": "no source fragment is regenerated for this property; "
                                                               "the tie is the correspondence streams"},
        "theorems_broken": broken,
        "evaluations": max(run.evaluations, 1),
        "distinct_nontrivial": n_distinct,
        "rule": getattr(mod, "RULE", "cases are drawn from one PRNG seeded by VERIF_SEED (finite tables enumerated "
                        "exhaustively); distinct = distinct after JSON canonicalisation; non-trivial as defined per stream"),
        "samples": run.samples[:8] or [{"note": "no passing sample recorded"}],
        "traces_validated_against_impl": sum(s["cases"] for s in run.streams.values()),
        "correspondence_streams": run.streams,
        "correspondence_disagreements": len(run.disagreements),
        "exploration": {"oracles": run.oracles, "note": "property oracles on the implementation; used for failing-input "
                        "search and known findings, never as the proof"},
        "known_findings_hit": known_hit,
        "exhaustive": all(s.get("exhaustive") for s in run.streams.values()) if run.streams else False,
        "model_driver_wall_s": round(getattr(run, "model_wall", 0.0), 2),
    }
    ev = {
        "property_id": run.prop, "tier": run.tier, "seed": run.seed, "level": level, "coverage": cov,
        "assumptions": list(getattr(mod, "ASSUMPTIONS", [])),
        "wall_s": round(wall, 2), "violations": unlisted,
    }
    EVIDENCE.mkdir(parents=True, exist_ok=True)
    (EVIDENCE / f"{run.prop}.json").write_text(json.dumps(jsonable(ev), indent=1))
    print(f"[{run.prop}] tier={run.tier} seed={run.seed} obligations={cov['obligations']} discharged={cov['discharged']} "
          f"corr_cases={cov['traces_validated_against_impl']} disagreements={len(run.disagreements)} "
          f"oracle_failures={len(run.violations)} known={len(known_hit)} unlisted_violations={unlisted} wall={wall:.1f}s")
    return 1 if unlisted else 0


def run_check(mod, tier: str, seed: int) -> int:
    run = Run(mod.PROP, tier, seed)
    proof_step(run, thorough=(tier == "thorough"), extra_modules=getattr(mod, "EXTRA_OBLIGATION_MODULES", ()))
    if run.proof["build_ok"]:
        run_streams(run, mod.STREAMS)
    # search: feed disagreeing cases to the oracles that understand them, then the regular budget
    extra: Dict[str, List[dict]] = {}
    if run.disagreements and hasattr(mod, "search_cases"):
        extra = mod.search_cases(run.disagreements)
    search_tier = tier
    if (run.disagreements or run.proof.get("broken")) and tier == "quick":
        search_tier = "search"   # larger budget when something broke
    run.tier, saved = search_tier, run.tier
    run_oracles(run, mod.ORACLES, extra)
    run.tier = saved
    return finish(run, mod)


def run_replay(mod, path: str) -> int:
    payload = json.loads(Path(path).read_text())
    run = Run(mod.PROP, "quick", int(payload.get("seed", 0)))
    rc = 0
    if payload.get("kind") == "impl-violates-property":
        orc = next(o for o in mod.ORACLES if o.name == payload["oracle"])
        res = orc.check(payload["case"])
        if res is None:
            print(f"replay: property holds on this case now ({payload['oracle']})")
        else:
            print(f"replay: still failing: {res[0]}: {res[1]}")
            print(f"VIOLATION property={mod.PROP} replay={path}")
            rc = 1
    else:
        for d in payload.get("correspondence_disagreements", []):
            st = next(s for s in mod.STREAMS if s.name == d["stream"])
            r = impl_call(st.impl, d["case"])
            out = lean.eval_lines([st.line(d["case"])])[0]
            why = st.compare(d["case"], r, out)
            print(f"replay {d['stream']}: " + ("agrees now" if not why else "still disagrees: " + why))
            if why:
                rc = 1
        if payload.get("theorems_not_checked"):
            broken = proof_step(run, thorough=False, extra_modules=getattr(mod, "EXTRA_OBLIGATION_MODULES", ()))
            print("replay: theorems not checking: " + (", ".join(broken) or "none"))
            rc = rc or (1 if broken else 0)
        if rc:
            print(f"VIOLATION property={mod.PROP} replay={path} no-failing-input-found")
    return rc
