"""Generated-fragment obligations: the second tie between the Lean model and /repo's CURRENT source (DESIGN §14).

For a property with an entry in REGISTRY, every run
  1. re-translates the listed source fragments (functions, statement blocks, assigned expressions) of the source tree
     under test (`VERIF_REPO_SRC`, default /repo/src) into Lean definitions `Deepali.Gen.*` (lib/pytrans.py),
  2. inserts them into the hand-written proof file harness/gen/<Prop>.lean.in, whose theorems state that each generated
     definition equals the corresponding definition of the hand-written model (Deepali.Model.*),
  3. elaborates the result with `lake env lean` (a scratch file outside the lake project) and audits the axioms of
     every theorem named after `GEN-OBLIGATIONS:` in the proof file.
A theorem that no longer elaborates (the source fragment changed its meaning, moved, or left the supported subset) is a
broken proof obligation of the property: the check then searches for a failing input like for any other broken
obligation, and reports `no-failing-input-found` otherwise.
"""
from __future__ import annotations

import ast
import os
import re
import tempfile
from pathlib import Path
from typing import Dict, List, Sequence, Tuple

from . import lean
from .pytrans import Frag, render

GEN_DIR = Path(__file__).resolve().parents[1] / "gen"
MARK = "--GENERATED--"

_GRID = "deepali/core/grid.py"
_IMG = "deepali/core/image.py"
_LF = "deepali/losses/functional.py"
_FL = "deepali/core/flow.py"
_AFF = "deepali/core/affine.py"
_DIMG = "deepali/data/image.py"
_RN_EUL = {f"{t}[..., {k}]": f"{t}{k}" for t in "cs" for k in range(3)}
_RN_GRID = {"self._size": "n", "num_[::2]": "lo", "num_[1::2]": "hi"}
_RN_ROI_G = {"start[i]": "start", "size[i]": "size", "grid_size[i]": "m"}
_RN_ROI_T = {"start[i]": "start", "size[i]": "size", "data.shape[data.ndim - 1 - i]": "m"}

_RN_TF = {"self.size_tensor()": "size"}


def _norm(expr: str) -> str:
    """`ast.unparse` spelling of an expression (the key form of `Frag.rename` / `Frag.tests`) under the running Python"""
    return ast.unparse(ast.parse(expr, mode="eval").body)


# ImageBatch.pyramid (data/image.py): the test that chooses between the plain data resize and sampling at the new grid's
# points, the two data expressions, and the provenance of `source_grids`. The statements are matched TEXTUALLY (after
# `ast.unparse`): any other operand of the comparison (`self._grid[0]`, `.extent()`, …) leaves the fragment untranslated.
_PYR_TEST = _norm("torch.allclose(grids[0].cube_extent(), source_grids[0].cube_extent())")
_PYR_POINTS = _norm("torch.cat([grid_transform_points(grid.coords(align_corners=align_corners, device=self.device), grid, axes,"
                    " source_grid, axes).unsqueeze(0) for grid, source_grid in zip(grids, source_grids)], dim=0)")
_PYR_REFLAG = _norm("tuple(grid.align_corners(align_corners) for grid in self._grid)")
_PYR_LEVEL0 = _norm("tuple(grid.pyramid(levels, dims=dims, min_size=min_size)[0] for grid in grids)")


def _tf(name, occ, params, **kw):
    return (Frag(name, _GRID, "Grid.transform", "assign", {k: "real" for k in params}, occ=(occ, occ), rename=_RN_TF, **kw), "real")


def _xf(name, file, func, params, **kw):
    """C11: a method of ExpFlow / StationaryVelocityFieldTransform over the record `ExpFlowCfg` (Model/ExpFlowState.lean)"""
    kw.setdefault("ctors", {"ExpFlow": ()})
    kw.setdefault("defaults", {"scale": "((1 : Nat) : α)", "steps": "5", "align_corners": "true"})      # ExpFlow.__init__ @53-69
    return (Frag(name, "deepali/" + file, func, "record", params, record="ExpFlowCfg", methods={"inverse": "ExpFlowCfg.inverse"},
                 fields={"scale": ("scale", "real"), "steps": ("steps", "nat"), "align_corners": ("alignCorners", "bool")}, **kw), "real")


def _co(name, target, occ, params, elt=None):
    return (Frag(name, _GRID, "Grid.coords", "assign", {k: "real" for k in params}, target=target, occ=(occ, occ), elt=elt), "real")


REGISTRY: Dict[str, List[Tuple[Frag, str]]] = {
    "C01": [
        # Grid.transform, same-grid branch table: diagonal scale and offset of every axes pair that has a closed form
        _tf("tf_grid_cube_scale", 0, ["size"], target="matrix", arg_of="torch.diag"),
        _tf("tf_grid_corners_scale", 1, ["size"], target="matrix", arg_of="torch.diag"),
        _tf("tf_cube_corners_scale", 2, ["size"], target="matrix", arg_of="torch.diag"),
        _tf("tf_cube_grid_scale", 3, ["half_size"], target="matrix", arg_of="torch.diag"),
        _tf("tf_corners_cube_scale", 4, ["size"], target="matrix", arg_of="torch.diag"),
        _tf("tf_corners_grid_scale", 5, ["scales"], target="matrix", arg_of="torch.diag"),
        _tf("tf_grid_cube_offset", 1, ["size", "one"], target="matrix", arg_of="homogeneous_matrix", kwarg="offset"),
        _tf("tf_grid_corners_offset", 2, ["offset"], target="matrix", arg_of="homogeneous_matrix", kwarg="offset"),
        _tf("tf_cube_grid_offset", 4, ["half_size"], target="matrix", arg_of="homogeneous_matrix", kwarg="offset"),
        _tf("tf_corners_grid_offset", 5, ["scales"], target="matrix", arg_of="homogeneous_matrix", kwarg="offset"),
        _tf("tf_half_size", 0, ["size"], target="half_size"),
        _tf("tf_scales", 0, ["size"], target="scales"),
        _tf("tf_one", 0, [], target="one"),
        _tf("tf_minus_one", 1, [], target="offset"),
        # which size the closed forms read: the ROUNDED `size_tensor()` (a re-gridded grid stores a fractional `_size`)
    ] + [
        (Frag(f"tf_size_source{k}", _GRID, "Grid.transform", "assign", {"n": "real"}, target="size", occ=(k, k),
              rename={"self.size_tensor()": "n"}), "real") for k in range(4)
    ] + [
        # Grid.transform_vectors, same-grid closed-form path (separate from Grid.transform)
        (Frag("tv_scale_cube", _GRID, "Grid.transform_vectors", "assign", {"size": "real"}, target="scales", occ=(1, 1), rename=_RN_TF), "real"),
        (Frag("tv_scale_corners", _GRID, "Grid.transform_vectors", "assign", {"size": "real"}, target="scales", occ=(2, 2), rename=_RN_TF), "real"),
        (Frag("tv_num_corners", _GRID, "Grid.transform_vectors", "assign", {"size": "real"}, target="num", occ=(0, 1), rename=_RN_TF), "real"),
        (Frag("tv_grid_to_cube", _GRID, "Grid.transform_vectors", "assign", {"num": "real"}, target="grid_to_cube"), "real"),
        (Frag("tv_scales_compose", _GRID, "Grid.transform_vectors", "assign", {"scales": "real", "grid_to_cube": "real"}, target="scales", occ=(4, 4)), "real"),
        (Frag("tv_apply", _GRID, "Grid.transform_vectors", "assign", {"vectors": "real", "scales": "real"}, target="vectors", occ=(2, 2)), "real"),
        # Grid.coords(normalize=True): arange(first, last, step) per axis
        _co("co_ac_step", "spacing", 0, ["n"]),
        _co("co_ac_first", "extrema", 0, [], elt=0),
        _co("co_ac_last", "extrema", 0, ["spacing"], elt=1),
        _co("co_step", "spacing", 1, ["n"]),
        _co("co_first", "extrema", 1, ["spacing"], elt=0),
        _co("co_last", "extrema", 1, [], elt=1),
    ],
    "C04": [
        # grid side (core/grid.py)
        (Frag("grid_crop_size", _GRID, "Grid.crop", "assign", {"n": "int", "lo": "int", "hi": "int"}, target="size", occ=(0, 0), rename=_RN_GRID), "int"),
        (Frag("grid_crop_first", _GRID, "Grid.crop", "assign", {"lo": "int"}, target="origin", arg_of="self.index_to_world", rename=_RN_GRID), "int"),
        (Frag("grid_pad_size", _GRID, "Grid.pad", "assign", {"n": "int", "lo": "int", "hi": "int"}, target="size", occ=(0, 0), rename=_RN_GRID), "int"),
        (Frag("grid_pad_first", _GRID, "Grid.pad", "assign", {"lo": "int"}, target="origin", arg_of="self.index_to_world", rename=_RN_GRID), "int"),
        (Frag("grid_center_crop_size", _GRID, "Grid.center_crop", "assign", {"m": "int", "n": "int"}, target="size", occ=(1, 1), elt=0), "int"),
        (Frag("grid_center_crop_first", _GRID, "Grid.center_crop", "assign", {"m": "int", "n": "int"}, target="origin", elt=0), "int"),
        (Frag("grid_center_pad_size", _GRID, "Grid.center_pad", "assign", {"m": "int", "n": "int"}, target="size", occ=(1, 1), elt=0), "int"),
        (Frag("grid_center_pad_first", _GRID, "Grid.center_pad", "assign", {"m": "int", "n": "int"}, target="origin", elt=0), "int"),
        (Frag("grid_roi_lo", _GRID, "Grid.region_of_interest", "assign", {"start": "int", "size": "int", "m": "int"}, target="num", occ=(0, 0), elt=0, rename=_RN_ROI_G), "int"),
        (Frag("grid_roi_hi", _GRID, "Grid.region_of_interest", "assign", {"start": "int", "size": "int", "m": "int"}, target="num", occ=(0, 0), elt=1, rename=_RN_ROI_G), "int"),
        # data side (core/image.py)
        (Frag("tensor_crop_pad", _IMG, "crop", "assign", {"n": "int"}, target="pad_", occ=(1, 1), elt=0), "int"),
        (Frag("tensor_center_crop_excess", _IMG, "center_crop", "assign", {"m": "int", "n": "int"}, target="crop", occ=(0, 0), elt=0), "int"),
        (Frag("tensor_center_crop_first", _IMG, "center_crop", "assign", {"n": "int"}, target="crop", occ=(1, 1), elt=0), "int"),
        (Frag("tensor_center_pad_excess", _IMG, "center_pad", "assign", {"m": "int", "n": "int"}, target="pad", occ=(0, 0), elt=0), "int"),
        (Frag("tensor_center_pad_lo", _IMG, "center_pad", "assign", {"n": "int"}, target="pad", occ=(1, 1), elt=0), "int"),
        (Frag("tensor_center_pad_hi", _IMG, "center_pad", "assign", {"n": "int"}, target="pad", occ=(1, 1), elt=1), "int"),
        (Frag("tensor_roi_lo", _IMG, "region_of_interest", "assign", {"start": "int", "size": "int", "m": "int"}, target="num", occ=(1, 1), elt=0, rename=_RN_ROI_T), "int"),
        (Frag("tensor_roi_hi", _IMG, "region_of_interest", "assign", {"start": "int", "size": "int", "m": "int"}, target="num", occ=(1, 1), elt=1, rename=_RN_ROI_T), "int"),
        # data layer (data/image.py): the finest level of ImageBatch.pyramid
        (Frag("pyramid_finest_data", _DIMG, "ImageBatch.pyramid", "block",
              {"extents_close": "bool", "size0": "int", "resized": "real", "axes0": "int", "points0": "real", "sampled": "real"},
              tests=(_PYR_TEST,), outs=("data",), out_kinds={"data": "real"},
              rename={_PYR_TEST: "extents_close", "grids[0].size()": "size0",
                      "U.grid_resize(self, size, mode=mode, align_corners=align_corners)": "resized",
                      "Axes.from_align_corners(align_corners)": "axes0", _PYR_POINTS: "points0",
                      "U.grid_sample(self, points, mode=mode, align_corners=align_corners)": "sampled"}), "real"),
        # `source_grids` is the FIRST value of `grids` (the image grids re-flagged with the requested convention), bound before
        # `grids` is replaced by the finest-level grids
        (Frag("pyramid_source_grids", _DIMG, "ImageBatch.pyramid", "lets", {"reflagged": "real", "level0": "real"},
              lets=("grids", "source_grids", "grids"), result="=source_grids",
              rename={_PYR_REFLAG: "reflagged", _PYR_LEVEL0: "level0"}), "real"),
        (Frag("pyramid_finest_grids", _DIMG, "ImageBatch.pyramid", "lets", {"reflagged": "real", "level0": "real"},
              lets=("grids", "source_grids", "grids"), result="=grids",
              rename={_PYR_REFLAG: "reflagged", _PYR_LEVEL0: "level0"}), "real"),
    ],
    "C08": [
        (Frag("shear_dim", _AFF, "shear_matrix", "block", {"N": "int"}, tests=("N == 1",), outs=("D",), out_kinds={"D": "int"}), "int"),
    ] + [
        # euler_rotation_matrix: D = 2 entries, the five hard-coded 3-D orders, the three elementary rotations of the fallback
        (Frag(f"euler2_{i}{j}", _AFF, "euler_rotation_matrix", "assign", {"c0": "real", "s0": "real"}, target=f"matrix[..., {i}, {j}]",
              occ=(0, 0), rename=_RN_EUL), "real") for i in (0, 1) for j in (0, 1)
    ] + [
        (Frag(f"euler{o}_{i}{j}", _AFF, "euler_rotation_matrix", "assign", {k: "real" for k in ("c0", "c1", "c2", "s0", "s1", "s2")},
              target=f"matrix[..., {i}, {j}]", occ=(k + (1 if i < 2 and j < 2 else 0),) * 2, rename=_RN_EUL), "real")
        for k, o in enumerate(("XYZ", "ZYX", "ZXY", "XZX", "ZXZ")) for i in range(3) for j in range(3)
    ] + [
        (Frag(f"rot{ax}_{i}{j}", _AFF, "euler_rotation_matrix", "assign", {"c": "real", "s": "real"}, target=f"rot[..., {i}, {j}]",
              occ=(k, k), rename={"c[..., i]": "c", "s[..., i]": "s"}), "real")
        for k, ax in enumerate("XYZ") for i in range(3) for j in range(3)
    ] + [
        (Frag("quat_matrix", "deepali/core/_kornia.py", "quaternion_to_rotation_matrix", "lets",
              {"w": "real", "x": "real", "y": "real", "z": "real"},
              lets=("tx", "ty", "tz", "twx", "twy", "twz", "txx", "txy", "txz", "tyy", "tyz", "tzz", "one"), result="matrix"), "real"),
        (Frag("r2q_sel0", "deepali/core/_kornia.py", "rotation_matrix_to_quaternion", "assign", {"trace": "real"},
              target="quaternion", arg_of="torch.where"), "real"),
        (Frag("r2q_sel1", "deepali/core/_kornia.py", "rotation_matrix_to_quaternion", "assign",
              {"m00": "real", "m11": "real", "m22": "real"}, target="where_1", arg_of="torch.where"), "real"),
        (Frag("r2q_sel2", "deepali/core/_kornia.py", "rotation_matrix_to_quaternion", "assign",
              {"m11": "real", "m22": "real"}, target="where_2", arg_of="torch.where"), "real"),
    ] + [
        (Frag("r2q_" + nm, "deepali/core/_kornia.py", "rotation_matrix_to_quaternion." + nm, "lets",
              dict({k: "real" for k in ("m00", "m01", "m02", "m10", "m11", "m12", "m20", "m21", "m22", "eps")},
                   **({"trace": "real"} if nm == "trace_positive_cond" else {})),
              lets=("sq", "qw", "qx", "qy", "qz"), result="return", sqrt=True, funcs=("safe_zero_division",)), "real")
        for nm in ("trace_positive_cond", "cond_1", "cond_2", "cond_3")
    ],
    "C02": [
        # the size the offset is computed from is the ROUNDED size `size_tensor()` (not the float-valued stored `_size`)
        (Frag("origin_size", _GRID, "Grid.origin", "assign", {"n": "real"}, target="size", occ=(0, 0), rename={"self.size_tensor()": "n"}), "real"),
        (Frag("origin_set_size", _GRID, "Grid.origin_", "assign", {"n": "real"}, target="size", occ=(0, 0), rename={"self.size_tensor()": "n"}), "real"),
        (Frag("origin_half_size", _GRID, "Grid.origin", "assign", {"size": "real"}, target="offset", occ=(0, 0)), "real"),
        (Frag("origin_set_half_size", _GRID, "Grid.origin_", "assign", {"size": "real"}, target="offset", occ=(0, 0)), "real"),
        (Frag("origin_value", _GRID, "Grid.origin", "assign", {"center": "real", "offset": "real"}, target="return", occ=(0, 0),
              rename={"self._center": "center"}), "real"),
        (Frag("origin_set_center", _GRID, "Grid.origin_", "assign", {"origin": "real", "offset": "real"}, target="self._center"), "real"),
    ],
    "C03": [
        (Frag("resize_spacing_corners", _GRID, "Grid._resize", "assign", {"extent": "real", "sp": "real", "size": "real"}, target="spacing",
              occ=(0, 0), rename={"self.extent()": "extent", "self.spacing()": "sp"}), "real"),
        (Frag("resize_spacing_extent", _GRID, "Grid._resize", "assign", {"extent": "real", "size": "real"}, target="spacing",
              occ=(1, 1), rename={"self.extent()": "extent"}), "real"),
        (Frag("pool_size", _GRID, "Grid.pool", "assign", {"n": "real", "ks": "real", "ceil_mode": "bool"}, target="size", occ=(0, 2),
              rename={"self.size_tensor()": "n"}), "real"),
        (Frag("pool_origin", _GRID, "Grid.pool", "assign", {"ks": "real"}, target="grid", arg_of="Grid", kwarg="origin",
              idfuncs=("self.index_to_world",)), "real"),
        (Frag("pool_spacing", _GRID, "Grid.pool", "assign", {"sp": "real", "ks": "real"}, target="grid", arg_of="Grid", kwarg="spacing",
              rename={"self.spacing()": "sp"}), "real"),
        # Grid.pyramid: the integer recurrences inside the loops over `dims` / `level` — one step up from the coarsest level,
        # the halving step down, and the value kept when the halved size falls below `min_size` (the comparison itself and the
        # coarsest size `int(0.5 + (n + m) / 2**levels)` stay with the correspondence streams: `int()` / `2**levels` / nested
        # `if` are outside the translator's subset)
        (Frag("pyr_up_step", _GRID, "Grid.pyramid", "assign", {"s": "int"}, target="sizes[level][dim]", occ=(0, 0),
              rename={"sizes[level + 1][dim]": "s"}), "int"),
        (Frag("pyr_down_half", _GRID, "Grid.pyramid", "assign", {"p": "int"}, target="sizes[level][dim]", occ=(1, 1),
              rename={"sizes[level - 1][dim]": "p"}), "int"),
        (Frag("pyr_down_keep", _GRID, "Grid.pyramid", "assign", {"p": "int"}, target="sizes[level][dim]", occ=(2, 2),
              rename={"sizes[level - 1][dim]": "p"}), "int"),
    ],
    "C07": [
        (Frag("translation_invert", "deepali/spatial/linear.py", "Translation.tensor", "block", {"offset": "real", "invert": "bool"},
              tests=("self.invert",), outs=("offset",), rename={"self.invert": "invert"}), "real"),
        (Frag("iso_scaling_invert", "deepali/spatial/linear.py", "IsotropicScaling.tensor", "block", {"scales": "real", "invert": "bool"},
              tests=("self.invert",), outs=("scales",), rename={"self.invert": "invert"}), "real"),
        (Frag("aniso_scaling_invert", "deepali/spatial/linear.py", "AnisotropicScaling.tensor", "block", {"scales": "real", "invert": "bool"},
              tests=("self.invert",), outs=("scales",), rename={"self.invert": "invert"}), "real"),
    ],
    "C12": [
        (Frag("fd_quot", _IMG, "finite_differences.finite_difference", "lets", {"fb": "real", "fa": "real", "step_size": "real", "dist": "int"},
              lets=("h", "h"), result="=return", idfuncs=("reshape",),
              rename={"data[b]": "fb", "data[a]": "fa", "j.start - i.start": "dist"}), "real"),
    ] + [
        (Frag(f"fd_{v}_{nm}", _IMG, "finite_differences", "assign", {"n": "int", "dilation": "int"}, target=v, occ=(k, k),
              arg_of="slice", rename={"data.shape[dim]": "n"}), "int")
        for v in ("i", "j") for k, nm in enumerate(("forward", "backward", "central", "lower", "mid", "upper"))
    ] + [
        # data/flow.py FlowFields.curl: the whole `if spacing is None:` block — the if / elif / elif / else chain on
        # `self.axes()` that derives the spacing passed to U.curl (one spatial axis: sp = self.spacing()[b, i],
        # n = self.grid().size()[i], a Python int). The tests are named by Bool parameters, so that an edit of a test
        # (other enum member, `==` instead of `is`, reordered branches with different tests) leaves the supported subset.
        (Frag("curl_spacing", "deepali/data/flow.py", "FlowFields.curl", "block",
              {"spacing": "optreal", "is_grid": "bool", "is_world": "bool", "is_cube": "bool", "sp": "real", "n": "int"},
              tests=("spacing is None",), outs=("spacing",), elt=0,
              rename={"self.axes() is Axes.GRID": "is_grid", "self.axes() is Axes.WORLD": "is_world",
                      "self.axes() is Axes.CUBE": "is_cube", "self.spacing()": "sp", "self.grid().size()": "n"}), "real"),
    ],
    "C11": [
        (Frag("expv_sign", _FL, "expv", "block", {"scale": "real", "inverse": "bool"}, tests=("inverse",), outs=("scale",)), "real"),
        (Frag("expv_init", _FL, "expv", "assign", {"flow": "real", "scale": "real", "steps": "nat"}, target="disp", occ=(0, 0)), "real"),
        (Frag("expv_step", _FL, "expv", "assign", {"disp": "real", "w": "real"}, target="disp", occ=(1, 1),
              rename={"warp_image(disp, grid, flow=move_dim(disp, 1, -1), mode=sampling, padding=padding, align_corners=align_corners)": "w"}), "real"),
        (Frag("warp_pos", _FL, "warp_image", "assign", {"grid": "real", "flow": "real"}, target="grid", occ=(1, 1)), "real"),
        # the STATE of the exponential (scale, steps, align_corners) through ExpFlow.inverse / .inv / forward and through
        # StationaryVelocityFieldTransform.grid_ / .inverse: whole function bodies in record mode (a shallow copy is the same
        # record, an attribute assignment on it a record update; `ExpFlow(...)` is a record literal whose omitted keywords
        # take the defaults of ExpFlow.__init__, so a rebuilt module that drops an attribute fails the equality theorem)
        _xf("expflow_inverse", "modules/flow.py", "ExpFlow.inverse", {"self": "rec"}),
        _xf("expflow_inv", "modules/flow.py", "ExpFlow.inv", {"self": "rec"}),
        _xf("expflow_forward_args", "modules/flow.py", "ExpFlow.forward", {"self": "rec", "inverse": "bool"}, ctors={"U.expv": ("x",)},
            defaults={}),
        _xf("svf_grid", "spatial/nonrigid.py", "StationaryVelocityFieldTransform.grid_", {"self.exp": "rec", "grid_ac": "bool"},
            rename={"grid.align_corners()": "grid_ac", "cast(ExpFlow, self.exp)": "self.exp"}, skip=("super().grid_(grid)",)),
        _xf("svf_inverse", "spatial/nonrigid.py", "StationaryVelocityFieldTransform.inverse", {"self.exp": "rec"},
            rename={"cast(ExpFlow, self.exp)": "self.exp"}, skip=("link", "update_buffers")),
    ],
    "C13": [
        (Frag("compose_pos", _FL, "compose_flows", "assign", {"x": "real", "u": "real"}, target="x", occ=(1, 1), idfuncs=("move_dim", "unsqueeze")), "real"),
        (Frag("compose_sum", _FL, "compose_flows", "lets", {"u": "real", "v": "real"}, lets=(), result="=return"), "real"),
    ],
    "C16": [
        (Frag("ncc_score", _LF, "ncc_loss", "assign", {k: "real" for k in ("a", "b", "c", "epsilon")}, target="loss", occ=(0, 0)), "real"),
        (Frag("lcc_score", _LF, "lcc_loss", "assign", {k: "real" for k in ("a", "b", "c", "epsilon")}, target="loss", occ=(0, 0)), "real"),
        (Frag("wlcc_score", _LF, "wlcc_loss", "assign", {k: "real" for k in ("a", "b", "c", "epsilon")}, target="loss", occ=(0, 0)), "real"),
        (Frag("dice_entry", _LF, "dice_score", "lets", {k: "real" for k in ("pt", "pp", "tt", "epsilon")},
              lets=("intersection", "denominator", "loss"), result="=loss",
              rename={"dot_channels(y_pred, y, weight=weight)": "pt", "dot_channels(y_pred, y_pred, weight=weight)": "pp",
                      "dot_channels(y, y, weight=weight)": "tt"}), "real"),
        (Frag("tversky_entry", _LF, "tversky_index", "lets", {k: "real" for k in ("tp", "fp", "fn", "alpha", "beta", "epsilon")},
              lets=("intersection", "fps", "fns", "numerator", "denominator", "loss"), result="=loss",
              rename={"dot_channels(y_pred, y, weight=weight)": "tp", "dot_channels(y_pred, 1 - y, weight=weight)": "fp",
                      "dot_channels(1 - y_pred, y, weight=weight)": "fn"}), "real"),
        # losses/base.py NormalizedPairwiseImageLoss.__init__: the statements that derive `self.norm` from the three optional
        # arguments — `if norm is True:` and the whole `if norm is None: … elif norm is False:` chain. `norm` is an optional
        # scalar whose None-ness is tracked along each path; the identity tests against the two bool singletons are named by
        # Bool parameters (any other test on `norm`, e.g. `isinstance(norm, bool)` or `==`, leaves the supported subset);
        # `source` / `target` are optional opaque objects (tested for None, aliased, handed to `max_difference`).
        (Frag("module_norm", "deepali/losses/base.py", "NormalizedPairwiseImageLoss.__init__", "block",
              {"norm": "optreal", "norm_is_true": "bool", "norm_is_false": "bool", "source": "optobj", "target": "optobj"},
              tests=("norm is True", "norm is None"), outs=("norm",), objfuncs=("max_difference",),
              rename={"norm is True": "norm_is_true", "norm is False": "norm_is_false"}), "real"),
    ],
    "C17": [
        (Frag("lame_table", "deepali/losses/functional.py", "lame_parameters", "block",
              {"first_parameter": "optreal", "second_parameter": "optreal", "shear_modulus": "optreal",
               "poissons_ratio": "optreal", "youngs_modulus": "optreal"},
              tests=("second_parameter is None", "first_parameter is None"), outs=("first_parameter", "second_parameter"),
              sqrt=True, consts=("RUBBER_POISSONS_RATIO",)), "real"),
        (Frag("denorm_scale", _FL, "denormalize_flow", "lets", {"data": "real", "size": "real", "align_corners": "bool"},
              lets=("zero", "size", "size_", "data"), result="=data"), "real"),
        (Frag("denorm_side", _FL, "denormalize_flow", "block", {"data": "real", "side_length": "real"},
              tests=("side_length != 1",), outs=("data",)), "real"),
        (Frag("lame_clip", "deepali/losses/functional.py", "lame_parameters", "block",
              {"first_parameter": "real", "second_parameter": "real"},
              tests=("first_parameter < 0", "second_parameter < 0"), outs=("first_parameter", "second_parameter")), "real"),
    ],
    "C10": [
        # core/flow.py normalize_flow / denormalize_flow: the functional GRID <-> cube conversion (per component; `size` is the
        # number of samples along the component's axis as a tensor of the data's dtype)
        (Frag("norm_side", _FL, "normalize_flow", "block", {"data": "real", "side_length": "real"},
              tests=("side_length != 1",), outs=("data",)), "real"),
        (Frag("norm_scale", _FL, "normalize_flow", "lets", {"data": "real", "size": "real", "align_corners": "bool"},
              lets=("zero", "size", "size_", "data"), result="=data"), "real"),
        (Frag("denorm_scale", _FL, "denormalize_flow", "lets", {"data": "real", "size": "real", "align_corners": "bool"},
              lets=("zero", "size", "size_", "data"), result="=data"), "real"),
        (Frag("denorm_side", _FL, "denormalize_flow", "block", {"data": "real", "side_length": "real"},
              tests=("side_length != 1",), outs=("data",)), "real"),
    ],
    "C14": [
    ] + [
        (Frag(f"bw{d}_{col}", "deepali/core/bspline.py", "cubic_bspline_interpolation_weights", "assign",
              {k: "real" for k in ("offset", "k0", "k2", "k3", "s023")}, target=f"kernel[:, {col}]", occ=(d, d),
              rename={"kernel[:, 0]": "k0", "kernel[:, 2]": "k2", "kernel[:, 3]": "k3", "kernel[:, [0, 2, 3]].sum(1)": "s023"}), "real")
        for d in (0, 1, 2) for col in (3, 0, 2, 1)
    ] + [
        (Frag("cubic_bspline_value", "deepali/core/kernels.py", "cubic_bspline_value", "function", {"x": "real", "derivative": "nat"}), "real"),
        (Frag("ctrl_size", "deepali/core/bspline.py", "cubic_bspline_control_point_grid_size", "assign", {"m": "int", "s": "int"}, target="n", occ=(0, 1)), "int"),
    ],
}


def obligations(prop: str) -> List[str]:
    f = GEN_DIR / f"{prop}.lean.in"
    if not f.exists():
        return []
    m = re.search(r"GEN-OBLIGATIONS:(.*?)(?:\n\s*\n|-/)", f.read_text(), re.S)
    return m.group(1).split() if m else []


def check(prop: str) -> Dict[str, object]:
    """returns {"names": [...], "broken": [...], "detail": {name: {...}}, "skipped": {fragment: reason}, "axioms": [...]}"""
    names = obligations(prop)
    if prop not in REGISTRY or not names:
        return {"names": [], "broken": [], "detail": {}, "skipped": {}, "axioms": [], "fragments": []}
    src_root = Path(os.environ.get("VERIF_REPO_SRC", "/repo/src"))
    text, done, skipped = render(REGISTRY[prop], src_root)
    tmpl = (GEN_DIR / f"{prop}.lean.in").read_text()
    body = tmpl.replace(MARK, text) + "\n" + "\n".join(f"#print axioms Deepali.GenProofs.{n}" for n in names) + "\n"
    with tempfile.TemporaryDirectory(prefix="verif_gen_") as td:
        path = os.path.join(td, f"Gen{prop}.lean")
        with open(path, "w") as fh:
            fh.write(body)
        with lean._Lock(shared=True):
            p = lean._run(["lake", "env", "lean", path], timeout=1800)
    out = (p.stdout or "") + (p.stderr or "")
    detail: Dict[str, dict] = {}
    for n in names:
        m = re.search(r"'Deepali\.GenProofs\." + re.escape(n) + r"' (does not depend on any axioms|depends on axioms: \[([^\]]*)\])", out)
        if not m:
            detail[n] = {"ok": False, "error": "does not elaborate"}
            continue
        axs = [] if m.group(2) is None else [a.strip() for a in m.group(2).replace("\n", " ").split(",") if a.strip()]
        bad = [a for a in axs if a not in lean.ALLOWED_AXIOMS]
        detail[n] = {"ok": not bad, "axioms": axs}
        if bad:
            detail[n]["error"] = "does not check against the current source (" + ", ".join(bad) + ")"
    # `#print axioms` alone is not enough: a theorem whose STATEMENT fails to elaborate is still added (with a `sorry`
    # type) and reports no axioms. Every error message is therefore attributed to the theorem whose text contains its line
    # (an error elsewhere, e.g. inside the generated definitions, breaks every obligation), and a non-zero exit status
    # without an attributable error breaks all of them.
    lines = body.splitlines()
    starts = [(i + 1, m.group(1)) for i, l in enumerate(lines) for m in [re.match(r"\s*theorem\s+([A-Za-z_][A-Za-z0-9_']*)", l)] if m]
    err_lines = [int(m.group(1)) for m in re.finditer(r"Gen" + re.escape(prop) + r"\.lean:(\d+):\d+: error", out)]
    hit_all = p.returncode != 0 and not err_lines
    # an error on one of the appended `#print axioms` lines (the named theorem does not exist) is already recorded for THAT
    # theorem by the regex above; it must not be attributed to the last theorem of the file
    n_tmpl = len(tmpl.replace(MARK, text).splitlines())
    err_lines = [ln for ln in err_lines if ln <= n_tmpl]
    for ln in err_lines:
        owner = [nm for (st, nm) in starts if st <= ln]
        if owner and owner[-1] in detail:
            detail[owner[-1]] = {"ok": False, "error": f"elaboration error at line {ln}"}
        elif not owner or owner[-1] not in names:
            if not owner:
                hit_all = True
    if hit_all:
        for n in names:
            detail[n] = {"ok": False, "error": "the generated file does not elaborate"}
    broken = [n for n in names if not detail[n]["ok"]]
    errs = [l for l in out.splitlines() if ": error" in l][:12]
    return {"names": names, "broken": broken, "detail": detail, "skipped": skipped, "fragments": done,
            "axioms": sorted({a for d in detail.values() for a in d.get("axioms", [])}),
            "errors": errs, "generated_text": text if broken else ""}
