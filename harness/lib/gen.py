"""Generators for structured, mostly-valid deepali inputs (all draws from the given PRNG)."""
from __future__ import annotations

import itertools
import math
import random
from typing import List, Sequence

import torch


def rot2(theta: float) -> List[List[float]]:
    c, s = math.cos(theta), math.sin(theta)
    return [[c, -s], [s, c]]


def rot3(rng: random.Random) -> List[List[float]]:
    # random unit quaternion -> rotation
    q = [rng.gauss(0, 1) for _ in range(4)]
    n = math.sqrt(sum(v * v for v in q))
    w, x, y, z = [v / n for v in q]
    return [
        [1 - 2 * (y * y + z * z), 2 * (x * y - z * w), 2 * (x * z + y * w)],
        [2 * (x * y + z * w), 1 - 2 * (x * x + z * z), 2 * (y * z - x * w)],
        [2 * (x * z - y * w), 2 * (y * z + x * w), 1 - 2 * (x * x + y * y)],
    ]


def signed_perms(d: int, proper_only: bool = False) -> List[List[List[float]]]:
    out = []
    for perm in itertools.permutations(range(d)):
        for signs in itertools.product([1.0, -1.0], repeat=d):
            m = [[0.0] * d for _ in range(d)]
            for i, p in enumerate(perm):
                m[i][p] = signs[i]
            if proper_only:
                det = torch.tensor(m).det().item()
                if det < 0:
                    continue
            out.append(m)
    return out


def direction(rng: random.Random, d: int, kind: str | None = None) -> List[List[float]]:
    kind = kind or rng.choice(["identity", "rotation", "rotation", "signed_perm"])
    if kind == "identity":
        return [[1.0 if i == j else 0.0 for j in range(d)] for i in range(d)]
    if kind == "signed_perm":
        return rng.choice(signed_perms(d))
    if d == 2:
        return rot2(rng.uniform(-math.pi, math.pi))
    return rot3(rng)


def grid_spec(rng: random.Random, d: int | None = None, min_size: int = 1, max_size: int = 24,
              ac: bool | None = None, dir_kind: str | None = None) -> dict:
    """JSON-able description of a grid (Python literals as given to `Grid(...)`)."""
    d = d or rng.choice([2, 3])
    size = [rng.choice([min_size, min_size + 1, rng.randint(min_size, max_size), rng.randint(min_size, max_size)])
            for _ in range(d)]
    if rng.random() < 0.25:
        spacing = [rng.choice([0.5, 1.0, 2.0])] * d
    else:
        spacing = [round(rng.uniform(0.1, 10.0), 3) for _ in range(d)]
    spec = {
        "size": size,
        "spacing": spacing,
        "direction": direction(rng, d, dir_kind),
        "align_corners": rng.random() < 0.5 if ac is None else ac,
    }
    pos = [round(rng.uniform(-1e3, 1e3), 2) if rng.random() < 0.3 else round(rng.uniform(-50, 50), 3) for _ in range(d)]
    if rng.random() < 0.5:
        spec["origin"] = pos
    else:
        spec["center"] = pos
    return spec


def derive(rng: random.Random, spec: dict, p: float = 0.25) -> dict:
    """with probability p mark the grid as *derived* (downsampled / resampled), which leaves a FRACTIONAL internal
    `_size` (e.g. 9 -> 4.5 with 5 samples): the float-valued size is part of the grid semantics (`size_tensor()` = ceil).
    Only grids with >= 5 samples per axis are derived, so that >= 3 samples remain."""
    if min(spec["size"]) >= 5 and rng.random() < p:
        spec = dict(spec)
        spec["derive"] = rng.choice(["downsample", "downsample", "resample"])
        spec["derive_factor"] = round(rng.uniform(1.1, 1.7), 3)
    return spec


def make_grid(spec: dict):
    from deepali.core.grid import Grid

    kw = dict(size=spec["size"], spacing=spec["spacing"], direction=spec["direction"],
              align_corners=spec["align_corners"])
    if "origin" in spec:
        kw["origin"] = spec["origin"]
    if "center" in spec:
        kw["center"] = spec["center"]
    g = Grid(**kw)
    if spec.get("derive") == "downsample":
        g = g.downsample(1)
    elif spec.get("derive") == "resample":
        g = g.resample(g.spacing() * spec["derive_factor"])
    return g


def grid_nontrivial(spec: dict) -> bool:
    d = len(spec["size"])
    ident = all(abs(spec["direction"][i][j] - (1.0 if i == j else 0.0)) < 1e-12 for i in range(d) for j in range(d))
    aniso = len(set(spec["spacing"])) > 1
    pos = spec.get("origin", spec.get("center"))
    off = any(abs(v) > 1e-12 for v in pos)
    return (not ident) or aniso or off


def points(rng: random.Random, d: int, n: int, lo: float = -2.0, hi: float = 2.0) -> List[List[float]]:
    return [[round(rng.uniform(lo, hi), 4) for _ in range(d)] for _ in range(n)]
