"""Interface to the Lean side: build, axiom audit, and the model driver (line protocol)."""
from __future__ import annotations

import os
import re
import subprocess
import tempfile
import time
from pathlib import Path
from typing import Dict, List, Sequence, Tuple

VERIF = Path(__file__).resolve().parents[2]
LEAN_DIR = VERIF / "lean"
ALLOWED_AXIOMS = {"propext", "Classical.choice", "Quot.sound"}
FORBIDDEN = re.compile(
    r"\bsorry\b|\badmit\b|^\s*axiom\s|native_decide|bv_decide|implemented_by|\bunsafe\s|maxHeartbeats\s+0"
)


def _run(cmd: Sequence[str], input: str | None = None, timeout: int = 3600) -> subprocess.CompletedProcess:
    env = dict(os.environ)
    return subprocess.run(
        list(cmd), cwd=str(LEAN_DIR), input=input, capture_output=True, text=True, timeout=timeout, env=env
    )


class _Lock:
    """serialise lake invocations that write into lean/.lake (several checks may run in parallel): builds take the
    lock exclusively, readers of the build products (driver runs, axiom audits, leanchecker) share it, so that no
    reader sees a half-rebuilt tree."""

    def __init__(self, shared: bool = False):
        self.shared = shared

    def __enter__(self):
        import fcntl

        (LEAN_DIR / ".lake").mkdir(exist_ok=True)
        self.fh = open(LEAN_DIR / ".lake" / "verif.lock", "a")
        fcntl.flock(self.fh, fcntl.LOCK_SH if self.shared else fcntl.LOCK_EX)
        return self

    def __exit__(self, *a):
        import fcntl

        fcntl.flock(self.fh, fcntl.LOCK_UN)
        self.fh.close()


def build(targets: Sequence[str]) -> Tuple[bool, str]:
    """`lake build <targets>`; no-op when up to date. Returns (ok, log tail)."""
    with _Lock():
        p = _run(["lake", "build", *targets])
    out = (p.stdout or "") + (p.stderr or "")
    return p.returncode == 0, out[-6000:]


def strip_comments(src: str) -> str:
    """Remove Lean block and line comments (nesting-aware for /- -/)."""
    out, i, depth, n = [], 0, 0, len(src)
    while i < n:
        if src.startswith("/-", i):
            depth += 1
            i += 2
        elif depth and src.startswith("-/", i):
            depth -= 1
            i += 2
        elif depth:
            if src[i] == "\n":
                out.append("\n")
            i += 1
        elif src.startswith("--", i):
            while i < n and src[i] != "\n":
                i += 1
        else:
            out.append(src[i])
            i += 1
    return "".join(out)


def forbidden_tokens() -> List[str]:
    """Scan every .lean file of the project (outside comments) for escape hatches."""
    hits = []
    for f in sorted(LEAN_DIR.rglob("*.lean")):
        if ".lake" in f.parts:
            continue
        try:
            code = strip_comments(f.read_text())
        except FileNotFoundError:      # a file that vanished between listing and reading is not part of the project
            continue
        for ln, line in enumerate(code.splitlines(), 1):
            if FORBIDDEN.search(line):
                hits.append(f"{f.relative_to(LEAN_DIR)}:{ln}: {line.strip()[:120]}")
    return hits


def obligations(prop: str) -> List[str]:
    """Names listed after `OBLIGATIONS:` in the header comment of Props/<prop>.lean."""
    f = LEAN_DIR / "Deepali" / "Props" / f"{prop}.lean"
    if not f.exists():
        return []
    src = f.read_text()
    m = re.search(r"OBLIGATIONS:(.*?)(?:\n\s*\n|-/)", src, re.S)
    if not m:
        return []
    return [t for t in m.group(1).split() if re.match(r"^[A-Za-z_][A-Za-z0-9_']*$", t)]


def audit(prop: str, names: Sequence[str], extra_modules: Sequence[str] = ()) -> Dict[str, dict]:
    """`#print axioms` for every obligation; returns name -> {ok, axioms|error}."""
    body = [f"import Deepali.Props.{m}" for m in [prop, *extra_modules]] + ["open Deepali"]
    for n in names:
        body.append(f"#print axioms {n}")
    # the scratch file lives outside the project (another check's escape-hatch scan must not see it)
    with tempfile.TemporaryDirectory(prefix="verif_audit_") as td:
        tmp = os.path.join(td, "Audit.lean")
        with open(tmp, "w") as fh:
            fh.write("\n".join(body) + "\n")
        with _Lock(shared=True):
            p = _run(["lake", "env", "lean", tmp])
    text = (p.stdout or "") + (p.stderr or "")
    res: Dict[str, dict] = {}
    for n in names:
        m = re.search(
            r"'(?:Deepali\.)?" + re.escape(n) + r"' (does not depend on any axioms|depends on axioms: \[([^\]]*)\])",
            text,
        )
        if not m:
            res[n] = {"ok": False, "error": "not found / does not elaborate"}
            continue
        axs = [] if m.group(2) is None else [a.strip() for a in m.group(2).replace("\n", " ").split(",") if a.strip()]
        bad = [a for a in axs if a not in ALLOWED_AXIOMS]
        res[n] = {"ok": not bad, "axioms": axs}
        if bad:
            res[n]["error"] = "disallowed axioms: " + ", ".join(bad)
    return res


def leanchecker(modules: Sequence[str]) -> Tuple[bool, str]:
    with _Lock(shared=True):
        p = _run(["lake", "env", "leanchecker", *modules], timeout=3600)
    out = (p.stdout or "") + (p.stderr or "")
    return p.returncode == 0, out[-2000:]


class Model:
    """Batch evaluation of driver operations. `ask(line)` queues a line and returns a handle
    index; `run()` executes the batch; results are in `out`."""

    def __init__(self) -> None:
        self.lines: List[str] = []
        self.out: List[str] = []
        self.wall = 0.0

    def ask(self, line: str) -> int:
        assert "\n" not in line
        self.lines.append(line)
        return len(self.lines) - 1

    def run(self) -> List[str]:
        if not self.lines:
            self.out = []
            return self.out
        t0 = time.time()
        with _Lock(shared=True):
            p = _run(["lake", "env", "lean", "--run", "Driver.lean"], input="\n".join(self.lines) + "\n")
        self.wall += time.time() - t0
        if p.returncode != 0:
            raise RuntimeError("model driver failed: " + (p.stderr or p.stdout)[-2000:])
        out = p.stdout.split("\n")
        if out and out[-1] == "":
            out.pop()
        if len(out) != len(self.lines):
            raise RuntimeError(f"model driver returned {len(out)} lines for {len(self.lines)} ops")
        self.out = out
        return out


def eval_lines(lines: Sequence[str]) -> List[str]:
    m = Model()
    for l in lines:
        m.ask(l)
    return m.run()
