"""Encoding of values for the line protocol (exact rationals) and decoding of model output."""
from __future__ import annotations

from fractions import Fraction
from typing import Iterable, List, Sequence

AXES = ("grid", "cube", "cube_corners", "world")


def fr(x) -> str:
    """Exact rational string of a Python/NumPy/torch scalar (floats are converted exactly)."""
    if isinstance(x, Fraction):
        f = x
    elif isinstance(x, bool):
        f = Fraction(int(x))
    elif isinstance(x, int):
        f = Fraction(x)
    else:
        f = Fraction(float(x))
    return str(f.numerator) if f.denominator == 1 else f"{f.numerator}/{f.denominator}"


def vec(xs: Iterable) -> str:
    return " ".join(fr(x) for x in xs)


def flat(t) -> List[float]:
    """torch tensor / nested sequence -> flat list of python floats (float64 exact of stored value)."""
    try:
        import torch

        if isinstance(t, torch.Tensor):
            return [float(v) for v in t.detach().double().flatten().tolist()]
    except ImportError:  # pragma: no cover
        pass
    out: List[float] = []

    def rec(v):
        if isinstance(v, (list, tuple)):
            for w in v:
                rec(w)
        else:
            out.append(float(v))

    rec(t)
    return out


def grid(g) -> str:
    """deepali Grid -> `size center spacing direction ac` using the *stored* float32 attributes."""
    return " ".join(
        [vec(flat(g._size)), vec(flat(g._center)), vec(flat(g._spacing)), vec(flat(g._direction)),
         "1" if g._align_corners else "0"]
    )


def parse_rat(s: str) -> Fraction:
    return Fraction(s)


def parse_vec(s: str) -> List[Fraction]:
    return [Fraction(t) for t in s.split()]


def parse_h(s: str, d: int):
    """`trans t…` | `aff A…` | `hom A… t…` -> (kind, matrix rows or None, translation or None)"""
    toks = s.split()
    kind, vals = toks[0], [Fraction(t) for t in toks[1:]]
    if kind == "trans":
        return kind, None, vals[:d]
    if kind == "aff":
        return kind, [vals[i * d:(i + 1) * d] for i in range(d)], None
    if kind == "hom":
        return kind, [vals[i * d:(i + 1) * d] for i in range(d)], vals[d * d:d * d + d]
    raise ValueError(s)


def is_error(s: str) -> bool:
    return s.startswith("bad-op") or s.startswith("err:")
