"""pytrans — a small translator from a subset of Python (as it occurs in /repo/src/deepali) to Lean 4 definitions.

Second tie between model and source (DESIGN §2.6b / §14): selected functions, statement blocks and assigned
expressions of the CURRENT source are re-translated on every run into `Deepali.Gen.*` definitions; a hand-written
proof file (harness/gen/<Prop>.lean.in) proves each generated definition equal to the corresponding definition of the
hand-written model, and is elaborated against the freshly generated text (`lake env lean`, outside the lake project).
An edit of the source that changes the meaning of a fragment changes the generated definition, the equality proof
stops checking, and the check treats this like any other broken proof obligation (failing-input search, VIOLATION).

Supported subset (everything else raises `Unsupported`, which the caller reports as "fragment not translated"):

  statements   x = e | x op= e | x: T = e | if/elif/else | return e | raise E(...) | assert e | pass | docstrings
  expressions  names, int/float/bool literals, + - * / // % **k, unary -, not, comparisons (chains), and/or,
               conditional expressions, abs/min/max/float/math.sqrt, `x is None` / `x is not None`
  tensor method chains, read ELEMENTWISE (one scalar per element; the translator is only applied to formulas that are
               elementwise): add sub mul div(rounding_mode=floor|trunc) neg abs square pow sqrt reciprocal floor ceil
               clamp where eq ne lt le gt ge fmod remainder (+ in-place variants), casts (float double long int type to
               clone detach contiguous) are the identity or the Int -> scalar cast
  None         Optional[float] variables are tracked statically along each path; a test on an unknown one becomes a
               `match`
  records      (mode "record") objects with a fixed set of scalar attributes (`Frag.fields`) are values of a Lean structure
               (`Frag.record`); `y = shallow_copy(x)` is the SAME record (a fresh, owned copy), `y.attr = e` / `y.attr op= e`
               on an owned copy is a record update `{ y with attr := e }` (on anything else: aliasing, not modelled),
               dotted variables (`self.exp`) can be parameters and can be re-bound, `x.m()` for `m` in `Frag.methods` is a
               Lean function, a call listed in `Frag.ctors` is a record literal of its keyword arguments (omitted keywords
               take `Frag.defaults`); any other constructor / call leaves the subset

Kinds: "real" (the scalar type α), "int" (Lean Int), "bool" (Prop in conditions), "optreal" (Option α), "optobj" (Option ι:
an optional opaque object, e.g. an image, that is only tested for None, aliased, and handed to the `objfuncs`).
Python semantics kept: `//` and `%` are floor division / modulus (Int.fdiv / Int.fmod), tensor `fmod` truncates
(Int.tmod); float literals are read as the exact decimal they are written as; `**` only with a literal exponent >= 0.
Not kept (stated in the generated header): ZeroDivisionError of float `/` (Lean's total division is used; equality
theorems carry the non-zero hypotheses), float rounding.
"""
from __future__ import annotations

import ast
import re
import textwrap
from dataclasses import dataclass, field
from fractions import Fraction
from pathlib import Path
from typing import Callable, Dict, List, Optional, Sequence, Tuple


class Unsupported(Exception):
    pass


INSTANCES = ("{α : Type} [Add α] [Sub α] [Mul α] [Div α] [Neg α] [NatCast α] [IntCast α] [HasFloor α] "
             "[DecidableEq α] [LT α] [DecidableRel (α := α) (· < ·)] {ι : Type}")
OPT = ("optreal", "optobj")     # Optional[...] variables tracked along each path; "optobj": an opaque object (Lean `Option ι`)

PRELUDE = """/-- Python `abs` on a scalar. -/
def pyAbs (x : α) : α := if x < ((0 : Nat) : α) then -x else x
def pyMin (a b : α) : α := if b < a then b else a
def pyMax (a b : α) : α := if a < b then b else a
"""


@dataclass
class Var:
    lean: str
    kind: str                    # real | int | bool | optreal
    none: Optional[bool] = None  # for optreal: statically known to be None / not None / unknown
    owned: bool = False          # for rec: a fresh copy made in this fragment (attribute assignment allowed)


@dataclass
class Frag:
    name: str                         # Lean name of the generated definition (in namespace Deepali.Gen)
    file: str                         # path relative to the source root, e.g. "deepali/core/kernels.py"
    func: str                         # qualified name, "f" or "Class.method"
    mode: str                         # "function" | "block" | "assign"
    params: Dict[str, str]            # free variable -> kind (order = order of the Lean parameters)
    target: Optional[str] = None      # assign mode: the variable
    occ: Optional[Tuple[int, int]] = None   # assign mode: first/last index among the assignments to `target`
    tests: Sequence[str] = ()         # block mode: `ast.unparse(test)` of the top-level `if` statements to take, in order
    outs: Sequence[str] = ()          # block mode: variables whose final values are returned
    out_kinds: Dict[str, str] = field(default_factory=dict)   # block mode: kind of an output that is not a parameter
    sqrt: bool = False                # adds a parameter `sqrtF : α → α` for math.sqrt / .sqrt()
    consts: Sequence[str] = ()        # names bound once at the top level of the function (`NAME = <expr>`): read from the source
    rename: Dict[str, str] = field(default_factory=dict)   # `ast.unparse(sub-expression)` -> parameter name (e.g. "self._size": "n")
    elt: Optional[int] = None         # assign mode: the value is a comprehension; translate its element (index into an inner list)
                                      # block mode: `tuple(<elt> for v in <iterable>)` is read elementwise (see Tr.comp_elt)
    arg_of: Optional[str] = None      # assign mode: only assignments whose value is a call of this function count; translate its
                                      # first argument (or the keyword argument `kwarg`)
    kwarg: Optional[str] = None
    idfuncs: Sequence[str] = ()       # calls read as their first argument (layout changes: move_dim, unsqueeze, ...)
    funcs: Sequence[str] = ()         # local helper functions of two scalars, kept uninterpreted: parameters `f_<name> : α → α → α`
    objfuncs: Sequence[str] = ()      # functions of two opaque objects ("optobj" variables known to be present): `f_<name> : ι → ι → α`
    lets: Sequence[str] = ()          # lets mode: names assigned (in this order) at the top level of the function
    result: Optional[str] = None      # lets mode: variable whose assigned value contains the tuple/list of result entries
    # record mode (whole function body; parameters of kind "rec", possibly dotted such as "self.exp"; returns a record)
    record: Optional[str] = None      # Lean structure `record α` of every "rec" value
    fields: Dict[str, Tuple[str, str]] = field(default_factory=dict)   # Python attribute -> (Lean field, real | nat | bool)
    copies: Sequence[str] = ("shallow_copy",)                          # calls that return a shallow copy of their argument
    methods: Dict[str, str] = field(default_factory=dict)              # argument-less method of a record -> Lean function
    ctors: Dict[str, Sequence[str]] = field(default_factory=dict)      # callee -> source text of its positional arguments;
                                                                       # its keyword arguments are the record's fields
    defaults: Dict[str, str] = field(default_factory=dict)             # attribute -> Lean term of an omitted `ctors` keyword
    skip: Sequence[str] = ()          # statements passed over: the test of an `if`, else the statement text (must not assign
                                      # a tracked variable)


def _find_func(tree: ast.Module, qual: str) -> ast.FunctionDef:
    parts = qual.split(".")
    body = tree.body
    node = None
    for i, p in enumerate(parts):
        cands = [n for n in body if isinstance(n, (ast.FunctionDef, ast.ClassDef)) and n.name == p]
        if not cands:
            raise Unsupported(f"{qual}: '{p}' not found")
        node = cands[-1]          # the last definition wins (typing overloads come first)
        body = node.body
    if not isinstance(node, ast.FunctionDef):
        raise Unsupported(f"{qual} is not a function")
    return node


def _lname(py: str) -> str:
    return "v_" + re.sub(r"\W", "_", py)


class Tr:
    def __init__(self, frag: Frag, src: str, fn: Optional[ast.FunctionDef] = None):
        self.f = frag
        self.src = src
        self.tmp = 0
        self.nat_names: Dict[str, str] = {}
        self.mutated: set = set()     # names updated in place: a later read would alias the updated tensor
        self.const_nodes: Dict[str, ast.AST] = {}
        for name in frag.consts:
            hits = [s.value for s in (fn.body if fn else []) if isinstance(s, ast.Assign) and len(s.targets) == 1
                    and isinstance(s.targets[0], ast.Name) and s.targets[0].id == name]
            if len(hits) != 1:
                raise Unsupported(f"constant '{name}' is not bound exactly once at the top level of {frag.func}")
            self.const_nodes[name] = hits[0]

    # ------------------------------------------------------------------ literals / casts
    def lit(self, node: ast.Constant, want: Optional[str]) -> Tuple[str, str]:
        v = node.value
        if isinstance(v, bool):
            return ("True" if v else "False"), "bool"
        if isinstance(v, int):
            if want == "real":
                return f"(({v} : Nat) : α)", "real"
            return f"({v} : Int)", "int"
        if isinstance(v, float):
            text = ast.get_source_segment(self.src, node) or repr(v)
            fr = Fraction(text)
            if fr.denominator == 1:
                return f"(({fr.numerator} : Nat) : α)", "real"
            return f"((({fr.numerator} : Nat) : α) / (({fr.denominator} : Nat) : α))", "real"
        raise Unsupported(f"literal {v!r}")

    @staticmethod
    def to_real(t: str, k: str) -> str:
        if k == "real":
            return t
        if k == "int":
            return f"(({t} : Int) : α)"
        raise Unsupported(f"cannot use a {k} as a scalar")

    # ------------------------------------------------------------------ expressions
    def expr(self, n: ast.AST, env: Dict[str, Var], want: Optional[str] = None) -> Tuple[str, str]:
        if self.f.rename and not isinstance(n, (ast.Constant, ast.Name)):
            key = ast.unparse(n)
            if key in self.f.rename:
                v = env[self.f.rename[key]]
                return v.lean, v.kind
        if isinstance(n, ast.Constant):
            return self.lit(n, want)
        if isinstance(n, ast.Name):
            if n.id in self.mutated:
                raise Unsupported(f"'{n.id}' is read after an in-place update (aliasing is not modelled)")
            if n.id in env:
                v = env[n.id]
                if v.kind in OPT:
                    if v.none is False:
                        return v.lean, ("real" if v.kind == "optreal" else "obj")
                    raise Unsupported(f"'{n.id}' may be None where its value is used")
                return v.lean, v.kind
            if n.id in self.const_nodes:
                return self.expr(self.const_nodes[n.id], env, want)
            raise Unsupported(f"unknown name '{n.id}'")
        if isinstance(n, ast.Attribute) and self.f.record:
            if ast.unparse(n) in env:                      # a dotted variable such as `self.exp`
                return env[ast.unparse(n)].lean, env[ast.unparse(n)].kind
            t, k = self.expr(n.value, env)
            if k == "rec" and n.attr in self.f.fields:
                return self.field(t, n.attr)
            raise Unsupported(f"attribute {ast.unparse(n)[:60]}")
        if isinstance(n, ast.UnaryOp):
            if isinstance(n.op, ast.USub):
                if isinstance(n.operand, ast.Constant) and isinstance(n.operand.value, int) and want != "real":
                    return f"(-{n.operand.value} : Int)", "int"
                t, k = self.expr(n.operand, env, want)
                return f"(-{t})", k
            if isinstance(n.op, ast.UAdd):
                return self.expr(n.operand, env, want)
            if isinstance(n.op, ast.Not):
                return f"(¬ {self.cond(n.operand, env)})", "bool"
            raise Unsupported(ast.dump(n.op))
        if isinstance(n, ast.BinOp):
            return self.binop(n, env, want)
        if isinstance(n, (ast.Compare, ast.BoolOp)):
            return self.cond(n, env), "bool"
        if isinstance(n, ast.IfExp):
            a, ka = self.expr(n.body, env, want)
            b, kb = self.expr(n.orelse, env, want)
            if ka != kb:
                a, b, ka = self.to_real(a, ka), self.to_real(b, kb), "real"
            return f"(if {self.cond(n.test, env)} then {a} else {b})", ka
        if isinstance(n, ast.Call):
            return self.call(n, env, want)
        raise Unsupported(f"expression {type(n).__name__}: {ast.unparse(n)[:60]}")

    def arith(self, op: str, a: Tuple[str, str], b: Tuple[str, str]) -> Tuple[str, str]:
        (ta, ka), (tb, kb) = a, b
        if ka == "int" and kb == "int":
            return f"({ta} {op} {tb})", "int"
        return f"({self.to_real(ta, ka)} {op} {self.to_real(tb, kb)})", "real"

    def binop(self, n: ast.BinOp, env, want) -> Tuple[str, str]:
        op = n.op
        if isinstance(op, ast.Pow) and isinstance(n.left, ast.Constant) and isinstance(n.left.value, int) and n.left.value > 0 \
                and isinstance(n.right, ast.Name) and n.right.id in self.nat_names:
            return f"(({n.left.value} ^ {self.nat_names[n.right.id]} : Nat) : Int)", "int"      # c ** k for a natural k
        if isinstance(op, ast.Pow):
            if not (isinstance(n.right, ast.Constant) and isinstance(n.right.value, int) and n.right.value >= 0):
                raise Unsupported("** with a non-literal exponent")
            return self.power(self.expr(n.left, env, want), n.right.value)
        # a literal operand takes the kind of the other operand
        lk = None if isinstance(n.left, ast.Constant) else self.expr(n.left, env, want)[1]
        rk = None if isinstance(n.right, ast.Constant) else self.expr(n.right, env, want)[1]
        hint = "real" if isinstance(op, ast.Div) else (lk or rk or want)
        a = self.expr(n.left, env, hint if lk is None else want)
        b = self.expr(n.right, env, hint if rk is None else want)
        if isinstance(op, (ast.BitAnd, ast.BitOr)) and a[1] == "bool" and b[1] == "bool":
            return f"({a[0]} {'∧' if isinstance(op, ast.BitAnd) else '∨'} {b[0]})", "bool"
        if isinstance(op, ast.Add):
            return self.arith("+", a, b)
        if isinstance(op, ast.Sub):
            return self.arith("-", a, b)
        if isinstance(op, ast.Mult):
            return self.arith("*", a, b)
        if isinstance(op, ast.Div):
            return f"({self.to_real(*a)} / {self.to_real(*b)})", "real"
        if isinstance(op, ast.FloorDiv):
            if a[1] == "int" and b[1] == "int":
                return f"(Int.fdiv {a[0]} {b[0]})", "int"
            raise Unsupported("// on scalars")
        if isinstance(op, ast.Mod):
            if a[1] == "int" and b[1] == "int":
                return f"(Int.fmod {a[0]} {b[0]})", "int"
            raise Unsupported("% on scalars")
        raise Unsupported(type(op).__name__)

    def power(self, base: Tuple[str, str], k: int) -> Tuple[str, str]:
        t, kind = base
        if k == 0:
            return ("(1 : Int)", "int") if kind == "int" else ("((1 : Nat) : α)", "real")
        return "(" + " * ".join([t] * k) + ")", kind

    CMP = {ast.Lt: "lt", ast.LtE: "le", ast.Gt: "gt", ast.GtE: "ge", ast.Eq: "eq", ast.NotEq: "ne"}

    def cmp1(self, op: str, a: Tuple[str, str], b: Tuple[str, str]) -> str:
        (ta, ka), (tb, kb) = a, b
        if ka == "bool" and kb == "bool" and op in ("eq", "ne"):
            return f"({ta} ↔ {tb})" if op == "eq" else f"(¬ ({ta} ↔ {tb}))"
        if ka == "int" and kb == "int":
            sym = {"lt": "<", "le": "≤", "gt": ">", "ge": "≥", "eq": "=", "ne": "≠"}[op]
            return f"({ta} {sym} {tb})"
        ta, tb = self.to_real(ta, ka), self.to_real(tb, kb)
        return {"lt": f"({ta} < {tb})", "gt": f"({tb} < {ta})", "le": f"(¬ ({tb} < {ta}))", "ge": f"(¬ ({ta} < {tb}))",
                "eq": f"({ta} = {tb})", "ne": f"({ta} ≠ {tb})"}[op]

    def cond(self, n: ast.AST, env) -> str:
        """a boolean expression as a decidable Prop (no None tests in here: those are handled by `branch`)"""
        if self.f.rename and isinstance(n, ast.Compare) and ast.unparse(n) in self.f.rename:
            v = env[self.f.rename[ast.unparse(n)]]          # a whole test named by a Bool parameter, e.g. `self.axes() is Axes.GRID`
            if v.kind != "bool":
                raise Unsupported(f"test `{ast.unparse(n)}` is renamed to a {v.kind}")
            return v.lean
        if isinstance(n, ast.BoolOp):
            parts = [self.cond(v, env) for v in n.values]
            return "(" + (" ∧ " if isinstance(n.op, ast.And) else " ∨ ").join(parts) + ")"
        if isinstance(n, ast.UnaryOp) and isinstance(n.op, ast.Not):
            return f"(¬ {self.cond(n.operand, env)})"
        if isinstance(n, ast.Compare):
            items = [n.left] + list(n.comparators)
            out = []
            for i, op in enumerate(n.ops):
                if type(op) not in self.CMP:
                    raise Unsupported(f"comparison {type(op).__name__}")
                l, r = items[i], items[i + 1]
                lk = None if isinstance(l, ast.Constant) else self.expr(l, env)[1]
                rk = None if isinstance(r, ast.Constant) else self.expr(r, env)[1]
                a = self.expr(l, env, rk if lk is None else None)
                b = self.expr(r, env, lk if rk is None else None)
                out.append(self.cmp1(self.CMP[type(op)], a, b))
            return out[0] if len(out) == 1 else "(" + " ∧ ".join(out) + ")"
        t, k = self.expr(n, env)
        if k != "bool":
            raise Unsupported(f"truthiness of a {k}: {ast.unparse(n)[:40]}")
        return t

    ELEMENTWISE_BIN = {"add": "+", "sub": "-", "mul": "*", "subtract": "-", "multiply": "*"}
    IDENTITY = {"float", "double", "clone", "detach", "contiguous", "type", "to", "type_as", "cpu", "item"}

    def call(self, n: ast.Call, env, want) -> Tuple[str, str]:
        fn = n.func
        kws = {k.arg: k.value for k in n.keywords}
        if ast.unparse(fn) in self.f.idfuncs and n.args:
            return self.expr(n.args[0], env, want)
        if isinstance(fn, ast.Attribute) and fn.attr in self.f.idfuncs:
            return self.expr(fn.value, env, want)
        if self.f.record and ast.unparse(fn) in self.f.copies and len(n.args) == 1 and not kws:
            t, k = self.expr(n.args[0], env)
            if k != "rec":
                raise Unsupported(f"{ast.unparse(fn)}() of a {k}")
            return t, "rec"                                # a shallow copy has the same attributes: the same record
        if self.f.record and ast.unparse(fn) in self.f.ctors:
            if [ast.unparse(a) for a in n.args] != list(self.f.ctors[ast.unparse(fn)]) or set(kws) - set(self.f.fields):
                raise Unsupported(f"arguments of {ast.unparse(n)[:70]}")
            parts = []
            for attr, (lf, fk) in self.f.fields.items():
                if attr in kws:
                    parts.append(self.coerce(attr, self.expr(kws[attr], env, "real" if fk == "real" else None)))
                elif attr in self.f.defaults:
                    parts.append(f"{lf} := {self.f.defaults[attr]}")
                else:
                    raise Unsupported(f"{ast.unparse(fn)}(…) without `{attr}=`")
            return "({ " + ", ".join(parts) + f" }} : {self.f.record} α)", "rec"
        if (self.f.elt is not None and self.f.mode == "block" and isinstance(fn, ast.Name) and fn.id in ("tuple", "list")
                and len(n.args) == 1 and isinstance(n.args[0], (ast.GeneratorExp, ast.ListComp))):
            return self.comp_elt(n.args[0], env, want)
        if isinstance(fn, ast.Name):
            if fn.id == "abs" and len(n.args) == 1:
                t, k = self.expr(n.args[0], env, want)
                return (f"(Int.natAbs {t} : Int)", "int") if k == "int" else (f"(pyAbs {t})", "real")
            if fn.id in ("min", "max") and len(n.args) == 2:
                a, b = self.expr(n.args[0], env, want), self.expr(n.args[1], env, want)
                if a[1] == "int" and b[1] == "int":
                    return f"({fn.id} {a[0]} {b[0]})", "int"
                return f"(py{fn.id.capitalize()} {self.to_real(*a)} {self.to_real(*b)})", "real"
            if fn.id in self.f.objfuncs and len(n.args) == 2:
                a, b = self.expr(n.args[0], env), self.expr(n.args[1], env)
                if a[1] != "obj" or b[1] != "obj":
                    raise Unsupported(f"{fn.id}() of {a[1]}, {b[1]}")
                return f"(f_{fn.id} {a[0]} {b[0]})", "real"
            if fn.id in self.f.funcs and len(n.args) == 2:
                a, b = self.expr(n.args[0], env, "real"), self.expr(n.args[1], env, "real")
                return f"(f_{fn.id} {self.to_real(*a)} {self.to_real(*b)})", "real"
            if fn.id == "int" and len(n.args) == 1:
                t, k = self.expr(n.args[0], env, want)
                if k == "int":
                    return t, k
                raise Unsupported("int() of a scalar")
            if fn.id == "float" and len(n.args) == 1:
                return self.to_real(*self.expr(n.args[0], env, "real")), "real"
            raise Unsupported(f"call {fn.id}()")
        if isinstance(fn, ast.Attribute):
            if isinstance(fn.value, ast.Name) and fn.value.id == "math" and fn.attr == "sqrt":
                if not self.f.sqrt:
                    raise Unsupported("math.sqrt without sqrt=True")
                return f"(sqrtF {self.to_real(*self.expr(n.args[0], env, 'real'))})", "real"
            if isinstance(fn.value, ast.Name) and fn.value.id == "torch" and fn.attr == "sqrt" and len(n.args) == 1:
                if not self.f.sqrt:
                    raise Unsupported("torch.sqrt without sqrt=True")
                return f"(sqrtF {self.to_real(*self.expr(n.args[0], env, 'real'))})", "real"
            if isinstance(fn.value, ast.Name) and fn.value.id == "torch" and fn.attr in ("tensor", "as_tensor") and len(n.args) == 1:
                return self.expr(n.args[0], env, want)
            if isinstance(fn.value, ast.Name) and fn.value.id == "torch" and fn.attr in ("clamp", "clip") and n.args:
                return self.method(self.expr(n.args[0], env, want), "clamp", n.args[1:], kws, env, want)
            if isinstance(fn.value, ast.Name) and fn.value.id == "torch" and fn.attr == "where" and len(n.args) == 3:
                a, b = self.expr(n.args[1], env, want), self.expr(n.args[2], env, want)
                if a[1] != b[1]:
                    a, b = (self.to_real(*a), "real"), (self.to_real(*b), "real")
                return f"(if {self.cond(n.args[0], env)} then {a[0]} else {b[0]})", a[1]
            inplace = fn.attr.endswith("_") and not fn.attr.endswith("__")
            recv = self.expr(fn.value, env, want)
            if inplace and isinstance(fn.value, ast.Name):
                self.mutated.add(fn.value.id)
            return self.method(recv, fn.attr.rstrip("_") if inplace else fn.attr, n.args, kws, env, want)
        raise Unsupported(f"call {ast.unparse(fn)[:40]}")

    def comp_elt(self, comp, env, want) -> Tuple[str, str]:
        """block mode with `elt`: `tuple(<elt> for v in <iterable>)` is read ELEMENTWISE as `<elt>`, where the loop variable
        `v` must be a parameter and `rename` must map the source text of `<iterable>` to `v` (so that a change of what is
        iterated over is noticed, too)."""
        gens = comp.generators
        if len(gens) != 1 or gens[0].ifs or not isinstance(gens[0].target, ast.Name):
            raise Unsupported(f"comprehension {ast.unparse(comp)[:60]}")
        var, it = gens[0].target.id, ast.unparse(gens[0].iter)
        if self.f.rename.get(it) != var or var not in env:
            raise Unsupported(f"comprehension over `{it}` with element `{var}` (expected rename {{'<iterable>': '{var}'}})")
        elt = comp.elt
        if isinstance(elt, (ast.Tuple, ast.List)):
            elt = elt.elts[self.f.elt]
        return self.expr(elt, env, want)

    def method(self, obj: Tuple[str, str], name: str, args, kws, env, want) -> Tuple[str, str]:
        t, k = obj
        if k == "rec":
            if name in self.f.methods and not args and not kws:
                return f"({self.f.methods[name]} {t})", "rec"
            raise Unsupported(f"method .{name}() on a record")
        arg = lambda i, w=None: self.expr(args[i], env, w or (k if isinstance(args[i], ast.Constant) else None))
        if name in self.ELEMENTWISE_BIN and len(args) == 1:
            return self.arith(self.ELEMENTWISE_BIN[name], obj, arg(0))
        if name in ("div", "true_divide", "divide") and len(args) == 1:
            rm = kws.get("rounding_mode")
            b = arg(0)
            if rm is None or (isinstance(rm, ast.Constant) and rm.value is None):
                return f"({self.to_real(t, k)} / {self.to_real(*b)})", "real"
            mode = rm.value if isinstance(rm, ast.Constant) else None
            if k == "int" and b[1] == "int" and mode in ("floor", "trunc"):
                return f"(Int.{'fdiv' if mode == 'floor' else 'tdiv'} {t} {b[0]})", "int"
            raise Unsupported(f"div(rounding_mode={ast.unparse(rm)}) on {k}")
        if name == "floor_divide" and len(args) == 1 and k == "int":
            return f"(Int.fdiv {t} {arg(0)[0]})", "int"
        if name == "neg" and not args:
            return f"(-{t})", k
        if name == "abs" and not args:
            return (f"(Int.natAbs {t} : Int)", "int") if k == "int" else (f"(pyAbs {t})", "real")
        if name == "square" and not args:
            return f"({t} * {t})", k
        if name == "pow" and len(args) == 1 and isinstance(args[0], ast.Constant) and isinstance(args[0].value, int):
            return self.power(obj, args[0].value)
        if name == "sqrt" and not args:
            if not self.f.sqrt:
                raise Unsupported(".sqrt() without sqrt=True")
            return f"(sqrtF {self.to_real(t, k)})", "real"
        if name == "reciprocal" and not args:
            return f"(((1 : Nat) : α) / {self.to_real(t, k)})", "real"
        if name == "floor" and not args:
            return (t, k) if k == "int" else (f"((HasFloor.floor {t} : Int) : α)", "real")
        if name == "ceil" and not args:
            return (t, k) if k == "int" else (f"((-(HasFloor.floor (-{t})) : Int) : α)", "real")
        if name in ("long", "int") and not args:
            if k == "int":
                return t, k
            pre, suf = "((HasFloor.floor ", " : Int) : α)"
            if t.startswith(pre) and t.endswith(suf):       # .floor().long(): the integer itself
                return f"(HasFloor.floor {t[len(pre):-len(suf)]} : Int)", "int"
            raise Unsupported(".long() of a scalar that is not a floor")
        if name in self.IDENTITY:
            if name in ("float", "double") and k == "int":
                return self.to_real(t, k), "real"
            return t, k
        if name == "where" and len(args) == 2:
            o = self.expr(args[1], env, k)
            a, b = (t, k), o
            if a[1] != b[1]:
                a, b = (self.to_real(*a), "real"), (self.to_real(*b), "real")
            return f"(if {self.cond(args[0], env)} then {a[0]} else {b[0]})", a[1]
        if name in ("clamp", "clip", "clamp_min", "clamp_max"):
            lo = kws.get("min") if name in ("clamp", "clip") else (args[0] if name == "clamp_min" else None)
            hi = kws.get("max") if name in ("clamp", "clip") else (args[0] if name == "clamp_max" else None)
            if name in ("clamp", "clip") and args:
                lo = args[0]
                hi = args[1] if len(args) > 1 else hi
            r = (t, k)
            for bound, fnname in ((lo, "max"), (hi, "min")):
                if bound is None or (isinstance(bound, ast.Constant) and bound.value is None):
                    continue
                b = self.expr(bound, env, r[1])
                if r[1] == "int" and b[1] == "int":
                    r = (f"({fnname} {r[0]} {b[0]})", "int")
                else:
                    r = (f"(py{fnname.capitalize()} {self.to_real(*r)} {self.to_real(*b)})", "real")
            return r
        if name in ("eq", "ne", "lt", "le", "gt", "ge") and len(args) == 1:
            return self.cmp1(name, obj, arg(0)), "bool"
        if name == "fmod" and len(args) == 1 and k == "int":
            return f"(Int.tmod {t} {arg(0)[0]})", "int"
        if name == "remainder" and len(args) == 1 and k == "int":
            return f"(Int.fmod {t} {arg(0)[0]})", "int"
        raise Unsupported(f"method .{name}() on a {k}")

    # ------------------------------------------------------------------ statements (continuation passing)
    def fresh(self, base: str) -> str:
        self.tmp += 1
        return f"{_lname(base)}_{self.tmp}"

    def branch(self, test: ast.AST, env, kt: Callable, kf: Callable, ind: str) -> str:
        """`if test: kt else: kf` where None-tests on optional variables are resolved statically or become `match`"""
        if isinstance(test, ast.BoolOp):
            first, rest = test.values[0], test.values[1:]
            restn = rest[0] if len(rest) == 1 else ast.BoolOp(op=test.op, values=rest)
            if isinstance(test.op, ast.And):
                return self.branch(first, env, lambda e, i: self.branch(restn, e, kt, kf, i), kf, ind)
            return self.branch(first, env, kt, lambda e, i: self.branch(restn, e, kt, kf, i), ind)
        if isinstance(test, ast.UnaryOp) and isinstance(test.op, ast.Not):
            return self.branch(test.operand, env, kf, kt, ind)
        if (isinstance(test, ast.Compare) and len(test.ops) == 1 and isinstance(test.ops[0], (ast.Is, ast.IsNot))
                and isinstance(test.comparators[0], ast.Constant) and test.comparators[0].value is None
                and isinstance(test.left, ast.Name) and test.left.id in env and env[test.left.id].kind in OPT):
            v = env[test.left.id]
            isnone_t, isnone_f = (kt, kf) if isinstance(test.ops[0], ast.Is) else (kf, kt)
            if v.none is True:
                return isnone_t(env, ind)
            if v.none is False:
                return isnone_f(env, ind)
            e_none = dict(env)
            e_none[test.left.id] = Var(v.lean, v.kind, True)
            nm = self.fresh(test.left.id)
            e_some = dict(env)
            e_some[test.left.id] = Var(nm, v.kind, False)
            return (f"match {v.lean} with\n{ind}| none =>\n{ind}  {isnone_t(e_none, ind + '  ')}\n"
                    f"{ind}| some {nm} =>\n{ind}  {isnone_f(e_some, ind + '  ')}")
        return (f"if {self.cond(test, env)} then\n{ind}  {kt(env, ind + '  ')}\n{ind}else\n{ind}  {kf(env, ind + '  ')}")

    def block(self, stmts: List[ast.stmt], env, k: Callable, ind: str) -> str:
        if not stmts:
            return k(env, ind)
        s, rest = stmts[0], stmts[1:]
        cont = lambda e, i: self.block(rest, e, k, i)
        if isinstance(s, ast.Expr) and isinstance(s.value, ast.Constant):      # docstring
            return cont(env, ind)
        if isinstance(s, ast.Pass):
            return cont(env, ind)
        if self.f.record:
            r = self.rec_stmt(s, env, cont, ind)
            if r is not None:
                return r
        if isinstance(s, (ast.Assign, ast.AnnAssign, ast.AugAssign)):
            if isinstance(s, ast.Assign):
                if len(s.targets) != 1 or not isinstance(s.targets[0], ast.Name):
                    raise Unsupported(f"assignment target: {ast.unparse(s)[:60]}")
                name, value = s.targets[0].id, s.value
            elif isinstance(s, ast.AnnAssign):
                if not isinstance(s.target, ast.Name) or s.value is None:
                    raise Unsupported("annotated assignment")
                name, value = s.target.id, s.value
            else:
                if not isinstance(s.target, ast.Name):
                    raise Unsupported("augmented assignment target")
                name, value = s.target.id, ast.BinOp(left=ast.Name(id=s.target.id, ctx=ast.Load()), op=s.op, right=s.value)
            # aliasing of optional variables / None
            old = env.get(name)
            if isinstance(value, ast.Constant) and value.value is None:
                e2 = dict(env)
                e2[name] = Var("none", old.kind if old and old.kind in OPT else "optreal", True)
                return cont(e2, ind)
            if isinstance(value, ast.Name) and value.id in env and env[value.id].kind in OPT:
                e2 = dict(env)
                e2[name] = env[value.id]
                return cont(e2, ind)
            if old is not None and old.kind == "optobj":
                raise Unsupported(f"object '{name}' is assigned something that is neither None nor another object")
            t, kind = self.expr(value, env, "real" if (old and old.kind in ("real", "optreal")) else None)
            nm = self.fresh(name)
            e2 = dict(env)
            if old is not None and old.kind == "optreal":
                e2[name] = Var(nm, "optreal", False)
                t = self.to_real(t, kind)
                ty = "α"
            else:
                e2[name] = Var(nm, kind)
                ty = {"real": "α", "int": "Int", "bool": "Prop"}[kind]
            return f"let {nm} : {ty} := {t}\n{ind}{cont(e2, ind)}"
        if isinstance(s, ast.If):
            return self.branch(s.test, env, lambda e, i: self.block(s.body + rest, e, k, i),
                               lambda e, i: self.block(s.orelse + rest, e, k, i), ind)
        if isinstance(s, ast.Return):
            return self.ret(s.value, env)
        if isinstance(s, ast.Raise):
            exc = s.exc
            nm = exc.func.id if isinstance(exc, ast.Call) and isinstance(exc.func, ast.Name) else (
                exc.id if isinstance(exc, ast.Name) else "Exception")
            return f'.error "err:{nm}"'
        if isinstance(s, ast.Assert):
            return f'if {self.cond(s.test, env)} then\n{ind}  {cont(env, ind + "  ")}\n{ind}else .error "err:AssertionError"'
        raise Unsupported(f"statement {type(s).__name__}: {ast.unparse(s)[:60]}")

    # ------------------------------------------------------------------ records (mode "record")
    def field(self, t: str, attr: str) -> Tuple[str, str]:
        lf, kind = self.f.fields[attr]
        return {"real": (f"{t}.{lf}", "real"), "nat": (f"(({t}.{lf} : Nat) : Int)", "int"), "bool": (f"({t}.{lf} = true)", "bool")}[kind]

    def coerce(self, attr: str, val: Tuple[str, str]) -> str:
        (lf, kind), (t, k) = self.f.fields[attr], val
        if kind == "real":
            return f"{lf} := {self.to_real(t, k)}"
        if (kind, k) in (("nat", "int"), ("bool", "bool")):
            return f"{lf} := " + ("Int.toNat " if kind == "nat" else "decide ") + t
        raise Unsupported(f"attribute '{attr}' ({kind}) is given a {k}")

    def rec_stmt(self, s: ast.stmt, env, cont: Callable, ind: str) -> Optional[str]:
        """skipped statements, copies of objects, attribute targets, record-valued assignments; None: not handled here"""
        if (ast.unparse(s.test) if isinstance(s, ast.If) else ast.unparse(s)) in self.f.skip:
            for x in ast.walk(s):
                if isinstance(x, (ast.Assign, ast.AugAssign, ast.AnnAssign)):
                    for tg in getattr(x, "targets", None) or [x.target]:
                        if ast.unparse(tg) in env or (isinstance(tg, ast.Attribute) and ast.unparse(tg.value) in env):
                            raise Unsupported(f"a skipped statement assigns `{ast.unparse(tg)}`")
            return cont(env, ind)
        if isinstance(s, (ast.Raise, ast.Assert)):
            raise Unsupported(f"statement {type(s).__name__} in a record fragment")
        if not isinstance(s, (ast.Assign, ast.AugAssign)) or (isinstance(s, ast.Assign) and len(s.targets) != 1):
            return None
        tgt = s.targets[0] if isinstance(s, ast.Assign) else s.target
        value = s.value if isinstance(s, ast.Assign) else ast.BinOp(left=tgt, op=s.op, right=s.value)
        key, rty = ast.unparse(tgt), f"{self.f.record} α"
        copy_of = (value.args[0] if isinstance(value, ast.Call) and ast.unparse(value.func) in self.f.copies
                   and len(value.args) == 1 and not value.keywords else None)
        if isinstance(tgt, ast.Name) and isinstance(copy_of, ast.Name) and copy_of.id not in env:
            # copy of an object known only through its dotted variables `obj.attr`: the copy has the same attributes
            e2 = dict(env)
            e2.update({key + k[len(copy_of.id):]: Var(v.lean, v.kind) for k, v in env.items() if k.startswith(copy_of.id + ".")})
            if len(e2) == len(env):
                raise Unsupported(f"copy of the unknown object '{copy_of.id}'")
            return cont(e2, ind)
        if isinstance(tgt, ast.Attribute) and key not in env:              # `y.attr = e`: record update of an owned copy
            base, bkey = env.get(ast.unparse(tgt.value)), ast.unparse(tgt.value)
            if base is None or base.kind != "rec" or tgt.attr not in self.f.fields:
                raise Unsupported(f"assignment target: {key}")
            if not base.owned:
                raise Unsupported(f"`{key} = …` updates an object that is not a fresh copy (aliasing is not modelled)")
            upd = self.coerce(tgt.attr, self.expr(value, env, "real" if self.f.fields[tgt.attr][1] == "real" else None))
            nm, e2 = self.fresh(bkey), dict(env)
            e2[bkey] = Var(nm, "rec", owned=True)
            return f"let {nm} : {rty} := {{ {base.lean} with {upd} }}\n{ind}{cont(e2, ind)}"
        if isinstance(tgt, ast.Name) or key in env:                         # `x = <record>` / `self.exp = <record>`
            t, k = self.expr(value, env)
            if k != "rec":
                if isinstance(tgt, ast.Name):
                    return None
                raise Unsupported(f"`{key}` is assigned a {k}")
            fresh_obj = copy_of is not None or (isinstance(value, ast.Call) and ast.unparse(value.func) in self.f.ctors)
            nm, e2 = self.fresh(key), dict(env)
            e2[key] = Var(nm, "rec", owned=fresh_obj)
            return f"let {nm} : {rty} := {t}\n{ind}{cont(e2, ind)}"
        return None

    def record_fragment(self, fn: ast.FunctionDef) -> str:
        sig, env = self.signature()

        def end(e, i):
            raise Unsupported(f"a path of {self.f.func} ends without `return`")
        return f"def {self.f.name} {sig} : {self.f.record} α :=\n  {self.block(fn.body, env, end, '  ')}\n"

    def ret(self, value: Optional[ast.AST], env) -> str:
        if self.f.mode == "record":
            if isinstance(value, ast.Name) and value.id not in env:       # an object known through its dotted variables
                hits = [v for k, v in env.items() if k.startswith(value.id + ".") and v.kind == "rec"]
                if len(hits) != 1:
                    raise Unsupported(f"return of the unknown object '{value.id}'")
                return hits[0].lean
            t, k = self.expr(value, env) if value is not None else ("", "None")
            if k != "rec":
                raise Unsupported(f"return of a {k}")
            return t
        if value is None or (isinstance(value, ast.Constant) and value.value is None):
            return ".ok none"
        t, k = self.expr(value, env, "real" if self.rkind == "real" else None)
        if self.rkind == "real":
            t = self.to_real(t, k)
        return f".ok (some {t})"

    # ------------------------------------------------------------------ entry points
    def signature(self) -> Tuple[str, Dict[str, Var]]:
        ps, env = [], {}
        if self.f.sqrt:
            ps.append("(sqrtF : α → α)")
        for fname in self.f.funcs:
            ps.append(f"(f_{fname} : α → α → α)")
        for fname in self.f.objfuncs:
            ps.append(f"(f_{fname} : ι → ι → α)")
        for name, kind in self.f.params.items():
            ty = {"real": "α", "int": "Int", "nat": "Nat", "optreal": "Option α", "optobj": "Option ι", "bool": "Bool",
                  "rec": f"{self.f.record} α"}[kind]
            ps.append(f"({_lname(name)} : {ty})")
            if kind == "bool":
                env[name] = Var(f"({_lname(name)} = true)", "bool")
            elif kind == "nat":
                env[name] = Var(f"(({_lname(name)} : Nat) : Int)", "int")
                self.nat_names[name] = _lname(name)
            else:
                env[name] = Var(_lname(name), kind, None)
        return " ".join(ps), env

    def function(self, fn: ast.FunctionDef, rkind: str) -> str:
        self.rkind = rkind
        sig, env = self.signature()
        rty = {"real": "α", "int": "Int"}[rkind]
        body = self.block(fn.body, env, lambda e, i: ".ok none", "  ")
        return f"def {self.f.name} {sig} : Except String (Option {rty}) :=\n  {body}\n"

    def block_fragment(self, fn: ast.FunctionDef) -> str:
        sig, env = self.signature()
        stmts = []
        pool = list(fn.body)
        for want in self.f.tests:
            hit = [s for s in pool if isinstance(s, ast.If) and ast.unparse(s.test) == want]
            if not hit:
                raise Unsupported(f"no top-level `if {want}` in {self.f.func}")
            stmts.append(hit[0])

        def fin(e, i):
            outs = []
            for o in self.f.outs:
                v = e[o]
                if v.kind in OPT:
                    outs.append("none" if v.none is True else (f"some {v.lean}" if v.none is False else v.lean))
                else:
                    outs.append(v.lean)
            return ".ok (" + ", ".join(outs) + ")"
        tys = " × ".join({"optreal": "Option α", "optobj": "Option ι", "real": "α", "int": "Int"}[self.f.out_kinds.get(o, self.f.params.get(o, "optreal"))]
                         for o in self.f.outs)
        body = self.block(stmts, env, fin, "  ")
        return f"def {self.f.name} {sig} : Except String ({tys}) :=\n  {body}\n"

    def assign_fragment(self, fn: ast.FunctionDef) -> str:
        sig, env = self.signature()
        assigns = []
        for node in ast.walk(fn):
            if isinstance(node, ast.Assign) and len(node.targets) == 1 and ast.unparse(node.targets[0]) == self.f.target:
                assigns.append(node)          # `x = …` or an attribute target such as `self._center = …`
            elif isinstance(node, ast.AnnAssign) and ast.unparse(node.target) == self.f.target and node.value is not None:
                assigns.append(node)
            elif isinstance(node, ast.AugAssign) and ast.unparse(node.target) == self.f.target:
                syn = ast.Assign(targets=[node.target], value=ast.BinOp(left=ast.Name(id=self.f.target, ctx=ast.Load()),
                                                                          op=node.op, right=node.value))
                syn.lineno, syn.col_offset = node.lineno, node.col_offset
                assigns.append(syn)           # `x op= e` read as `x = x op e`
            elif isinstance(node, ast.Return) and self.f.target == "return" and node.value is not None:
                assigns.append(node)          # target "return": the returned expressions, in source order
        assigns.sort(key=lambda a: (a.lineno, a.col_offset))
        if self.f.arg_of is not None:
            assigns = [a for a in assigns if isinstance(a.value, ast.Call) and ast.unparse(a.value.func) == self.f.arg_of
                       and (a.value.args if self.f.kwarg is None else any(k.arg == self.f.kwarg for k in a.value.keywords))]
        lo, hi = self.f.occ or (0, len(assigns) - 1)
        if not assigns:
            raise Unsupported(f"{self.f.func}: no assignment to '{self.f.target}'"
                              + (f" that is a call of {self.f.arg_of}" + (f"(…, {self.f.kwarg}=…)" if self.f.kwarg else "")
                                 if self.f.arg_of else ""))
        if hi >= len(assigns):
            raise Unsupported(f"{self.f.func}: only {len(assigns)} assignment(s) to '{self.f.target}'")
        lines = []
        kind = None
        for a in assigns[lo: hi + 1]:
            value = a.value
            if self.f.arg_of is not None:
                if not (isinstance(value, ast.Call) and ast.unparse(value.func) == self.f.arg_of
                        and (value.args if self.f.kwarg is None else True)):
                    raise Unsupported(f"'{self.f.target}' is not assigned a call of {self.f.arg_of}")
                value = value.args[0] if self.f.kwarg is None else [k.value for k in value.keywords if k.arg == self.f.kwarg][0]
            if self.f.elt is not None:
                if isinstance(value, ast.Call) and len(value.args) == 1 and isinstance(value.args[0], (ast.GeneratorExp, ast.ListComp)):
                    value = value.args[0]          # tuple(<generator>) / list(...)
                if isinstance(value, (ast.Tuple, ast.List)):
                    value = ast.ListComp(elt=value, generators=[])       # a literal tuple: pick its entry below
                if not isinstance(value, (ast.ListComp, ast.GeneratorExp)):
                    raise Unsupported(f"'{self.f.target}' is not assigned a comprehension or tuple")
                value = value.elt
                if isinstance(value, (ast.List, ast.Tuple)):
                    value = value.elts[self.f.elt]
            t, kind = self.expr(value, env)
            nm = self.fresh(re.sub(r"\W", "_", self.f.target))
            ty = {"real": "α", "int": "Int", "bool": "Bool"}[kind]
            lines.append(f"let {nm} : {ty} := " + (f"decide {t}" if kind == "bool" else t))
            env = dict(env)
            env[self.f.target] = Var(f"({nm} = true)" if kind == "bool" else nm, kind)
        ty = {"real": "α", "int": "Int", "bool": "Bool"}[kind]
        if kind == "bool":
            return f"def {self.f.name} {sig} : {ty} :=\n  " + "\n  ".join(lines) + f"\n  {nm}\n"
        return f"def {self.f.name} {sig} : {ty} :=\n  " + "\n  ".join(lines) + f"\n  {env[self.f.target].lean}\n"


    def lets_fragment(self, fn: ast.FunctionDef) -> str:
        sig, env = self.signature()
        lines = []
        pos = 0
        body = list(fn.body)

        def find(name):
            nonlocal pos
            for i in range(pos, len(body)):
                s = body[i]
                tgt = s.targets[0] if isinstance(s, ast.Assign) and len(s.targets) == 1 else (s.target if isinstance(s, ast.AnnAssign) else None)
                if isinstance(tgt, ast.Name) and tgt.id == name and getattr(s, "value", None) is not None:
                    pos = i + 1
                    return s.value
            raise Unsupported(f"no top-level assignment to '{name}' (in order) in {self.f.func}")
        for name in self.f.lets:
            t, kind = self.expr(find(name), env, "real")
            nm = self.fresh(name)
            lines.append(f"let {nm} : {dict(real='α', int='Int')[kind]} := {t}")
            env = dict(env)
            env[name] = Var(nm, kind)
        if self.f.result == "=return":                           # the value of the final `return`
            rets = [s for s in body if isinstance(s, ast.Return) and s.value is not None]
            if not rets:
                raise Unsupported(f"no top-level return in {self.f.func}")
            t, kind = self.expr(rets[-1].value, env, "real")
            return (f"def {self.f.name} {sig} : {dict(real='α', int='Int')[kind]} :=\n  " + "\n  ".join(lines + [t]) + "\n")
        if self.f.result and self.f.result.startswith("="):       # the final value of one variable
            v = env[self.f.result[1:]]
            return (f"def {self.f.name} {sig} : {dict(real='α', int='Int')[v.kind]} :=\n  " + "\n  ".join(lines) + f"\n  {v.lean}\n")
        if self.f.result == "return":
            rets = [s for s in body if isinstance(s, ast.Return) and s.value is not None]
            if not rets:
                raise Unsupported(f"no top-level return in {self.f.func}")
            value = rets[-1].value
        else:
            value = find(self.f.result)
        seqs = [x for x in ast.walk(value) if isinstance(x, (ast.Tuple, ast.List))]
        if not seqs:
            raise Unsupported(f"'{self.f.result}' is not assigned an expression containing a tuple/list")
        elts = [self.to_real(*self.expr(e, env, "real")) for e in seqs[0].elts]
        return (f"def {self.f.name} {sig} : List α :=\n  " + "\n  ".join(lines) + "\n  [" + ",\n   ".join(elts) + "]\n")


def translate(frag: Frag, src_root: Path, rkind: str = "real") -> str:
    path = Path(src_root) / frag.file
    src = path.read_text()
    fn = _find_func(ast.parse(src), frag.func)
    tr = Tr(frag, src, fn)
    if frag.mode == "function":
        return tr.function(fn, rkind)
    if frag.mode == "block":
        return tr.block_fragment(fn)
    if frag.mode == "assign":
        return tr.assign_fragment(fn)
    if frag.mode == "lets":
        return tr.lets_fragment(fn)
    if frag.mode == "record":
        return tr.record_fragment(fn)
    raise ValueError(frag.mode)


def render(frags: Sequence[Tuple[Frag, str]], src_root: Path) -> Tuple[str, List[str], Dict[str, str]]:
    """Lean text of all fragments (those that translate), the names translated, and name -> reason for the others."""
    out = ["namespace Deepali.Gen", "section", f"variable {INSTANCES}", "", PRELUDE]
    done, skipped = [], {}
    for frag, rkind in frags:
        try:
            text = translate(frag, src_root, rkind)
        except Unsupported as e:
            skipped[frag.name] = str(e)
            continue
        except Exception as e:      # noqa: a construct the translator trips over is "not translated", never a harness error
            skipped[frag.name] = f"translator error {type(e).__name__}: {e}"
            continue
        out.append(f"/-- generated from {frag.file}:{frag.func} ({frag.mode}"
                   + (f" `{frag.target}`" if frag.target else "") + ") -/")
        out.append(text)
        done.append(frag.name)
    out += ["end", "end Deepali.Gen", ""]
    return "\n".join(out), done, skipped


if __name__ == "__main__":      # manual use: python pytrans.py file func  (whole function, scalar params x: real, others int)
    import sys
    f = Frag("demo", sys.argv[1], sys.argv[2], "function", {a.split(":")[0]: a.split(":")[1] for a in sys.argv[3:]})
    print(translate(f, Path("/repo/src")))
