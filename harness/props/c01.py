"""C01 — grid coordinate systems (index, cube, cube-corners, world) map consistently."""
from __future__ import annotations

import itertools
import math
import random
from fractions import Fraction
from typing import List

import numpy as np
import torch

from deepali.core.grid import Axes, Grid
from deepali.core import grid as grid_mod

from lib import gen, proto
from lib.core import Oracle, Stream, close

PROP = "C01"
AX = list(proto.AXES)
RTOL32 = 2e-4   # float32 paths: ≤ ~50 flops × 6e-8 × conditioning, three orders below any modelled defect
RTOL64 = 1e-9

ASSUMPTIONS = [
    "floats are the exact rationals they denote; IEEE rounding is covered by the correspondence tolerance "
    f"(rtol {RTOL32} relative to max(1, |inputs|, |result|)), never by a theorem",
    "direction matrices are orthonormal (rotations, flips, permutations) as the property quantifies; "
    "maps touching CUBE_CORNERS need n >= 2 on every axis (the code divides by n-1)",
    "torch primitives (mm, diag, arange, linspace, meshgrid, round) behave as documented",
]
TRUSTED = ["model files Deepali/Model/{Vec,Homog,Grid}.lean are hand transcriptions of core/grid.py, core/linalg.py, "
           "core/math.py; tied to /repo by the correspondence streams below on every run"]
RULE = ("grids drawn from one PRNG (D in {2,3}; sizes incl. 1/2/odd/even; anisotropic spacing; origin or center route; "
        "rotations and signed permutations; both align_corners); axes pairs x vectors flag enumerated exhaustively per "
        "grid; lattice n in [1,4096] x both flags x float32/float64 enumerated; non-trivial = direction != identity or "
        "anisotropic spacing or off-centre; distinct after JSON canonicalisation")


def _scale(*specs) -> float:
    s = 1.0
    for sp in specs:
        pos = sp.get("origin", sp.get("center"))
        s = max(s, max(abs(v) for v in pos), max(n * h for n, h in zip(sp["size"], sp["spacing"])))
    return s


def _min_size(*specs) -> int:
    return min(min(sp["size"]) for sp in specs)


def _corners_ok(a: str, b: str, *specs) -> bool:
    return "cube_corners" not in (a, b) or _min_size(*specs) >= 2


def _n(tier, quick, thorough, search=None):
    return {"quick": quick, "thorough": thorough, "search": search or max(quick, thorough // 4)}[tier]


# ------------------------------------------------------------------ stream: transform matrices
def gen_transform(rng: random.Random, tier: str):
    for _ in range(_n(tier, 14, 300)):
        d = rng.choice([2, 3])
        g = gen.derive(rng, gen.grid_spec(rng, d))
        g2 = gen.derive(rng, gen.grid_spec(rng, d)) if rng.random() < 0.5 else None
        for a, b in itertools.product(AX, AX):
            for vectors in (False, True):
                specs = [g] + ([g2] if g2 else [])
                if not _corners_ok(a, b, *specs):
                    continue
                yield {"grid": g, "to_grid": g2, "axes": a, "to_axes": b, "vectors": vectors}


def impl_transform(c):
    g = gen.make_grid(c["grid"])
    g2 = gen.make_grid(c["to_grid"]) if c["to_grid"] else None
    m = g.transform(Axes(c["axes"]), Axes(c["to_axes"]), to_grid=g2, vectors=c["vectors"])
    return {"shape": list(m.shape), "values": proto.flat(m)}


def line_transform(c):
    g = gen.make_grid(c["grid"])
    d = len(c["grid"]["size"])
    v = "1" if c["vectors"] else "0"
    if c["to_grid"]:
        g2 = gen.make_grid(c["to_grid"])
        return f"grid.transform_to {d} {proto.grid(g)} {proto.grid(g2)} {c['axes']} {c['to_axes']} {v}"
    return f"grid.transform {d} {proto.grid(g)} {c['axes']} {c['to_axes']} {v}"


def cmp_transform(c, r, out):
    if isinstance(r, str):
        return f"impl raised {r}, model gave {out[:60]}"
    if proto.is_error(out):
        return f"model error {out}"
    d = len(c["grid"]["size"])
    kind, A, t = proto.parse_h(out, d)
    shape = {"aff": [d, d], "hom": [d, d + 1], "trans": [d, 1]}[kind]
    if r["shape"] != shape:
        return f"operand form differs: impl shape {r['shape']} vs model {kind}"
    vals = r["values"]
    cols = shape[1]
    Ai = [vals[i * cols + j] for i in range(d) for j in range(d)]
    specs = [c["grid"]] + ([c["to_grid"]] if c["to_grid"] else [])
    why = close(Ai, [v for row in A for v in row], RTOL32)
    if why:
        return "linear part: " + why
    if kind == "hom":
        ti = [vals[i * cols + d] for i in range(d)]
        why = close(ti, t, RTOL32, _scale(*specs))
        if why:
            return "translation: " + why
    return None


# ------------------------------------------------------------------ stream: points / vectors through the API
HELPERS = ["index_to_cube", "cube_to_index", "index_to_world", "world_to_index", "cube_to_world", "world_to_cube"]


def gen_apply(rng: random.Random, tier: str):
    for _ in range(_n(tier, 150, 6000)):
        d = rng.choice([2, 3])
        g = gen.derive(rng, gen.grid_spec(rng, d))
        g2 = gen.derive(rng, gen.grid_spec(rng, d)) if rng.random() < 0.4 else None
        a, b = rng.choice(AX), rng.choice(AX)
        specs = [g] + ([g2] if g2 else [])
        if not _corners_ok(a, b, *specs):
            continue
        kind = rng.choice(["points", "points", "vectors", "helper", "module_fn"])
        x = gen.points(rng, d, 1, -1.5, 1.5)[0]
        if a == "grid":
            x = [round(v * max(g["size"]), 3) for v in x]
        elif a == "world":
            x = [round(v * 30 + p, 3) for v, p in zip(x, g.get("origin", g.get("center")))]
        decimals = rng.choice([None, None, -1, 3])
        if decimals == 3:
            # an input like 1.1855 is an exact tie of the rounding to 3 decimals in decimal arithmetic, which binary floating
            # point decides by the rounding of x·1000 (torch: 1185.5 -> 1186, the exact value of the float64 1.1855 lies just
            # below): when source and target axes coincide the map is the identity and the input itself is rounded. Such
            # inputs are moved off the tie, as the non-dyadic nearest-neighbour ties of the sampling primitive were (§11)
            x = [v + 1e-4 if round(abs(v) * 1e4) % 10 == 5 else v for v in x]
            x = [round(v, 4) for v in x]
        c = {"grid": g, "to_grid": g2, "axes": a, "to_axes": b, "kind": kind, "x": x,
             "decimals": decimals, "dtype": rng.choice(["float32", "float64"]),
             "lead": rng.choice([[], [1], [2], [2, 3]])}
        if kind == "helper":
            c["helper"] = rng.choice(HELPERS)
            c["to_grid"] = None
            c["ac_arg"] = rng.choice([None, True, False])
            if not _corners_ok("cube_corners", "cube_corners", g):
                continue
        yield c


def _tensor(c):
    dt = torch.float32 if c["dtype"] == "float32" else torch.float64
    x = torch.tensor(c["x"], dtype=dt)
    for n in reversed(c["lead"]):
        x = x.unsqueeze(0).expand(n, *x.shape).clone()
    return x


def _helper_axes(c, g):
    h = c["helper"]
    ac = g.align_corners() if c["ac_arg"] is None else c["ac_arg"]
    cube = "cube_corners" if ac else "cube"
    return {"index_to_cube": ("grid", cube), "cube_to_index": (cube, "grid"), "index_to_world": ("grid", "world"),
            "world_to_index": ("world", "grid"), "cube_to_world": (cube, "world"), "world_to_cube": ("world", cube)}[h]


def impl_apply(c):
    g = gen.make_grid(c["grid"])
    g2 = gen.make_grid(c["to_grid"]) if c["to_grid"] else None
    x = _tensor(c)
    a, b = Axes(c["axes"]), Axes(c["to_axes"])
    if c["kind"] == "points":
        y = g.transform_points(x, a, b, to_grid=g2, decimals=c["decimals"])
    elif c["kind"] == "vectors":
        y = g.transform_vectors(x, a, b, to_grid=g2)
    elif c["kind"] == "module_fn":
        if c["decimals"] == 3:
            y = grid_mod.grid_transform_vectors(x, g, a, g2 or g, b)
        else:
            y = grid_mod.grid_transform_points(x, g, a, g2 or g, b, decimals=c["decimals"])
    else:
        fn = getattr(g, c["helper"])
        kw = {}
        if "cube" in c["helper"]:
            kw["align_corners"] = c["ac_arg"]
        y = fn(x, **kw) if c["decimals"] is None or c["decimals"] == 3 else fn(x, decimals=c["decimals"], **kw)
    if list(y.shape) != list(x.shape):
        return f"err:shape:{list(y.shape)}"
    flat = y.reshape(-1, y.shape[-1])
    if not torch.allclose(flat, flat[0:1].expand_as(flat), rtol=0, atol=0):
        return "err:rows-differ"
    return {"dtype": str(y.dtype), "values": proto.flat(flat[0])}


def _apply_params(c):
    """(axes, to_axes, vectors, decimals) the API call amounts to."""
    a, b, dec = c["axes"], c["to_axes"], c["decimals"]
    vectors = c["kind"] == "vectors" or (c["kind"] == "module_fn" and c["decimals"] == 3)
    if c["kind"] == "helper":
        g = gen.make_grid(c["grid"])
        a, b = _helper_axes(c, g)
        dec = -1 if (c["decimals"] is None or c["decimals"] == 3) else c["decimals"]
    if vectors:
        d_eff = -1
    elif dec is None:
        d_eff = -1
    elif dec == -1:
        d_eff = {"cube": 12, "cube_corners": 12, "grid": 6, "world": -1}[b]
    else:
        d_eff = dec
    return a, b, vectors, d_eff


def line_apply(c):
    g = gen.make_grid(c["grid"])
    d = len(c["grid"]["size"])
    a, b, vectors, dec = _apply_params(c)
    # the model sees the point exactly as stored in the requested dtype
    x = proto.vec(proto.flat(torch.tensor(c["x"], dtype=torch.float32 if c["dtype"] == "float32" else torch.float64)))
    if c["kind"] == "vectors" or (c["kind"] == "module_fn" and vectors):
        if c["to_grid"]:
            return f"grid.tvec_to {d} {proto.grid(g)} {proto.grid(gen.make_grid(c['to_grid']))} {a} {b} {x}"
        return f"grid.tvec {d} {proto.grid(g)} {a} {b} {x}"
    if c["to_grid"]:
        return f"grid.apply_to {d} {proto.grid(g)} {proto.grid(gen.make_grid(c['to_grid']))} {a} {b} 0 {dec} {x}"
    return f"grid.apply {d} {proto.grid(g)} {a} {b} 0 {dec} {x}"


def cmp_apply(c, r, out):
    if isinstance(r, str):
        return f"impl raised {r}, model gave {out[:60]}"
    if proto.is_error(out):
        return f"model error {out}"
    if r["dtype"] != "torch." + c["dtype"]:
        return f"dtype changed: {r['dtype']}"
    m = proto.parse_vec(out)
    specs = [c["grid"]] + ([c["to_grid"]] if c["to_grid"] else [])
    a, b, vectors, dec = _apply_params(c)
    scale = max([1.0] + [abs(v) for v in c["x"]]) if vectors else max(_scale(*specs), max(abs(v) for v in c["x"]))
    # float32 grid attributes limit accuracy even for float64 points
    why = close(r["values"], m, RTOL32, scale)
    return why


# ------------------------------------------------------------------ stream: transform_vectors, all pairs
def gen_tvec(rng: random.Random, tier: str):
    for _ in range(_n(tier, 8, 200)):
        d = rng.choice([2, 3])
        g = gen.grid_spec(rng, d, min_size=2)
        g2 = gen.grid_spec(rng, d, min_size=2) if rng.random() < 0.5 else None
        x = gen.points(rng, d, 1, -1.5, 1.5)[0]
        for a, b in itertools.product(AX, AX):
            yield {"grid": g, "to_grid": g2, "axes": a, "to_axes": b, "kind": "vectors", "x": x, "decimals": None,
                   "dtype": rng.choice(["float32", "float64"]), "lead": rng.choice([[], [2], [2, 3]])}


# ------------------------------------------------------------------ stream: per-axis sample lattice, all n
def gen_lattice(rng: random.Random, tier: str):
    for n in range(1, 4097):
        for ac in (True, False):
            yield {"n": n, "ac": ac}


def impl_lattice(c):
    n, ac = c["n"], c["ac"]
    g = Grid(size=(n, 3))
    res = {}
    for dt in (torch.float32, torch.float64):
        v = g.coords(dim=0, align_corners=ac, dtype=dt)
        res[str(dt)] = v.double().flatten().numpy()
    return res


def line_lattice(c):
    return f"coords.arange {c['n']} {1 if c['ac'] else 0}"


def cmp_lattice(c, r, out):
    if isinstance(r, str):
        return f"impl raised {r}"
    first, step, count = out.split()
    first, step, count = Fraction(first), Fraction(step), int(count)
    if count != c["n"]:
        return f"model count {count} != n"
    k = np.arange(count, dtype=np.float64)
    want = float(first) + k * float(step)
    for dt, v in r.items():
        if len(v) != count:
            return f"{dt}: impl returned {len(v)} coordinates, model {count}"
        tol = 4e-6 if "32" in dt else 1e-12
        e = np.abs(v - want).max()
        if e > tol:
            return f"{dt}: max diff {e:.3e}"
        if v.min() < -1 - tol or v.max() > 1 + tol:
            return f"{dt}: outside [-1, 1]"
    return None


# ------------------------------------------------------------------ stream: lattice values tie (model formula at sampled k)
def gen_lattice_at(rng: random.Random, tier: str):
    for _ in range(_n(tier, 300, 5000)):
        n = rng.choice([2, 3, rng.randint(2, 64), rng.randint(2, 4096)])
        k = rng.choice([0, n - 1, rng.randrange(n)])
        yield {"n": n, "ac": rng.random() < 0.5, "k": k}


def impl_lattice_at(c):
    g = Grid(size=(c["n"], 2))
    v = g.coords(dim=0, align_corners=c["ac"], dtype=torch.float64)
    # the same value through the grid's own GRID -> CUBE(_CORNERS) point map
    axes = Axes.CUBE_CORNERS if c["ac"] else Axes.CUBE
    w = g.transform_points(torch.tensor([float(c["k"]), 0.0], dtype=torch.float64), Axes.GRID, axes, decimals=None)
    return {"values": [float(v[c["k"]]), float(w[0])]}


def line_lattice_at(c):
    return f"coords.at {c['n']} {1 if c['ac'] else 0} {c['k']}"


def cmp_lattice_at(c, r, out):
    if isinstance(r, str):
        return f"impl raised {r}"
    m = Fraction(out)
    return close(r["values"], [m, m], 1e-6)


# ------------------------------------------------------------------ stream: Cube.transform / Grid.cube()
def gen_cube(rng: random.Random, tier: str):
    CAX = ["cube", "cube_corners", "world", "grid"]
    for _ in range(_n(tier, 10, 250)):
        d = rng.choice([2, 3])
        g = gen.derive(rng, gen.grid_spec(rng, d, min_size=2))
        g2 = gen.grid_spec(rng, d, min_size=2)
        route = rng.choice(["grid.cube", "from_grid_ac", "from_grid_nac", "explicit"])
        for a, b in itertools.product(CAX, CAX):
            for vectors in (False, True):
                yield {"grid": g, "grid2": g2, "route": route, "axes": a, "to_axes": b, "vectors": vectors,
                       "other": rng.random() < 0.35}


def _cube_of(spec, route):
    from deepali.core.cube import Cube

    g = gen.make_grid(spec)
    if route == "grid.cube":
        return g.cube(), g
    if route == "from_grid_ac":
        return Cube.from_grid(g, align_corners=True), g
    if route == "from_grid_nac":
        return Cube.from_grid(g, align_corners=False), g
    return Cube(extent=g.extent(), center=g.center(), direction=g.direction()), g


def _cube_tokens(c):
    return " ".join([proto.vec(proto.flat(c.extent())), proto.vec(proto.flat(c.center())), proto.vec(proto.flat(c.direction()))])


def impl_cube(c):
    cube, g = _cube_of(c["grid"], c["route"])
    other = _cube_of(c["grid2"], "grid.cube")[0] if c["other"] else None
    m = cube.transform(Axes(c["axes"]), Axes(c["to_axes"]), to_cube=other, vectors=c["vectors"])
    return {"shape": list(m.shape), "values": proto.flat(m)}


def line_cube(c):
    cube, g = _cube_of(c["grid"], c["route"])
    d = g.ndim
    tail = "0"
    if c["other"]:
        tail = "1 " + _cube_tokens(_cube_of(c["grid2"], "grid.cube")[0])
    return f"cube.transform {d} {_cube_tokens(cube)} {c['axes']} {c['to_axes']} {1 if c['vectors'] else 0} {tail}"


def cmp_cube(c, r, out):
    if out == "err:value":
        return None if isinstance(r, str) and r.startswith("err:value") else f"model rejects (ValueError), impl gave {str(r)[:80]}"
    if isinstance(r, str):
        return f"impl raised {r}, model gave {out[:60]}"
    cc = dict(c)
    cc["to_grid"] = c["grid2"] if c["other"] else None
    return cmp_transform(cc, r, out)


def gen_cube_of_grid(rng: random.Random, tier: str):
    for _ in range(_n(tier, 60, 1500)):
        d = rng.choice([2, 3])
        yield {"grid": gen.derive(rng, gen.grid_spec(rng, d, min_size=1)), "ac": rng.choice([-1, 0, 1])}


def impl_cube_of_grid(c):
    from deepali.core.cube import Cube

    g = gen.make_grid(c["grid"])
    cube = g.cube() if c["ac"] < 0 else Cube.from_grid(g, align_corners=bool(c["ac"]))
    return proto.flat(cube.extent()) + proto.flat(cube.center()) + proto.flat(cube.direction())


def line_cube_of_grid(c):
    g = gen.make_grid(c["grid"])
    return f"cube.of_grid {g.ndim} {proto.grid(g)} {c['ac']}"


def cmp_cube_of_grid(c, r, out):
    if isinstance(r, str):
        return f"impl raised {r}"
    return close(r, proto.parse_vec(out), RTOL32, _scale(c["grid"]))


STREAMS = [
    Stream("cube.transform", gen_cube, impl_cube, line_cube, cmp_cube,
           nontrivial=lambda c: gen.grid_nontrivial(c["grid"]),
           doc="Cube.transform for all 4x4 axes pairs (incl. the rejected ones) x vectors flag x {same cube, other cube}; cubes "
               "from Grid.cube(), Cube.from_grid(align_corners) and explicit attributes"),
    Stream("cube.of_grid", gen_cube_of_grid, impl_cube_of_grid, line_cube_of_grid, cmp_cube_of_grid,
           nontrivial=lambda c: gen.grid_nontrivial(c["grid"]),
           doc="Grid.cube() / Cube.from_grid: extent, center, direction"),
    Stream("transform", gen_transform, impl_transform, line_transform, cmp_transform,
           nontrivial=lambda c: gen.grid_nontrivial(c["grid"]),
           doc="Grid.transform matrices for all 16 axes pairs x vectors flag x {same grid, second grid}"),
    Stream("apply", gen_apply, impl_apply, line_apply, cmp_apply,
           nontrivial=lambda c: gen.grid_nontrivial(c["grid"]),
           doc="transform_points/transform_vectors/*_to_* helpers/grid_transform_* on tensors of any leading shape"),
    Stream("tvec", gen_tvec, impl_apply, line_apply, cmp_apply,
           nontrivial=lambda c: gen.grid_nontrivial(c["grid"]),
           doc="Grid.transform_vectors (separate closed-form path) for all 16 axes pairs x {same grid, second grid}"),
    Stream("lattice", gen_lattice, impl_lattice, line_lattice, cmp_lattice, exhaustive=True,
           nontrivial=lambda c: c["n"] > 1,
           doc="Grid.coords(dim) for every n in [1,4096] x align_corners x float32/float64: count and values"),
    Stream("lattice_at", gen_lattice_at, impl_lattice_at, line_lattice_at, cmp_lattice_at,
           doc="k-th lattice value == GRID->CUBE point map of k == model"),
]


# ------------------------------------------------------------------ property oracles (implementation only)
def _tol(*vals) -> float:
    return 2e-4 * max([1.0] + [float(abs(v)) for v in vals])


def gen_laws(rng: random.Random, tier: str):
    for _ in range(_n(tier, 40, 1500, 400)):
        d = rng.choice([2, 3])
        gs = [gen.derive(rng, gen.grid_spec(rng, d, min_size=2)) for _ in range(3)]
        two = rng.random() < 0.5
        # related: the second and third grid cover the SAME world domain as the first (another size / the other flag) — the
        # pairs for which a "same domain, nothing to do" shortcut would be tempting
        yield {"grids": gs, "two": two, "x": gen.points(rng, d, 1, -1.2, 1.2)[0], "v": gen.points(rng, d, 1, -0.5, 0.5)[0],
               "related": two and rng.random() < 0.4, "rs": [rng.randint(2, 9) for _ in range(2 * d)]}


def check_laws(c):
    g0, g1, g2 = [gen.make_grid(s) for s in c["grids"]]
    if not c["two"]:
        g1 = g2 = g0
    elif c.get("related"):
        d_ = g0.ndim
        g1 = g0.resize(c["rs"][:d_])
        g2 = g0.resize(c["rs"][d_:])
    x0 = torch.tensor(c["x"], dtype=torch.float64)
    v0 = torch.tensor(c["v"], dtype=torch.float64)
    # resized grids recompute spacing and origin in float32: a world offset |w| then carries eps32·|w| of absolute error,
    # i.e. eps32·|w| / spacing index units (the same conditioning term as in the `coords` oracle)
    cond = 0.0
    if c.get("related"):
        cond = 32 * 1.2e-7 * max(float(g.center().abs().max()) for g in (g0, g1, g2)) / \
            min(float(g.spacing().min()) for g in (g0, g1, g2))
    tolf = lambda *a_: _tol(*a_) + cond   # noqa: E731
    for a, b, cc in itertools.product(AX, AX, AX):
        A, B, C = Axes(a), Axes(b), Axes(cc)
        # a point given w.r.t. (g0, A): start from cube coordinates to stay inside sensible ranges
        xa = g0.transform_points(x0, Axes.CUBE, A, decimals=None)
        xb = g0.transform_points(xa, A, B, to_grid=g1, decimals=None)
        back = g1.transform_points(xb, B, A, to_grid=g0, decimals=None)
        if (back - xa).abs().max() > tolf(xa.abs().max(), xb.abs().max()):
            return (f"C01:roundtrip:{a}->{b}" + (":two-grids" if c["two"] else ""),
                    f"{a}->{b}->{a} maps {xa.tolist()} to {back.tolist()}")
        xc1 = g1.transform_points(xb, B, C, to_grid=g2, decimals=None)
        xc2 = g0.transform_points(xa, A, C, to_grid=g2, decimals=None)
        if (xc1 - xc2).abs().max() > tolf(xa.abs().max(), xb.abs().max(), xc2.abs().max()):
            return (f"C01:compose:{a}->{b}->{cc}" + (":two-grids" if c["two"] else ""),
                    f"{a}->{b}->{cc} gives {xc1.tolist()} but {a}->{cc} gives {xc2.tolist()}")
        if cc == AX[0]:
            va = g0.transform_vectors(v0, Axes.CUBE, A)
            vb = g0.transform_vectors(va, A, B, to_grid=g1)
            lin = g0.transform_points(xa + va, A, B, to_grid=g1, decimals=None) - xb
            if (vb - lin).abs().max() > tolf(xa.abs().max(), xb.abs().max(), vb.abs().max()):
                return (f"C01:vectors:{a}->{b}" + (":two-grids" if c["two"] else ""),
                        f"transform_vectors gives {vb.tolist()} but T(x+v)-T(x) = {lin.tolist()}")
    return None


def gen_anchor(rng: random.Random, tier: str):
    for _ in range(_n(tier, 60, 2000, 500)):
        yield {"grid": gen.grid_spec(rng, min_size=2)}


def check_anchor(c):
    g = gen.make_grid(c["grid"])
    d = g.ndim
    n = torch.tensor([float(v) for v in g.size()], dtype=torch.float64)
    zero = torch.zeros(d, dtype=torch.float64)
    one = torch.ones(d, dtype=torch.float64)
    s = _scale(c["grid"])
    tol = 2e-4 * s
    # origin / center / direction columns
    if "origin" in c["grid"]:
        o = torch.tensor(c["grid"]["origin"], dtype=torch.float64)
        if (g.index_to_world(zero, decimals=None) - o).abs().max() > tol:
            return ("C01:anchor:origin", f"index 0 maps to {g.index_to_world(zero).tolist()}, origin={o.tolist()}")
    if (g.index_to_world(zero, decimals=None) - g.origin().double()).abs().max() > tol:
        return ("C01:anchor:origin", "index 0 is not origin()")
    if (g.index_to_world((n - 1) / 2, decimals=None) - g.center().double()).abs().max() > tol:
        return ("C01:anchor:center", "index (n-1)/2 is not center()")
    for i in range(d):
        e = torch.zeros(d, dtype=torch.float64)
        e[i] = 1
        step = g.index_to_world(e, decimals=None) - g.index_to_world(zero, decimals=None)
        want = g.direction().double()[:, i] * g.spacing().double()[i]
        if (step - want).abs().max() > tol:
            return ("C01:anchor:direction", f"unit index step along axis {i} is {step.tolist()}, want {want.tolist()}")
    t = 1e-5
    chk = [
        (Axes.CUBE_CORNERS, -one, zero), (Axes.CUBE_CORNERS, one, n - 1),
        (Axes.CUBE, -one, zero - 0.5), (Axes.CUBE, one, n - 0.5),
    ]
    for ax, cube, idx in chk:
        got = g.transform_points(cube, ax, Axes.GRID, decimals=None)
        if (got - idx).abs().max() > t * max(1.0, float(n.max())):
            return (f"C01:anchor:{ax.value}", f"{ax.value} {cube.tolist()} maps to index {got.tolist()}, want {idx.tolist()}")
        got = g.transform_points(idx, Axes.GRID, ax, decimals=None)
        if (got - cube).abs().max() > t:
            return (f"C01:anchor:{ax.value}", f"index {idx.tolist()} maps to {ax.value} {got.tolist()}, want {cube.tolist()}")
    return None


def gen_coords(rng: random.Random, tier: str):
    for _ in range(_n(tier, 40, 600, 200)):
        d = rng.choice([2, 3])
        yield {"grid": gen.grid_spec(rng, d, min_size=1, max_size=9), "ac": rng.random() < 0.5,
               "seed": rng.randrange(1 << 30)}


def check_coords(c):
    import torch.nn.functional as F

    g = gen.make_grid(c["grid"])
    ac = c["ac"]
    d = g.ndim
    co = g.coords(align_corners=ac, dtype=torch.float64)
    if list(co.shape) != list(g.shape) + [d]:
        return ("C01:coords:shape", f"coords shape {list(co.shape)} for grid shape {list(g.shape)}")
    if co.numel() and (co.min() < -1 - 1e-9 or co.max() > 1 + 1e-9):
        return ("C01:coords:range", "normalised coordinates outside [-1, 1]")
    # equals the point map applied to integer indices (x first)
    idx = g.coords(normalize=False, dtype=torch.float64)
    if min(g.size()) >= 2:
        ax = Axes.CUBE_CORNERS if ac else Axes.CUBE
        want = g.transform_points(idx, Axes.GRID, ax, decimals=None)
        if (co - want).abs().max() > 1e-5:
            return ("C01:coords:values", "coords() differ from GRID->cube map of the integer indices")
    # index coordinates really are the indices, x first
    it = torch.stack(torch.meshgrid(*[torch.arange(n, dtype=torch.float64) for n in g.shape], indexing="ij"), -1).flip(-1)
    if (idx - it).abs().max() > 0:
        return ("C01:coords:indices", "unnormalised coords are not the integer indices in (x, ...) order")
    # sampling an image at its own lattice returns the image
    if min(g.size()) >= 2:
        gen_t = torch.Generator().manual_seed(c["seed"])
        img = torch.rand((1, 2) + tuple(g.shape), generator=gen_t, dtype=torch.float64)
        out = F.grid_sample(img, co.unsqueeze(0), mode="bilinear", padding_mode="zeros", align_corners=ac)
        if (out - img).abs().max() > 1e-6:
            return ("C01:coords:sample-identity", f"grid_sample at coords(align_corners={ac}) changes the image by "
                    f"{float((out - img).abs().max()):.3e}")
    # the grid's Cube defines the same normalised coordinates (cube.py)
    if min(g.size()) >= 2:
        from deepali.core.cube import Cube

        cube = Cube.from_grid(g, align_corners=ac)
        wc = cube.cube_to_world(co)
        wg = g.cube_to_world(co, decimals=None, align_corners=ac)
        if (wc - wg).abs().max() > 2e-4 * _scale(c["grid"]):
            return ("C01:cube:of-grid", f"Cube.from_grid(g, align_corners={ac}).cube_to_world differs from the grid's map")
        back = cube.world_to_cube(wc)
        # float32 world coordinates of magnitude |w| carry an absolute error of about eps32·|w|; normalising divides it
        # by half the (smallest) cube extent
        tol = 1e-5 + 8 * 1.2e-7 * float(wc.abs().max()) / (float(cube.extent().min()) / 2)
        if (back - co).abs().max() > tol:
            return ("C01:cube:roundtrip", f"Cube world_to_cube(cube_to_world(x)) != x (tolerance {tol:.2e})")
    # points(): world positions of the samples
    pw = g.points(Axes.WORLD, dtype=torch.float64)
    want = g.transform_points(idx, Axes.GRID, Axes.WORLD, decimals=None)
    if (pw - want).abs().max() > 2e-4 * _scale(c["grid"]):
        return ("C01:points:world", "points(WORLD) differ from index_to_world of the indices")
    return None


# ------------------------------------------------------------------ oracle: the delegating wrappers
def gen_wrappers(rng: random.Random, tier: str):
    CAX = ["cube", "cube_corners", "world", "grid"]
    for _ in range(_n(tier, 6, 120, 20)):
        d = rng.choice([2, 3])
        g = gen.grid_spec(rng, d, min_size=2)
        g2 = gen.grid_spec(rng, d, min_size=2)
        for a, b in itertools.product(CAX, CAX):
            yield {"grid": g, "grid2": g2, "axes": a, "to_axes": b, "x": gen.points(rng, d, 1, -1.2, 1.2)[0],
                   "other": rng.random() < 0.5}


def check_wrappers(c):
    """module-level functions and convenience methods that only delegate (grid_points_transform, grid_vectors_transform,
    grid_transform_points / _vectors, Grid.inverse_transform, Cube.transform_points / _vectors, cube_*_transform,
    cube_transform_*, Cube.inverse_transform, Cube.grid) give the numbers of the method they delegate to"""
    from deepali.core import cube as CU
    from deepali.core import grid as GR
    from deepali.core.linalg import homogeneous_transform

    g, g2 = gen.make_grid(c["grid"]), gen.make_grid(c["grid2"])
    to = g2 if c["other"] else None
    a, b = Axes(c["axes"]), Axes(c["to_axes"])
    x = torch.tensor(c["x"], dtype=torch.float32)
    tol = lambda *ts: 1e-5 * max([1.0] + [float(t.abs().max()) for t in ts])   # noqa: E731

    def bad(name, got, want):
        if got.shape != want.shape or float((got - want).abs().max()) > tol(got, want):
            return (f"C01:wrapper:{name}", f"{name}({c['axes']} -> {c['to_axes']}, other grid: {c['other']}) = {got.flatten()[:4].tolist()}, "
                    f"the method it delegates to gives {want.flatten()[:4].tolist()}")
        return None

    tg = to if to is not None else g
    for vec in (False, True):
        M = g.transform(a, b, to_grid=to, vectors=vec)
        W = (GR.grid_vectors_transform if vec else GR.grid_points_transform)(g, a, tg, b)
        r = bad("grid_vectors_transform" if vec else "grid_points_transform", W, M)
        if r:
            return r
        y = (g.transform_vectors if vec else g.transform_points)(x, a, b, to_grid=to)
        y2 = (GR.grid_transform_vectors if vec else GR.grid_transform_points)(x, g, a, tg, b)
        r = bad("grid_transform_vectors" if vec else "grid_transform_points", y2, y)
        if r:
            return r
        # decimals=None: no rounding on either side
        y3 = g.apply_transform(x, a, b, to_grid=to, vectors=vec, decimals=None)
        r = bad("apply_transform-vs-matrix", y3, homogeneous_transform(M, x, vectors=vec))
        if r:
            return r
    cube_axes = Axes.from_grid(g)
    inv = g.inverse_transform()
    # float32 matrices: a world offset |w| carries eps32·|w| of absolute error, i.e. eps32·|w| / (half extent) in cube units
    cond = 16 * 1.2e-7 * float(g.center().abs().max()) / (0.5 * float(g.cube_extent().min()))
    rt = homogeneous_transform(inv.double(), homogeneous_transform(g.transform().double(), x.double()))
    r = bad("Grid.inverse_transform", inv, g.transform(Axes.WORLD, cube_axes))
    if r is None and float((rt - x.double()).abs().max()) > 1e-5 + cond:
        r = ("C01:wrapper:Grid.inverse_transform:roundtrip", f"inverse_transform() o transform() moves {x.tolist()} to {rt.tolist()}")
    if r:
        return r
    # cubes (axes cube / world only; a Cube has no sample lattice)
    if c["axes"] in ("cube", "world") and c["to_axes"] in ("cube", "world"):
        cu, cu2 = g.cube(), g2.cube()
        tc = cu2 if c["other"] else None
        for vec in (False, True):
            M = cu.transform(a, b, to_cube=tc, vectors=vec)
            W = (CU.cube_vectors_transform if vec else CU.cube_points_transform)(cu, a, tc if tc is not None else cu, b)
            r = bad("cube_vectors_transform" if vec else "cube_points_transform", W, M)
            if r:
                return r
            y = (cu.transform_vectors if vec else cu.transform_points)(x, a, b, to_cube=tc)
            y2 = (CU.cube_transform_vectors if vec else CU.cube_transform_points)(x, cu, a, tc if tc is not None else cu, b)
            r = bad("cube_transform_vectors" if vec else "cube_transform_points", y2, y) or \
                bad("Cube.transform_vectors" if vec else "Cube.transform_points", y, homogeneous_transform(M, x, vectors=vec))
            if r:
                return r
            # the grid's own cube describes the grid's normalised axes
            yg = (g.transform_vectors if vec else g.transform_points)(x, cube_axes if a is Axes.CUBE else a,
                                                                      cube_axes if b is Axes.CUBE else b,
                                                                      to_grid=None, decimals=None) if not vec else \
                g.transform_vectors(x, cube_axes if a is Axes.CUBE else a, cube_axes if b is Axes.CUBE else b)
            if tc is None:
                r = bad("Cube-vs-Grid:vectors" if vec else "Cube-vs-Grid:points", y, yg)
                if r:
                    return r
        rt = homogeneous_transform(cu.inverse_transform().double(), homogeneous_transform(cu.transform().double(), x.double()))
        if float((rt - x.double()).abs().max()) > 1e-5 + cond:
            return ("C01:wrapper:Cube.inverse_transform:roundtrip", f"inverse_transform() o transform() moves {x.tolist()} to {rt.tolist()}")
        back = cu.grid(size=g.size(), align_corners=g.align_corners())
        if not (back == g) or back.align_corners() != g.align_corners():
            return ("C01:wrapper:Cube.grid", f"grid.cube().grid(size, align_corners) is {back!r}, not {g!r}")
    return None


ORACLES = [
    Oracle("laws", gen_laws, check_laws, nontrivial=lambda c: gen.grid_nontrivial(c["grids"][0]),
           doc="round trip / composition / vectors = linear part for all axes triples on the API"),
    Oracle("anchor", gen_anchor, check_anchor, nontrivial=lambda c: gen.grid_nontrivial(c["grid"]),
           doc="documented anchors of the four coordinate systems"),
    Oracle("coords", gen_coords, check_coords, nontrivial=lambda c: True,
           doc="coords(): shape, range, = point map of indices, grid_sample identity; points()"),
    Oracle("wrappers", gen_wrappers, check_wrappers, nontrivial=lambda c: gen.grid_nontrivial(c["grid"]),
           doc="delegating functions and methods (grid_*_transform, grid_transform_*, Grid.inverse_transform, Cube.transform_*, "
               "cube_*_transform, cube_transform_*, Cube.inverse_transform, Cube.grid) = the method they delegate to, and a "
               "grid's cube = the grid's normalised axes"),
]


def search_cases(disagreements: List[dict]):
    """Turn disagreeing correspondence cases into oracle cases (same grids) so that the search starts there."""
    extra = {"laws": [], "anchor": [], "coords": [], "wrappers": []}
    for dsg in disagreements[:50]:
        c = dsg["case"]
        if "grid" in c and isinstance(c["grid"], dict):
            g = c["grid"]
            if min(g["size"]) >= 2:
                extra["anchor"].append({"grid": g})
                g2 = c.get("to_grid") or g
                if min(g2["size"]) >= 2:
                    d = len(g["size"])
                    extra["laws"].append({"grids": [g, g2, g], "two": c.get("to_grid") is not None,
                                          "x": [0.3, -0.7, 0.5][:d], "v": [0.1, 0.2, -0.1][:d]})
            if max(g["size"]) <= 12:
                extra["coords"].append({"grid": g, "ac": g["align_corners"], "seed": 1})
        if "n" in c and c["n"] <= 4096:
            extra["coords"].append({"grid": {"size": [c["n"], 2], "spacing": [1.0, 1.0],
                                             "direction": [[1.0, 0.0], [0.0, 1.0]], "align_corners": c["ac"],
                                             "center": [0.0, 0.0]}, "ac": c["ac"], "seed": 1})
    return extra
