"""C02 — grid <-> world convention agrees with ITK for every oriented image geometry.

Three-way: implementation (deepali) vs Lean model (deepali's code transcribed) vs SimpleITK, with the
independent specification `Itk.idxToPhys / physToIdx` (Deepali/Model/Itk.lean) in the middle:
SimpleITK validates the specification, the theorems connect the specification to the model, the streams
connect the model to the code."""
from __future__ import annotations

import math
import random
from fractions import Fraction
from typing import Dict, List, Optional

import SimpleITK as sitk
import torch

from deepali.core.grid import Grid
from deepali.data import Image
from deepali.utils.simpleitk.grid import GridAttrs, image_grid_attributes

from lib import gen, proto
from lib.core import Oracle, Stream, close

PROP = "C02"
RTOL32 = 2e-4   # deepali stores float32 attributes: ~30 flops x 6e-8 x conditioning (|origin|/spacing <= 1e4)
RTOL64 = 1e-9   # SimpleITK computes in float64 on the same (float32-valued) header

ASSUMPTIONS = [
    "floats are the exact rationals they denote; IEEE rounding is covered by the correspondence tolerance "
    f"(rtol {RTOL32} for deepali's float32 path, {RTOL64} for SimpleITK's float64 path, relative to "
    "max(1, |inputs|, |result|)), never by a theorem",
    "direction matrices are orthonormal (rotations, flips, axis permutations), as the property quantifies; the code "
    "itself only checks |det| ~ 1 (theorem C02_nonorthogonal_counterexample shows the hypothesis is needed)",
    "SimpleITK is an independent oracle for the specification Itk.idxToPhys / Itk.physToIdx, not part of the proof",
    "the SimpleITK header handed to model and specification is the float32-valued header deepali stores "
    "(read back from the constructed Grid), so that all three parties see the same rationals",
]
TRUSTED = ["model file Deepali/Model/Itk.lean: specification written from ITK's documentation (validated against "
           "SimpleITK on every run) + transcription of Grid.from_sitk / Image.sitk header conversion"]
RULE = ("headers drawn from one PRNG: D in {2,3}, sizes 1..24, anisotropic spacing, origin or center construction "
        "route, direction = random proper rotation or any of the 8/48 signed axis permutations (all enumerated in the "
        "`perms` stream); continuous indices inside and far outside the image; non-trivial = direction != identity or "
        "anisotropic or off-centre; distinct after JSON canonicalisation")


def _n(tier, quick, thorough, search=None):
    return {"quick": quick, "thorough": thorough, "search": search or max(quick, thorough // 4)}[tier]


def _scale(spec: dict) -> float:
    pos = spec.get("origin", spec.get("center"))
    return max([1.0] + [abs(v) for v in pos] + [n * h for n, h in zip(spec["size"], spec["spacing"])])


def header_of(g: Grid) -> dict:
    """(size, origin, spacing, direction) of the grid as float64 Python numbers of the stored float32 values."""
    return {"size": [int(n) for n in g.size()], "origin": proto.flat(g.origin()), "spacing": proto.flat(g._spacing),
            "direction": proto.flat(g._direction)}


def sitk_image(h: dict) -> sitk.Image:
    img = sitk.Image([max(1, n) for n in h["size"]], sitk.sitkUInt8)
    img.SetOrigin(h["origin"])
    img.SetSpacing(h["spacing"])
    img.SetDirection(h["direction"])
    return img


def header_tokens(h: dict) -> str:
    return (" ".join(str(n) for n in h["size"]) + " " + proto.vec(h["origin"]) + " " + proto.vec(h["spacing"]) + " "
            + proto.vec(h["direction"]))


# ------------------------------------------------------------------ streams: index <-> world, three-way
def _points(rng: random.Random, spec: dict, kind: str) -> List[float]:
    d = len(spec["size"])
    if kind == "index":
        mode = rng.choice(["inside", "inside", "corner", "outside"])
        if mode == "inside":
            return [round(rng.uniform(0, max(1, n) - 1), 3) for n in spec["size"]]
        if mode == "corner":
            return [float(rng.choice([0, max(0, n - 1)])) for n in spec["size"]]
        return [round(rng.uniform(-5, 5) * n, 2) for n in spec["size"]]
    pos = spec.get("origin", spec.get("center"))
    ext = max(n * h for n, h in zip(spec["size"], spec["spacing"]))
    far = rng.random() < 0.3
    return [round(p + rng.uniform(-1, 1) * ext * (6 if far else 1), 3) for p in pos]


def gen_maps(rng: random.Random, tier: str):
    for _ in range(_n(tier, 250, 12000)):
        d = rng.choice([2, 3])
        spec = gen.grid_spec(rng, d, min_size=1, max_size=24)
        yield {"grid": spec, "i": _points(rng, spec, "index"), "x": _points(rng, spec, "world"),
               "dtype": rng.choice(["float32", "float64"])}


def gen_perms(rng: random.Random, tier: str):
    """every signed axis permutation (8 in 2-D, 48 in 3-D) x both construction routes"""
    for d in (2, 3):
        for m in gen.signed_perms(d):
            for route in ("origin", "center"):
                spec = gen.grid_spec(rng, d, min_size=2, max_size=12, dir_kind="identity")
                spec["direction"] = m
                pos = spec.pop("origin", None) or spec.pop("center")
                spec[route] = pos
                yield {"grid": spec, "i": _points(rng, spec, "index"), "x": _points(rng, spec, "world"),
                       "dtype": "float64"}


def _dt(c):
    return torch.float32 if c["dtype"] == "float32" else torch.float64


def impl_maps(c):
    g = gen.make_grid(c["grid"])
    h = header_of(g)
    img = sitk_image(h)
    i = torch.tensor(c["i"], dtype=_dt(c))
    x = torch.tensor(c["x"], dtype=_dt(c))
    i64 = [float(v) for v in i.double()]
    x64 = [float(v) for v in x.double()]
    import numpy as np

    attrs = image_grid_attributes(img)      # utils/simpleitk/grid.py: the NumPy twin of Grid (origin route)
    return {
        "attrs_i2w": [float(v) for v in attrs.index_to_physical_space(np.array(i64))],
        "attrs_w2i": [float(v) for v in attrs.physical_space_to_continuous_index(np.array(x64))],
        "i2w": proto.flat(g.index_to_world(i, decimals=None)),
        "w2i": proto.flat(g.world_to_index(x, decimals=None)),
        "itk_i2w": list(img.TransformContinuousIndexToPhysicalPoint(i64)),
        "itk_w2i": list(img.TransformPhysicalPointToContinuousIndex(x64)),
        "i": i64, "x": x64,
    }


def _pt(c, key):
    return proto.vec(proto.flat(torch.tensor(c[key], dtype=_dt(c))))


def line_i2w_model(c):
    g = gen.make_grid(c["grid"])
    return f"itk.g_i2w {g.ndim} {proto.grid(g)} {_pt(c, 'i')}"


def line_w2i_model(c):
    g = gen.make_grid(c["grid"])
    return f"itk.g_w2i {g.ndim} {proto.grid(g)} {_pt(c, 'x')}"


def _osd(g: Grid) -> str:
    h = header_of(g)
    return f"{proto.vec(h['origin'])} {proto.vec(h['spacing'])} {proto.vec(h['direction'])}"


def line_i2w_spec(c):
    g = gen.make_grid(c["grid"])
    return f"itk.idx_to_phys {g.ndim} {_osd(g)} {_pt(c, 'i')}"


def line_w2i_spec(c):
    g = gen.make_grid(c["grid"])
    return f"itk.phys_to_idx {g.ndim} {_osd(g)} {_pt(c, 'x')}"


def _idx_scale(c) -> float:
    sc = _scale(c["grid"])
    return max([1.0] + [abs(v) for v in c["x"]] + [sc]) / min(c["grid"]["spacing"])


def cmp_i2w_model(c, r, out):
    if isinstance(r, str):
        return f"impl raised {r}"
    if proto.is_error(out):
        return f"model error {out}"
    sc = max([_scale(c["grid"])] + [abs(v) * max(c["grid"]["spacing"]) for v in c["i"]])
    return close(r["i2w"], proto.parse_vec(out), RTOL32, sc)


def cmp_w2i_model(c, r, out):
    if isinstance(r, str):
        return f"impl raised {r}"
    if proto.is_error(out):
        return f"model error {out}"
    return close(r["w2i"], proto.parse_vec(out), RTOL32, _idx_scale(c))


def cmp_i2w_spec(c, r, out):
    if isinstance(r, str):
        return f"impl raised {r}"
    if proto.is_error(out):
        return f"specification error {out}"
    m = proto.parse_vec(out)
    sc = max([_scale(c["grid"])] + [abs(v) * max(c["grid"]["spacing"]) for v in c["i"]])
    why = close(r["itk_i2w"], m, RTOL64, sc)
    if why:
        return "SimpleITK vs specification (my reading of ITK is wrong?): " + why
    why = close(r["attrs_i2w"], m, RTOL64, sc)
    if why:
        return "GridAttrs.index_to_physical_space vs ITK specification: " + why
    why = close(r["i2w"], m, RTOL32, sc)
    return ("deepali vs ITK specification: " + why) if why else None


def cmp_w2i_spec(c, r, out):
    if isinstance(r, str):
        return f"impl raised {r}"
    if proto.is_error(out):
        return f"specification error {out}"
    m = proto.parse_vec(out)
    sc = _idx_scale(c)
    # the stored direction is a float32-rounded rotation: ITK inverts it exactly, deepali transposes it; the two
    # differ by the orthogonality defect (~1e-7 relative), far below RTOL32
    why = close(r["itk_w2i"], m, 1e-7, sc)
    if why:
        return "SimpleITK vs specification (my reading of ITK is wrong?): " + why
    # GridAttrs also transposes instead of inverting, in float64, and rounds to 12 decimals
    why = close(r["attrs_w2i"], m, 1e-6, sc)
    if why:
        return "GridAttrs.physical_space_to_continuous_index vs ITK specification: " + why
    why = close(r["w2i"], m, RTOL32, sc)
    return ("deepali vs ITK specification: " + why) if why else None


# ------------------------------------------------------------------ streams: header conversion
def gen_header(rng: random.Random, tier: str):
    for _ in range(_n(tier, 150, 6000)):
        d = rng.choice([2, 3])
        spec = gen.grid_spec(rng, d, min_size=1, max_size=16)
        yield {"grid": spec, "channels": rng.choice([1, 1, 2, 3]), "ac": rng.random() < 0.5}


def _grid_desc(g: Grid) -> dict:
    return {"size_f": proto.flat(g._size), "center": proto.flat(g._center), "spacing": proto.flat(g._spacing),
            "direction": proto.flat(g._direction), "ac": bool(g._align_corners), "origin": proto.flat(g.origin())}


def _img_header(img: sitk.Image) -> dict:
    return {"size": list(img.GetSize()), "origin": list(img.GetOrigin()), "spacing": list(img.GetSpacing()),
            "direction": list(img.GetDirection())}


def impl_from_sitk(c):
    """SimpleITK header (float32-valued numbers) -> Grid.from_sitk and Image.from_sitk"""
    g0 = gen.make_grid(c["grid"])
    h = header_of(g0)
    img = sitk_image(h)
    g = Grid.from_sitk(img, align_corners=c["ac"])
    im = Image.from_sitk(img, align_corners=c["ac"])
    return {"grid": _grid_desc(g), "image_grid": _grid_desc(im.grid()), "shape": list(im.shape)}


def line_from_sitk(c):
    g0 = gen.make_grid(c["grid"])
    return f"itk.from_sitk {g0.ndim} {header_tokens(header_of(g0))} {1 if c['ac'] else 0}"


def _cmp_grid(r: dict, out: str, d: int, sc: float) -> Optional[str]:
    core, origin = [p.split() for p in out.split("|")]
    fr = [Fraction(t) for t in core[:-1]]
    m = {"size_f": fr[0:d], "center": fr[d:2 * d], "spacing": fr[2 * d:3 * d], "direction": fr[3 * d:3 * d + d * d],
         "origin": [Fraction(t) for t in origin]}
    if r["ac"] != (core[-1] == "1"):
        return "align_corners differs"
    why = close(r["size_f"], m["size_f"], 0.0)
    if why:
        return "size: " + why
    for k, tol, s in (("spacing", 1e-6, 1.0), ("direction", 1e-6, 1.0), ("center", RTOL32, sc), ("origin", RTOL32, sc)):
        why = close(r[k], m[k], tol, s)
        if why:
            return k + ": " + why
    return None


def cmp_from_sitk(c, r, out):
    if isinstance(r, str):
        return f"impl raised {r}"
    if proto.is_error(out):
        return f"model error {out}"
    d = len(c["grid"]["size"])
    sc = _scale(c["grid"])
    why = _cmp_grid(r["grid"], out, d, sc)
    if why:
        return "Grid.from_sitk: " + why
    why = _cmp_grid(r["image_grid"], out, d, sc)
    if why:
        return "Image.from_sitk grid: " + why
    want = [1] + [max(1, n) for n in reversed(c["grid"]["size"])]
    if r["shape"] != want:
        return f"Image.from_sitk shape {r['shape']} != {want}"
    return None


def impl_to_sitk(c):
    g = gen.make_grid(c["grid"]).align_corners(c["ac"])
    data = torch.zeros((c["channels"],) + tuple(g.shape))
    img = Image(data, g).sitk()
    back = Image.from_sitk(img, align_corners=c["ac"])
    return {"header": _img_header(img), "components": img.GetNumberOfComponentsPerPixel(),
            "back": _grid_desc(back.grid()), "orig": _grid_desc(g)}


def line_to_sitk(c):
    g = gen.make_grid(c["grid"]).align_corners(c["ac"])
    return f"itk.to_sitk {g.ndim} {proto.grid(g)}"


def cmp_to_sitk(c, r, out):
    if isinstance(r, str):
        return f"impl raised {r}"
    if proto.is_error(out):
        return f"model error {out}"
    size, origin, spacing, direction = [p.split() for p in out.split("|")]
    h = r["header"]
    if h["size"] != [int(t) for t in size]:
        return f"size {h['size']} vs model {size}"
    sc = _scale(c["grid"])
    why = (close(h["origin"], [Fraction(t) for t in origin], RTOL32, sc)
           or close(h["spacing"], [Fraction(t) for t in spacing], 1e-9)
           or close(h["direction"], [Fraction(t) for t in direction], 1e-9))
    if why:
        return "Image.sitk header: " + why
    if r["components"] != c["channels"]:
        return f"components {r['components']} != channels {c['channels']}"
    # Image.from_sitk(Image.sitk()) is the original grid up to float32 rounding of origin/center. (Grid.__eq__ is not
    # used: its allclose(atol=1e-8) calls grids unequal that differ by rounding only when a center component is ~0.)
    b, o = r["back"], r["orig"]
    if b["size_f"] != o["size_f"] or b["ac"] != o["ac"]:
        return f"Image.from_sitk(Image.sitk()): size/flag {b['size_f']}, {b['ac']} vs {o['size_f']}, {o['ac']}"
    for k, tol, s_ in (("spacing", 1e-6, 1.0), ("direction", 1e-6, 1.0), ("center", RTOL32, sc), ("origin", RTOL32, sc)):
        why = close(b[k], [Fraction(v) for v in o[k]], tol, s_)
        if why:
            return f"Image.from_sitk(Image.sitk()) {k}: " + why
    return None


def line_roundtrip(c):
    g0 = gen.make_grid(c["grid"])
    return f"itk.roundtrip {g0.ndim} {header_tokens(header_of(g0))} {1 if c['ac'] else 0}"


def impl_roundtrip(c):
    g0 = gen.make_grid(c["grid"])
    h = header_of(g0)
    img = sitk_image(h)
    im = Image.from_sitk(img, align_corners=c["ac"])
    return {"in": h, "out": _img_header(im.sitk())}


def cmp_roundtrip(c, r, out):
    if isinstance(r, str):
        return f"impl raised {r}"
    if proto.is_error(out):
        return f"model error {out}"
    size, origin, spacing, direction = [p.split() for p in out.split("|")]
    h, o = r["in"], r["out"]
    # the model round trip is the identity (theorem C02_header_roundtrip) …
    if [int(t) for t in size] != [max(0, n) for n in h["size"]]:
        return f"model round trip changed the size: {size} vs {h['size']}"
    if ([Fraction(t) for t in origin] != [Fraction(v) for v in h["origin"]]
            or [Fraction(t) for t in spacing] != [Fraction(v) for v in h["spacing"]]
            or [Fraction(t) for t in direction] != [Fraction(v) for v in h["direction"]]):
        return "model round trip is not the identity on this header"
    # … and the implementation agrees up to float32 rounding of the origin
    if o["size"] != [max(1, n) for n in h["size"]]:
        return f"size {h['size']} -> {o['size']}"
    sc = _scale(c["grid"])
    why = (close(o["origin"], [Fraction(v) for v in h["origin"]], RTOL32, sc)
           or close(o["spacing"], [Fraction(v) for v in h["spacing"]], 1e-9)
           or close(o["direction"], [Fraction(v) for v in h["direction"]], 1e-9))
    return ("header round trip: " + why) if why else None


# ------------------------------------------------------------------ stream: construction routes
def gen_routes(rng: random.Random, tier: str):
    for _ in range(_n(tier, 150, 6000)):
        d = rng.choice([2, 3])
        yield {"grid": gen.grid_spec(rng, d, min_size=1, max_size=24)}


def impl_routes(c):
    g = gen.make_grid(c["grid"])
    return _grid_desc(g)


def line_routes(c):
    spec = c["grid"]
    g = gen.make_grid(spec)
    d = g.ndim
    pos = spec.get("origin", spec.get("center"))
    pos32 = proto.vec(proto.flat(torch.tensor(pos, dtype=torch.float32)))
    size = proto.vec([float(v) for v in spec["size"]])
    rest = f"{proto.vec(proto.flat(g._spacing))} {proto.vec(proto.flat(g._direction))} {1 if spec['align_corners'] else 0}"
    if "origin" in spec:
        return f"grid.from_origin {d} {size} {pos32} {rest}"
    return f"itk.from_center {d} {size} {pos32} {rest}"


def cmp_routes(c, r, out):
    if isinstance(r, str):
        return f"impl raised {r}"
    if proto.is_error(out):
        return f"model error {out}"
    d = len(c["grid"]["size"])
    sc = _scale(c["grid"])
    if "|" not in out:   # grid.from_origin prints the grid only
        toks = out.split()
        fr = [Fraction(t) for t in toks[:-1]]
        why = close(r["center"], fr[d:2 * d], RTOL32, sc)
        if why:
            return "center from origin: " + why
        pos32 = proto.flat(torch.tensor(c["grid"]["origin"], dtype=torch.float32))
        why = close(r["origin"], [Fraction(v) for v in pos32], RTOL32, sc)
        return ("origin() of a grid built with origin=: " + why) if why else None
    return _cmp_grid(r, out, d, sc)


_nt = lambda c: gen.grid_nontrivial(c["grid"])

STREAMS = [
    Stream("i2w_model", gen_maps, impl_maps, line_i2w_model, cmp_i2w_model, nontrivial=_nt,
           doc="Grid.index_to_world vs Lean model of deepali (Grid.indexToWorld)"),
    Stream("i2w_spec", gen_maps, impl_maps, line_i2w_spec, cmp_i2w_spec, nontrivial=_nt,
           doc="Grid.index_to_world and SimpleITK TransformContinuousIndexToPhysicalPoint vs ITK specification"),
    Stream("w2i_model", gen_maps, impl_maps, line_w2i_model, cmp_w2i_model, nontrivial=_nt,
           doc="Grid.world_to_index vs Lean model of deepali (Grid.worldToIndex)"),
    Stream("w2i_spec", gen_maps, impl_maps, line_w2i_spec, cmp_w2i_spec, nontrivial=_nt,
           doc="Grid.world_to_index and SimpleITK TransformPhysicalPointToContinuousIndex vs ITK specification "
               "(true matrix inverse)"),
    Stream("perms_i2w", gen_perms, impl_maps, line_i2w_spec, cmp_i2w_spec, nontrivial=_nt, exhaustive=True,
           doc="all 8 + 48 signed axis permutations x both construction routes, index -> world, three-way"),
    Stream("perms_w2i", gen_perms, impl_maps, line_w2i_spec, cmp_w2i_spec, nontrivial=_nt, exhaustive=True,
           doc="all 8 + 48 signed axis permutations x both construction routes, world -> index, three-way"),
    Stream("from_sitk", gen_header, impl_from_sitk, line_from_sitk, cmp_from_sitk, nontrivial=_nt,
           doc="SimpleITK image -> Grid.from_sitk / Image.from_sitk vs model Grid.fromSitk"),
    Stream("to_sitk", gen_header, impl_to_sitk, line_to_sitk, cmp_to_sitk, nontrivial=_nt,
           doc="Image(data, grid).sitk() header vs model Grid.toSitk; Image.from_sitk(Image.sitk()) == grid"),
    Stream("roundtrip", gen_header, impl_roundtrip, line_roundtrip, cmp_roundtrip, nontrivial=_nt,
           doc="header -> Image.from_sitk -> Image.sitk header; model round trip must be the exact identity"),
    Stream("routes", gen_routes, impl_routes, line_routes, cmp_routes, nontrivial=_nt,
           doc="Grid(size, origin=...) and Grid(size, center=...): stored center and origin() vs model"),
]


# ------------------------------------------------------------------ property oracles (implementation vs SimpleITK only)
def check_itk_maps(c):
    g = gen.make_grid(c["grid"])
    h = header_of(g)
    img = sitk_image(h)
    i = [float(v) for v in c["i"]]
    x = [float(v) for v in c["x"]]
    sc = max([_scale(c["grid"])] + [abs(v) * max(c["grid"]["spacing"]) for v in i])
    got = proto.flat(g.index_to_world(torch.tensor(i, dtype=torch.float64), decimals=None))
    want = list(img.TransformContinuousIndexToPhysicalPoint(i))
    if max(abs(a - b) for a, b in zip(got, want)) > RTOL32 * sc:
        return ("C02:index_to_world:vs-itk", f"index {i} -> deepali {got}, ITK {want}")
    got = proto.flat(g.world_to_index(torch.tensor(x, dtype=torch.float64), decimals=None))
    want = list(img.TransformPhysicalPointToContinuousIndex(x))
    if max(abs(a - b) for a, b in zip(got, want)) > RTOL32 * _idx_scale(c):
        return ("C02:world_to_index:vs-itk", f"point {x} -> deepali {got}, ITK {want}")
    # origin is the position of sample 0; direction columns are the unit steps
    d = g.ndim
    o = proto.flat(g.index_to_world(torch.zeros(d, dtype=torch.float64), decimals=None))
    if "origin" in c["grid"] and max(abs(a - b) for a, b in zip(o, c["grid"]["origin"])) > RTOL32 * sc:
        return ("C02:origin:sample0", f"index 0 is at {o}, origin given {c['grid']['origin']}")
    for k in range(d):
        e = torch.zeros(d, dtype=torch.float64)
        e[k] = 1
        step = [a - b for a, b in zip(proto.flat(g.index_to_world(e, decimals=None)), o)]
        want = [c["grid"]["direction"][r][k] * c["grid"]["spacing"][k] for r in range(d)]
        if max(abs(a - b) for a, b in zip(step, want)) > RTOL32 * sc:
            return ("C02:direction:columns", f"unit step along axis {k} is {step}, want spacing*column = {want}")
    # center stored by the grid is consistent with the origin: index (n-1)/2 is the center
    n = [int(v) for v in g.size()]
    mid = proto.flat(g.index_to_world(torch.tensor([(v - 1) / 2 if v > 0 else 0.0 for v in n], dtype=torch.float64),
                                      decimals=None))
    if max(abs(a - b) for a, b in zip(mid, proto.flat(g.center()))) > RTOL32 * sc:
        return ("C02:center:consistent", f"index (n-1)/2 is at {mid}, center() = {proto.flat(g.center())}")
    if "center" in c["grid"] and max(abs(a - b) for a, b in zip(mid, c["grid"]["center"])) > RTOL32 * sc:
        return ("C02:center:consistent", f"index (n-1)/2 is at {mid}, center given {c['grid']['center']}")
    return None


def gen_itk_maps(rng: random.Random, tier: str):
    for _ in range(_n(tier, 150, 5000, 1500)):
        d = rng.choice([2, 3])
        spec = gen.grid_spec(rng, d, min_size=1, max_size=24)
        yield {"grid": spec, "i": _points(rng, spec, "index"), "x": _points(rng, spec, "world")}


def check_header(c):
    g0 = gen.make_grid(c["grid"])
    h = header_of(g0)
    img = sitk_image(h)
    sc = _scale(c["grid"])
    try:
        g = Grid.from_sitk(img)
        im = Image.from_sitk(img)
        out = im.sitk()
    except Exception as e:  # noqa: BLE001
        return (f"C02:header:raises:{type(e).__name__}", f"{type(e).__name__}: {str(e)[:120]}")
    o = _img_header(out)
    hh = dict(h, size=[max(1, n) for n in h["size"]])
    if o["size"] != hh["size"]:
        return ("C02:header:size", f"size {hh['size']} -> {o['size']}")
    if max(abs(a - b) for a, b in zip(o["origin"], h["origin"])) > RTOL32 * sc:
        return ("C02:header:origin", f"origin {h['origin']} -> {o['origin']}")
    if max(abs(a - b) for a, b in zip(o["spacing"], h["spacing"])) > 1e-6 * max(h["spacing"]):
        return ("C02:header:spacing", f"spacing {h['spacing']} -> {o['spacing']}")
    if max(abs(a - b) for a, b in zip(o["direction"], h["direction"])) > 1e-6:
        return ("C02:header:direction", f"direction {h['direction']} -> {o['direction']}")
    # the grid built from the header maps indices like the ITK image does
    i = [float(v) for v in c["i"]]
    got = proto.flat(g.index_to_world(torch.tensor(i, dtype=torch.float64), decimals=None))
    want = list(img.TransformContinuousIndexToPhysicalPoint(i))
    s2 = max([sc] + [abs(v) * max(c["grid"]["spacing"]) for v in i])
    if max(abs(a - b) for a, b in zip(got, want)) > RTOL32 * s2:
        return ("C02:from_sitk:index_to_world", f"index {i} -> deepali {got}, ITK {want}")
    if not (im.grid() == g):
        return ("C02:header:image-grid", "Image.from_sitk grid differs from Grid.from_sitk")
    return None


def gen_header_oracle(rng: random.Random, tier: str):
    for _ in range(_n(tier, 100, 4000, 1000)):
        d = rng.choice([2, 3])
        spec = gen.grid_spec(rng, d, min_size=1, max_size=16)
        yield {"grid": spec, "i": _points(rng, spec, "index")}


def check_routes(c):
    """both construction routes: a grid rebuilt from its own origin() has the same center and vice versa"""
    g = gen.make_grid(c["grid"])
    sc = _scale(c["grid"])
    kw = dict(size=c["grid"]["size"], spacing=c["grid"]["spacing"], direction=c["grid"]["direction"])
    try:
        g_o = Grid(origin=g.origin(), **kw)
        g_c = Grid(center=g.center(), **kw)
        g_both = Grid(center=g.center(), origin=g.origin(), **kw)
    except Exception as e:  # noqa: BLE001
        return (f"C02:routes:raises:{type(e).__name__}", f"{type(e).__name__}: {str(e)[:120]}")
    for name, h in (("origin", g_o), ("center", g_c), ("both", g_both)):
        if (h.center().double() - g.center().double()).abs().max() > RTOL32 * sc:
            return (f"C02:routes:{name}:center", f"center {g.center().tolist()} vs {h.center().tolist()}")
        if (h.origin().double() - g.origin().double()).abs().max() > RTOL32 * sc:
            return (f"C02:routes:{name}:origin", f"origin {g.origin().tolist()} vs {h.origin().tolist()}")
    return None


def gen_routes_oracle(rng: random.Random, tier: str):
    for _ in range(_n(tier, 100, 4000, 1000)):
        yield {"grid": gen.grid_spec(rng, rng.choice([2, 3]), min_size=1, max_size=24)}


KEY_ATTRS_CENTER = "C02:GridAttrs:center:raises"


def check_attrs(c):
    """utils/simpleitk/grid.py GridAttrs: header attributes, maps vs SimpleITK, center <-> origin."""
    import numpy as np

    g = gen.make_grid(c["grid"])
    h = header_of(g)
    img = sitk_image(h)
    a = image_grid_attributes(img)
    sc = _scale(c["grid"])
    if list(a.size) != [max(1, n) for n in h["size"]] or list(a.origin) != h["origin"] or list(a.spacing) != h["spacing"] \
            or list(a.direction) != h["direction"]:
        return ("C02:GridAttrs:header", f"image_grid_attributes {a!r} vs header {h}")
    i = [float(v) for v in c["i"]]
    got = [float(v) for v in a.index_to_physical_space(np.array(i))]
    want = list(img.TransformContinuousIndexToPhysicalPoint(i))
    if max(abs(p - q) for p, q in zip(got, want)) > RTOL64 * max([sc] + [abs(v) * max(h["spacing"]) for v in i]):
        return ("C02:GridAttrs:index_to_physical_space:vs-itk", f"index {i} -> {got}, ITK {want}")
    # center <-> origin: the center must be readable and the center= construction route must exist
    try:
        ctr = [float(v) for v in a.center]
        b = GridAttrs(size=a.size, center=ctr, spacing=a.spacing, direction=a.direction)
    except Exception as e:  # noqa: BLE001
        return (KEY_ATTRS_CENTER, f"GridAttrs.center / GridAttrs(center=...) raised {type(e).__name__}: {str(e)[:100]}")
    if max(abs(p - q) for p, q in zip(b.origin, a.origin)) > 1e-6 * sc:
        return ("C02:GridAttrs:center:origin", f"origin {a.origin} -> center {ctr} -> origin {b.origin}")
    # (GridAttrs documents no convention for its center; the code's 0.5*n differs from core.Grid's (n-1)/2 by half a
    #  sample. The property speaks about the center *stored by the grid*, i.e. core.Grid, so only self-consistency
    #  of the two GridAttrs routes is demanded here.)
    return None


def gen_origin_set(rng: random.Random, tier: str):
    for _ in range(_n(tier, 80, 2000, 300)):
        d = rng.choice([2, 3])
        spec = gen.grid_spec(rng, d, min_size=5, max_size=15)
        if rng.random() < 0.6:
            spec["size"] = [n if n % 2 == 1 else n + 1 for n in spec["size"]]     # odd: halving leaves a fractional stored size
        yield {"grid": spec, "derive": rng.choice([None, "downsample", "downsample", "resample"]),
               "factor": round(rng.uniform(1.1, 1.7), 3), "how": rng.choice(["origin", "origin_", "crop", "pad"]),
               "new": [round(rng.uniform(-50, 50), 3) for _ in range(d)], "num": rng.randint(1, 2)}


def check_origin_set(c):
    """the ITK convention after the origin is SET on an existing (possibly re-gridded) grid: sample 0 sits at the
    origin that was asked for, `origin()` reports it, the stored centre is the position of index (n-1)/2, and the
    header agrees with SimpleITK. Re-gridded grids carry a fractional stored size (9 -> 4.5 with 5 samples)."""
    spec = dict(c["grid"])
    if c["derive"]:
        spec["derive"], spec["derive_factor"] = c["derive"], c["factor"]
    g = gen.make_grid(spec)
    d = g.ndim
    sc = _scale(c["grid"])
    zero = torch.zeros(d, dtype=torch.float64)
    if c["how"] in ("origin", "origin_"):
        want = torch.tensor(c["new"], dtype=torch.float64)
        g2 = g.origin(want.float()) if c["how"] == "origin" else g.clone().origin_(want.float())
    else:
        k = c["num"]
        want = g.index_to_world(torch.full((d,), float(k if c["how"] == "crop" else -k), dtype=torch.float64), decimals=None).double()
        g2 = g.crop(num=k) if c["how"] == "crop" else g.pad(num=k)
    o = g2.index_to_world(zero, decimals=None).double()
    if float((o - want).abs().max()) > RTOL32 * sc:
        return (f"C02:origin-set:{c['how']}:sample0", f"after {c['how']} (derived: {c['derive']}) index 0 is at "
                f"{proto.flat(o)}, want {proto.flat(want)}")
    if float((g2.origin().double() - want).abs().max()) > RTOL32 * sc:
        return (f"C02:origin-set:{c['how']}:getter", f"origin() = {proto.flat(g2.origin())}, want {proto.flat(want)}")
    n = [int(v) for v in g2.size()]
    mid = g2.index_to_world(torch.tensor([(v - 1) / 2 for v in n], dtype=torch.float64), decimals=None).double()
    if float((mid - g2.center().double()).abs().max()) > RTOL32 * sc:
        return (f"C02:origin-set:{c['how']}:center", f"index (n-1)/2 is at {proto.flat(mid)}, center() = {proto.flat(g2.center())}")
    img = sitk_image(header_of(g2))
    i = [0.5 * (v - 1) + 0.25 for v in n]
    got = proto.flat(g2.index_to_world(torch.tensor(i, dtype=torch.float64), decimals=None))
    ref = list(img.TransformContinuousIndexToPhysicalPoint(i))
    if max(abs(a - b) for a, b in zip(got, ref)) > RTOL32 * sc:
        return (f"C02:origin-set:{c['how']}:vs-itk", f"index {i} -> deepali {got}, ITK {ref}")
    return None


ORACLES = [
    Oracle("origin_set", gen_origin_set, check_origin_set,
           doc="origin(new) / origin_(new) / crop / pad on fresh and re-gridded grids (fractional stored size): sample 0 at "
               "the requested origin, getter, centre = index (n-1)/2, agreement with SimpleITK"),
    Oracle("attrs", gen_header_oracle, check_attrs, nontrivial=_nt,
           doc="utils/simpleitk GridAttrs (NumPy twin): header fields, index->physical vs SimpleITK, center route"),
    Oracle("itk_maps", gen_itk_maps, check_itk_maps, nontrivial=_nt,
           doc="index_to_world / world_to_index vs SimpleITK; origin = sample 0; direction columns; center consistent"),
    Oracle("header", gen_header_oracle, check_header, nontrivial=_nt,
           doc="SimpleITK header -> Grid.from_sitk / Image.from_sitk -> Image.sitk reproduces the header"),
    Oracle("routes", gen_routes_oracle, check_routes, nontrivial=_nt,
           doc="origin= and center= construction routes give the same grid"),
]


def search_cases(disagreements: List[dict]) -> Dict[str, List[dict]]:
    extra: Dict[str, List[dict]] = {"itk_maps": [], "header": [], "routes": []}
    for dsg in disagreements[:60]:
        c = dsg["case"]
        spec = c["grid"]
        d = len(spec["size"])
        extra["itk_maps"].append({"grid": spec, "i": c.get("i", [1.0] * d), "x": c.get("x", [0.5] * d)})
        extra["header"].append({"grid": spec, "i": c.get("i", [1.0] * d)})
        extra["routes"].append({"grid": spec})
        extra.setdefault("attrs", []).append({"grid": spec, "i": c.get("i", [1.0] * d)})
    return extra
