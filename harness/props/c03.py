"""C03 — derived grids (resize, pyramid, crop, pad, pool, ...) keep their place in the world."""
from __future__ import annotations

import collections
import contextlib
import itertools
import sys
import math
import random
import traceback
from fractions import Fraction
from typing import Dict, List, Optional

import torch

from deepali.core.cube import Cube
from deepali.core.grid import Grid

from lib import gen, proto
from lib.core import Oracle, Stream, close

PROP = "C03"
RTOL32 = 2e-4   # grid attributes are float32; a derivation is < 40 flops; chains of <= 6 ops: < 250 flops x 6e-8
                # x conditioning (|center| / extent <= 1e3) stays three orders below any modelled defect (>= 1e-2)
SIZE_RTOL = 1e-5  # float-valued size: exact except for `resample` (one float32 division)
KEY_ORIGIN = "C03:_resize:assert-allclose-origin"
KEY_EXTENT = "C03:_resize:assert-allclose-extent"

STATS: collections.Counter = collections.Counter()


class _Assumptions(list):
    """Static assumptions plus one line of run statistics (filled while the streams run)."""

    def __iter__(self):
        yield from list.__iter__(self)
        if STATS:
            yield "run statistics (not an assumption): " + ", ".join(f"{k}={v}" for k, v in sorted(STATS.items()))


ASSUMPTIONS = _Assumptions([
    "floats are the exact rationals they denote; IEEE rounding is covered by the correspondence tolerance "
    f"(rtol {RTOL32} relative to max(1, |center|, extent)), never by a theorem",
    "valid grid = positive float-valued size on every axis, positive spacing; target sizes >= 2 per axis when corner "
    "samples are aligned (the code divides by n-1), >= 1 otherwise; levels with size/2^levels >= 2",
    "where the float-valued size computed by the code lies within 1e-4 of an integer (only `resample` produces such "
    "values) ceil() may legitimately differ between float32 and exact arithmetic; such steps end the comparison of "
    "that chain and are counted as ceil_ambiguous",
    "an AssertionError raised by the allclose() assertions inside Grid._resize is recorded as 'impl raised' in the "
    "correspondence streams (the model has no such failure, theorem C03_assertions_exact) and reported through the "
    "property oracle as finding " + KEY_ORIGIN,
    "torch division by zero (inf/nan spacing, no exception) is outside the quantifier; model and implementation must "
    "both flag it (err:nonfinite)",
])
TRUSTED = ["model file Deepali/Model/GridOps.lean is a hand transcription of core/grid.py (_resize … region_of_interest, "
           "pool) and core/cube.py (Cube.grid); tied to /repo by the correspondence streams on every run"]
RULE = ("grids drawn from one PRNG (D in {2,3}; sizes 2..24 incl. odd/even; anisotropic spacing; origin or center route; "
        "rotations and signed permutations; both align_corners); every derivation method with random arguments of every "
        "accepted argument form, chains of length <= 3 (quick) / <= 6 (thorough); the integer pyramid recurrence is "
        "enumerated exhaustively for n in [1,128] x levels 0..4 x align_corners x min_size {0,2,5}; non-trivial = "
        "direction != identity or anisotropic spacing or off-centre; distinct after JSON canonicalisation")


def _n(tier, quick, thorough, search=None):
    return {"quick": quick, "thorough": thorough, "search": search or max(quick, thorough // 4)}[tier]


# ------------------------------------------------------------------ running operations on the implementation
class ResizeAssert(Exception):
    """AssertionError from the allclose() assertions of Grid._resize; `grid` is what the operation returns when
    exactly those assertions are bypassed (used to tell a rounding-only raise from a real inconsistency)."""

    def __init__(self, which, grid=None):
        super().__init__(which)
        self.which = which
        self.grid = grid


@contextlib.contextmanager
def bypass_resize_asserts():
    """Make `torch.allclose` return True when (and only when) it is called from a function named `_resize`."""
    orig = torch.allclose

    def patched(*a, **k):
        if sys._getframe(1).f_code.co_name == "_resize":
            return True
        return orig(*a, **k)

    torch.allclose = patched
    try:
        yield
    finally:
        torch.allclose = orig


def _classify_assert(e: AssertionError) -> Optional[str]:
    """'origin' / 'extent' when the AssertionError comes from the allclose assertions in Grid._resize."""
    tb = traceback.extract_tb(e.__traceback__)
    for fr in reversed(tb):
        if fr.name == "_resize":
            line = fr.line or ""
            if "origin" in line:
                return "origin"
            if "extent" in line:
                return "extent"
            return "unknown"
    return None


def apply_op(g: Grid, op: dict) -> Grid:
    try:
        return _apply_op(g, op)
    except AssertionError as e:
        which = _classify_assert(e)
        if which:
            with bypass_resize_asserts():
                h = _apply_op(g, op)
            raise ResizeAssert(which, h) from e
        raise


def _apply_op(g: Grid, op: dict) -> Grid:
    k = op["op"]
    if True:
        if k == "resize":
            if op.get("form") == "args":
                return g.resize(*op["size"], align_corners=op["ac"])
            return g.resize(op["size"], align_corners=op["ac"])
        if k == "reshape":
            return g.reshape(op["shape"], align_corners=op["ac"])
        if k == "resample":
            return g.resample(op["spacing"], min_size=op["min_size"])
        if k == "resample_iso":
            return g.resample(op["which"], min_size=op["min_size"])
        if k == "downsample":
            return g.downsample(op["levels"], dims=op["dims"] or None, min_size=op["min_size"], align_corners=op["ac"])
        if k == "upsample":
            return g.upsample(op["levels"], dims=op["dims"] or None, align_corners=op["ac"])
        if k == "pyramid_level":
            return g.pyramid(op["levels"], dims=op["dims"] or None, min_size=op["min_size"])[op["level"]]
        if k in ("crop", "pad"):
            fn = getattr(g, k)
            form, v = op["form"], op["value"]
            if form == "all":
                return fn(v) if op.get("positional") else fn(margin=v) if op.get("kw") == "margin" else fn(num=v)
            if form == "margin":
                return fn(*v) if op.get("positional") else fn(margin=v)
            return fn(num=v)
        if k == "center_crop":
            return g.center_crop(op["size"])
        if k == "center_pad":
            return g.center_pad(op["size"])
        if k == "narrow":
            return g.narrow(op["dim"], op["start"], op["length"])
        if k == "roi":
            return g.region_of_interest(op["start"], op["size"])
        if k == "pool":
            ks = op["ks"]
            if op.get("avg"):
                return g.avg_pool(ks if len(set(ks)) > 1 else ks[0], ceil_mode=op["ceil"])
            return g.pool(ks if len(set(ks)) > 1 else ks[0], ceil_mode=op["ceil"])
    raise ValueError(f"unknown op {k}")


def _ac(v) -> str:
    return "none" if v is None else ("1" if v else "0")


def op_tokens(op: dict, d: int) -> str:
    k = op["op"]
    iv = lambda xs: " ".join(str(int(x)) for x in xs)
    if k == "resize":
        return f"resize {iv(op['size'])} {_ac(op['ac'])}"
    if k == "reshape":
        return f"reshape {iv(op['shape'])} {_ac(op['ac'])}"
    if k == "resample":
        sp = op["spacing"]
        sp = [sp] * d if not isinstance(sp, list) else sp
        sp32 = proto.flat(torch.tensor(sp, dtype=torch.float32))     # cat_scalars(..., dtype=float32)
        return f"resample {proto.vec(sp32)} {op['min_size']}"
    if k == "resample_iso":
        return f"resample_iso {op['which']} {op['min_size']}"
    if k == "downsample":
        return f"downsample {op['levels']} {len(op['dims'])} {iv(op['dims'])} {op['min_size']} {_ac(op['ac'])}".replace("  ", " ")
    if k == "upsample":
        return f"upsample {op['levels']} {len(op['dims'])} {iv(op['dims'])} {_ac(op['ac'])}".replace("  ", " ")
    if k == "pyramid_level":
        return f"pyramid_level {op['levels']} {len(op['dims'])} {iv(op['dims'])} {op['min_size']} {op['level']}".replace("  ", " ")
    if k in ("crop", "pad"):
        form, v = op["form"], op["value"]
        if form == "all":
            if op.get("positional"):
                # `g.crop(v)` with one positional int: `margin = args = (v,)`, i.e. only the first (X) axis
                return f"{k} margin 1 {int(v)}"
            return f"{k} all {int(v)}"
        return f"{k} {form} {len(v)} {iv(v)}".replace("  ", " ")
    if k == "center_crop":
        return f"center_crop {iv(op['size'])}"
    if k == "center_pad":
        return f"center_pad {iv(op['size'])}"
    if k == "narrow":
        return f"narrow {op['dim']} {op['start']} {op['length']}"
    if k == "roi":
        return f"roi {iv(op['start'])} {iv(op['size'])}"
    if k == "pool":
        return f"pool {iv(op['ks'])} {1 if op['ceil'] else 0}"
    raise ValueError(k)


def describe(g: Grid) -> dict:
    vals = {
        "size_f": proto.flat(g._size), "center": proto.flat(g._center), "spacing": proto.flat(g._spacing),
        "direction": proto.flat(g._direction), "ac": bool(g._align_corners), "origin": proto.flat(g.origin()),
        "size": [int(n) for n in g.size()], "cube_extent": proto.flat(g.cube_extent()),
    }
    for k in ("size_f", "center", "spacing", "origin", "cube_extent"):
        if any(math.isnan(v) or math.isinf(v) for v in vals[k]):
            return {"error": "err:nonfinite"}
    return vals


def run_chain_impl(spec: dict, ops: List[dict]) -> List[dict]:
    g = gen.make_grid(spec)
    out: List[dict] = []
    for op in ops:
        try:
            g = apply_op(g, op)
        except ResizeAssert as e:
            out.append({"error": "err:assert:_resize-" + e.which, "bypassed": describe(e.grid)})
            break
        except AssertionError as e:
            out.append({"error": "err:assert:" + str(e)[:60]})
            break
        except (ValueError, IndexError) as e:
            out.append({"error": "err:value:" + str(e)[:60]})
            break
        except (TypeError, AttributeError, RuntimeError, NotImplementedError) as e:
            out.append({"error": f"err:{type(e).__name__}:" + str(e)[:60]})
            break
        dsc = describe(g)
        out.append(dsc)
        if "error" in dsc:
            break
    return out


# ------------------------------------------------------------------ generators of operations
RESIZE_FAMILY = ["resize", "reshape", "resample", "resample_iso", "downsample", "upsample", "pyramid_level"]
INDEX_FAMILY = ["crop", "pad", "center_crop", "center_pad", "narrow", "roi", "pool"]


def gen_op(rng: random.Random, g: Grid, kind: Optional[str] = None) -> dict:
    """Random arguments for one derivation of the (current) grid `g`; mostly inside the quantifier."""
    d = g.ndim
    n = [int(v) for v in g.size()]
    kind = kind or rng.choice(RESIZE_FAMILY + INDEX_FAMILY)
    ac = rng.choice([None, None, True, False])
    if kind == "resize":
        return {"op": "resize", "size": [rng.choice([2, 3, rng.randint(2, 40), max(2, n[i] + rng.randint(-3, 3))])
                                         for i in range(d)], "ac": ac, "form": rng.choice(["seq", "args"])}
    if kind == "reshape":
        return {"op": "reshape", "shape": [rng.choice([2, rng.randint(2, 40)]) for _ in range(d)], "ac": ac}
    if kind == "resample":
        cur = proto.flat(g._spacing)
        mode = rng.choice(["dyadic", "random", "random", "scalar", "same"])
        if mode == "dyadic":
            sp = [c * rng.choice([0.5, 2.0, 1.0, 0.25]) for c in cur]
        elif mode == "same":
            sp = list(cur)
        elif mode == "scalar":
            sp = round(rng.uniform(0.2, 4.0), 3)
        else:
            sp = [round(rng.uniform(0.2, 4.0), 3) for _ in range(d)]
        return {"op": "resample", "spacing": sp, "min_size": rng.choice([1, 1, 2, 3])}
    if kind == "resample_iso":
        return {"op": "resample_iso", "which": rng.choice(["min", "max"]), "min_size": rng.choice([1, 2])}
    if kind in ("downsample", "upsample", "pyramid_level"):
        dims = rng.choice([[], [], list(range(d)), sorted(rng.sample(range(d), rng.randint(1, d)))])
        if kind == "downsample":
            lv = rng.choice([0, 1, 1, 2, 3, -1])
            return {"op": "downsample", "levels": lv, "dims": dims, "min_size": rng.choice([1, 1, 2, 4]), "ac": ac}
        if kind == "upsample":
            lv = rng.choice([0, 1, 1, 2, -1]) if max(n) <= 64 else rng.choice([0, -1])
            return {"op": "upsample", "levels": lv, "dims": dims, "ac": ac}
        lv = rng.choice([0, 1, 2, 3])
        return {"op": "pyramid_level", "levels": lv, "dims": dims, "min_size": rng.choice([0, 0, 2, 4]),
                "level": rng.randint(0, lv)}
    if kind in ("crop", "pad"):
        sign = 1 if kind == "crop" else -1
        form = rng.choice(["all", "margin", "num", "num"])

        def border(i):
            # keep at least two samples most of the time; either sign
            hi = max(0, (n[i] - 2) // 2)
            v = rng.randint(-3, hi) if rng.random() < 0.85 else rng.randint(-4, n[i] + 2)
            return sign * v

        if form == "all":
            v = sign * rng.randint(-2, max(0, (min(n) - 2) // 2))
            return {"op": kind, "form": "all", "value": v, "positional": rng.random() < 0.3,
                    "kw": rng.choice(["margin", "num"])}
        if form == "margin":
            k = rng.choice([d, d, rng.randint(1, d)])
            return {"op": kind, "form": "margin", "value": [border(i) for i in range(k)],
                    "positional": k >= 2 and rng.random() < 0.3}
        k = rng.choice([2 * d, 2 * d, 2 * rng.randint(1, d)])
        return {"op": kind, "form": "num", "value": [border(i // 2) for i in range(k)]}
    if kind == "center_crop":
        return {"op": "center_crop", "size": [rng.randint(1, n[i] + 4) for i in range(d)]}
    if kind == "center_pad":
        return {"op": "center_pad", "size": [rng.randint(1, n[i] + 6) for i in range(d)]}
    if kind == "narrow":
        dim = rng.randrange(d)
        start = rng.randint(0, max(0, n[dim] - 2))
        return {"op": "narrow", "dim": dim, "start": start, "length": rng.randint(1, max(1, n[dim] - start))}
    if kind == "roi":
        start = [rng.randint(0, max(0, n[i] - 2)) for i in range(d)]
        return {"op": "roi", "start": start, "size": [rng.randint(1, max(1, n[i] - start[i])) for i in range(d)]}
    if kind == "pool":
        ks = [rng.choice([1, 2, 2, 3]) for _ in range(d)]
        if rng.random() < 0.4:
            ks = [ks[0]] * d
        ks = [min(k, max(1, n[i])) for i, k in enumerate(ks)]
        return {"op": "pool", "ks": ks, "ceil": rng.random() < 0.4, "avg": rng.random() < 0.3}
    raise ValueError(kind)


def gen_chain_case(rng: random.Random, length: int, kinds: Optional[List[str]] = None, d: Optional[int] = None) -> dict:
    d = d or rng.choice([2, 3])
    spec = gen.grid_spec(rng, d, min_size=2, max_size=24)
    g = gen.make_grid(spec)
    ops: List[dict] = []
    for _ in range(length):
        op = gen_op(rng, g, rng.choice(kinds) if kinds else None)
        ops.append(op)
        try:
            g = apply_op(g, op)
        except Exception:
            break  # the chain ends with the operation that raises (the streams compare the rejection too)
        if "error" in describe(g) or max(g.size()) > 400:
            break
    return {"grid": spec, "ops": ops}


def gen_derive(rng: random.Random, tier: str):
    """one derivation per case; every method the same number of times"""
    for _ in range(_n(tier, 50, 1500)):
        for kind in RESIZE_FAMILY + INDEX_FAMILY:
            yield gen_chain_case(rng, 1, [kind])


def gen_chain(rng: random.Random, tier: str):
    max_len = 3 if tier == "quick" else 6
    for _ in range(_n(tier, 600, 12000)):
        yield gen_chain_case(rng, rng.randint(2, max_len))


def impl_chain(c):
    return {"steps": run_chain_impl(c["grid"], c["ops"])}


def line_chain(c):
    g = gen.make_grid(c["grid"])
    d = g.ndim
    ops = " ".join(op_tokens(op, d) for op in c["ops"])
    return f"gridop.chain {d} {proto.grid(g)} {len(c['ops'])} {ops}"


def parse_grid_full(s: str, d: int) -> dict:
    parts = [p.split() for p in s.split("|")]
    core, origin, sizes, cext = parts
    fr = [Fraction(t) for t in core[:-1]]
    return {"size_f": fr[0:d], "center": fr[d:2 * d], "spacing": fr[2 * d:3 * d], "direction": fr[3 * d:3 * d + d * d],
            "ac": core[-1] == "1", "origin": [Fraction(t) for t in origin], "size": [int(t) for t in sizes],
            "cube_extent": [Fraction(t) for t in cext]}


def _spec_scale(spec: dict) -> float:
    pos = spec.get("origin", spec.get("center"))
    return max([1.0] + [abs(v) for v in pos] + [n * h for n, h in zip(spec["size"], spec["spacing"])])


def cmp_step(i: int, name: str, r: dict, m: dict, scale: float) -> Optional[str]:
    """None = agree, 'AMBIG' = ceil of a near-integer float size differs, else text."""
    pre = f"step {i} ({name}): "
    why = close(r["size_f"], m["size_f"], SIZE_RTOL)
    if why:
        return pre + "float-valued size: " + why
    if r["size"] != m["size"]:
        for a, b, sf in zip(r["size"], m["size"], m["size_f"]):
            if a != b and abs(float(sf) - round(float(sf))) > 1e-4 * max(1.0, abs(float(sf))):
                return pre + f"size() differs: impl {r['size']} vs model {m['size']}"
        return "AMBIG"
    if r["ac"] != m["ac"]:
        return pre + f"align_corners differs: impl {r['ac']} vs model {m['ac']}"
    why = close(r["direction"], m["direction"], 1e-6)
    if why:
        return pre + "direction: " + why
    sc_sp = max(abs(float(v)) for v in m["spacing"]) or 1.0
    why = close([v / sc_sp for v in r["spacing"]], [v / Fraction(sc_sp) for v in m["spacing"]], RTOL32)
    if why:
        return pre + "spacing (relative): " + why
    scale = max([scale] + [abs(float(v)) for v in m["cube_extent"]])
    for k in ("center", "origin", "cube_extent"):
        why = close(r[k], m[k], RTOL32, scale)
        if why:
            return pre + k + ": " + why
    return None


def cmp_chain(c, r, out):
    if isinstance(r, str):
        return f"impl raised {r}, model gave {out[:80]}"
    d = len(c["grid"]["size"])
    steps_m = [s.strip() for s in out.split(" ; ")] if out else []
    if out.startswith("bad-op"):
        return f"model error {out[:100]}"
    scale = _spec_scale(c["grid"])
    for i, ri in enumerate(r["steps"]):
        name = c["ops"][i]["op"]
        if i >= len(steps_m):
            return f"step {i} ({name}): model stopped earlier"
        mi = steps_m[i]
        if "error" in ri:
            e = ri["error"]
            if e.startswith("err:assert:_resize-"):
                # rounding-only internal assertion (finding reported by the oracle): model has a result here
                if mi == "err:nonfinite":
                    STATS["nonfinite_steps"] += 1   # inf/nan spacing trips the assertion: division by zero, not rounding
                    return None
                STATS["impl_raised_resize_assert"] += 1
                if proto.is_error(mi):
                    return f"step {i} ({name}): impl raised {e}, model gave {mi}"
                # the raise must be rounding-only: with the assertion bypassed the code returns the model's grid
                byp = ri.get("bypassed", {})
                if "error" in byp:
                    return f"step {i} ({name}): impl raised {e}; bypassed result is {byp['error']}, model gave a grid"
                why = cmp_step(i, name, byp, parse_grid_full(mi, d), scale)
                if why == "AMBIG":
                    STATS["ceil_ambiguous"] += 1
                    return None
                if why:
                    return f"impl raised {e} and not because of rounding: " + why
                return None
            kind = e.split(":")[1]
            if not proto.is_error(mi):
                return f"step {i} ({name}): impl gave {e}, model gave a grid"
            mk = mi.split(":")[1]
            if (kind == "value") != (mk == "value") or (kind == "nonfinite") != (mk == "nonfinite"):
                return f"step {i} ({name}): impl gave {e}, model gave {mi}"
            STATS["rejections_agree" if kind == "value" else "nonfinite_steps"] += 1
            return None
        if proto.is_error(mi):
            return f"step {i} ({name}): model gave {mi}, impl returned a grid {ri['size']}"
        why = cmp_step(i, name, ri, parse_grid_full(mi, d), scale)
        if why == "AMBIG":
            STATS["ceil_ambiguous"] += 1
            return None
        if why:
            return why
        STATS["steps_compared"] += 1
    return None


# ------------------------------------------------------------------ stream: whole pyramids
def gen_pyramid(rng: random.Random, tier: str):
    for _ in range(_n(tier, 60, 2500)):
        d = rng.choice([2, 3])
        spec = gen.grid_spec(rng, d, min_size=2, max_size=rng.choice([24, 24, 70]))
        lv = rng.choice([0, 1, 2, 3, 4])
        dims = rng.choice([[], [], sorted(rng.sample(range(d), rng.randint(1, d)))])
        yield {"grid": spec, "levels": lv, "dims": dims, "min_size": rng.choice([0, 0, 1, 2, 5])}


def impl_pyramid(c):
    g = gen.make_grid(c["grid"])
    raised = None
    try:
        pyr = g.pyramid(c["levels"], dims=c["dims"] or None, min_size=c["min_size"])
    except AssertionError as e:
        raised = _classify_assert(e)
        if not raised:
            raise
        with bypass_resize_asserts():
            pyr = g.pyramid(c["levels"], dims=c["dims"] or None, min_size=c["min_size"])
    except ValueError as e:
        return "err:value:" + str(e)[:60]
    keys = sorted(pyr.keys())
    if keys != list(range(c["levels"] + 1)):
        return f"err:keys:{keys}"
    return {"levels": [describe(pyr[k]) for k in keys], "same_domain": [bool(pyr[k].same_domain_as(pyr[0])) for k in keys],
            "raised": raised}


def line_pyramid(c):
    g = gen.make_grid(c["grid"])
    dims = c["dims"]
    return (f"gridop.pyramid {g.ndim} {proto.grid(g)} {c['levels']} {len(dims)} " +
            " ".join(str(v) for v in dims) + f" {c['min_size']}").replace("  ", " ")


def cmp_pyramid(c, r, out):
    if isinstance(r, dict) and r.get("raised"):
        STATS["impl_raised_resize_assert"] += 1     # levels below are those returned with the assertion bypassed
    if isinstance(r, str):
        if r.startswith("err:value") and out.startswith("err:value"):
            STATS["rejections_agree"] += 1   # negative level size (size/2^levels < 1): both reject
            return None
        return f"impl raised {r}, model gave {out[:80]}"
    d = len(c["grid"]["size"])
    steps_m = [s.strip() for s in out.split(" ; ")]
    if len(steps_m) != len(r["levels"]):
        return f"model has {len(steps_m)} levels, impl {len(r['levels'])}: {out[:80]}"
    scale = _spec_scale(c["grid"])
    for i, (ri, mi) in enumerate(zip(r["levels"], steps_m)):
        if "error" in ri or proto.is_error(mi):
            if ("error" in ri) != proto.is_error(mi):
                return f"level {i}: impl {ri.get('error', 'grid')} vs model {mi[:40]}"
            continue
        why = cmp_step(i, "pyramid", ri, parse_grid_full(mi, d), scale)
        if why:
            return why
    return None


# ------------------------------------------------------------------ stream: the integer recurrence, exhaustively
def gen_pyr_sizes(rng: random.Random, tier: str):
    for n in range(1, 129):
        for lv in range(0, 5):
            for ac in (False, True):
                for ms in (0, 2, 5):
                    yield {"n": n, "levels": lv, "ac": ac, "min_size": ms}


def impl_pyr_sizes(c):
    # unit spacing, centred at 0: the _resize assertions never fire here (origin is not near zero relative to itself)
    g = Grid(size=(c["n"], 7), align_corners=c["ac"])
    try:
        pyr = g.pyramid(c["levels"], dims=(0,), min_size=c["min_size"])
    except AssertionError as e:
        if not _classify_assert(e):
            raise
        STATS["impl_raised_resize_assert"] += 1
        with bypass_resize_asserts():
            pyr = g.pyramid(c["levels"], dims=(0,), min_size=c["min_size"])
    return {"sizes": [int(pyr[k].size(0)) for k in range(c["levels"] + 1)],
            "other": [int(pyr[k].size(1)) for k in range(c["levels"] + 1)]}


def line_pyr_sizes(c):
    return f"gridop.pyramid_sizes {c['n']} {c['levels']} {1 if c['ac'] else 0} {c['min_size']}"


def cmp_pyr_sizes(c, r, out):
    if isinstance(r, str):
        # negative size -> ValueError in resize: the model must show a negative entry
        if r.startswith("err:value") and any(int(t) < 0 for t in out.split()):
            return None
        return f"impl raised {r}, model gave {out}"
    m = [int(t) for t in out.split()]
    if r["sizes"] != m:
        return f"impl sizes {r['sizes']} vs model {m}"
    if any(v != 7 for v in r["other"]):
        return f"axis not in dims changed: {r['other']}"
    return None


# ------------------------------------------------------------------ stream: Grid.cube / Cube.grid
def gen_cube(rng: random.Random, tier: str):
    for _ in range(_n(tier, 80, 3000)):
        d = rng.choice([2, 3])
        spec = gen.grid_spec(rng, d, min_size=2, max_size=24)
        yield {"grid": spec, "size": [rng.randint(2, 30) for _ in range(d)], "ac": rng.random() < 0.5,
               "form": rng.choice(["size", "shape"])}


def impl_cube(c):
    g = gen.make_grid(c["grid"])
    cube = g.cube()
    if c["form"] == "size":
        h = cube.grid(size=c["size"], align_corners=c["ac"])
    else:
        h = cube.grid(shape=list(reversed(c["size"])), align_corners=c["ac"])
    return {"cube": {"extent": proto.flat(cube.extent()), "center": proto.flat(cube.center()),
                     "direction": proto.flat(cube.direction())}, "grid": describe(h)}


def line_cube(c):
    g = gen.make_grid(c["grid"])
    cube = g.cube()
    return (f"gridop.cube_grid {g.ndim} {proto.vec(proto.flat(cube.extent()))} {proto.vec(proto.flat(cube.center()))} "
            f"{proto.vec(proto.flat(cube.direction()))} {' '.join(str(v) for v in c['size'])} {1 if c['ac'] else 0}")


def line_cube_of(c):
    g = gen.make_grid(c["grid"])
    return f"gridop.cube {g.ndim} {proto.grid(g)}"


def cmp_cube(c, r, out):
    if isinstance(r, str):
        return f"impl raised {r}, model gave {out[:80]}"
    if proto.is_error(out):
        return f"model error {out}"
    d = len(c["grid"]["size"])
    return cmp_step(0, "Cube.grid", r["grid"], parse_grid_full(out, d), _spec_scale(c["grid"]))


def cmp_cube_of(c, r, out):
    if isinstance(r, str):
        return f"impl raised {r}, model gave {out[:80]}"
    if proto.is_error(out):
        return f"model error {out}"
    e, ce, di = [[Fraction(t) for t in p.split()] for p in out.split("|")]
    sc = _spec_scale(c["grid"])
    return (close(r["cube"]["extent"], e, RTOL32, sc) or close(r["cube"]["center"], ce, RTOL32, sc)
            or close(r["cube"]["direction"], di, 1e-6))


_nt = lambda c: gen.grid_nontrivial(c["grid"])

STREAMS = [
    Stream("derive", gen_derive, impl_chain, line_chain, cmp_chain, nontrivial=_nt,
           doc="each of the 14 derivation methods on random grids with random arguments in every accepted form; "
               "returned _size, size(), center, origin(), spacing, direction, align_corners, cube_extent()"),
    Stream("chain", gen_chain, impl_chain, line_chain, cmp_chain, nontrivial=_nt,
           doc="chains of 2..3 (quick) / 2..6 (thorough) derivations, every intermediate grid compared"),
    Stream("pyramid", gen_pyramid, impl_pyramid, line_pyramid, cmp_pyramid, nontrivial=_nt,
           doc="Grid.pyramid(levels, dims, min_size): every level"),
    Stream("pyramid_sizes", gen_pyr_sizes, impl_pyr_sizes, line_pyr_sizes, cmp_pyr_sizes, exhaustive=True,
           nontrivial=lambda c: c["levels"] > 0,
           doc="integer size recurrence of Grid.pyramid for every n in [1,128] x levels 0..4 x align_corners x min_size"),
    Stream("cube_grid", gen_cube, impl_cube, line_cube, cmp_cube, nontrivial=_nt,
           doc="Grid.cube().grid(size|shape, align_corners)"),
    Stream("cube_of", gen_cube, impl_cube, line_cube_of, cmp_cube_of, nontrivial=_nt, doc="Grid.cube()"),
]


# ------------------------------------------------------------------ property oracles (implementation only)
def _tol(spec_or_scale) -> float:
    s = spec_or_scale if isinstance(spec_or_scale, float) else _spec_scale(spec_or_scale)
    return RTOL32 * s


def _i2w(g: Grid, idx) -> torch.Tensor:
    return g.index_to_world(torch.tensor(idx, dtype=torch.float64), decimals=None).double()


def _maxdiff(a, b) -> float:
    return float((torch.as_tensor(a).double() - torch.as_tensor(b).double()).abs().max())


def _guard(name: str, fn):
    """Run a derivation. Returns (grid, fatal, pending): `fatal` = finding for an exception on a valid input;
    `pending` = finding for an AssertionError of the _resize allclose() assertions, in which case `grid` is the
    result with exactly those assertions bypassed — the caller keeps checking the property on it, so that a raise
    that is *not* rounding-only is reported under the key of the clause it breaks, and returns `pending` last."""
    try:
        return fn(), None, None
    except ResizeAssert as e:
        key = KEY_ORIGIN if e.which == "origin" else KEY_EXTENT if e.which == "extent" else "C03:_resize:assert-unknown"
        return e.grid, None, (key, f"{name}: AssertionError from allclose({e.which}) in Grid._resize although the "
                              "returned grid would satisfy the property (rounding only)")
    except Exception as e:  # noqa: BLE001
        return None, (f"C03:{name}:raises:{type(e).__name__}", f"{name} raised {type(e).__name__}: {str(e)[:120]}"), None


def _in_quantifier(g: Grid, op: dict) -> bool:
    """Arguments inside the property's quantifier (sizes >= 2, size/2^levels >= 2, positive spacing)."""
    n = [int(v) for v in g.size()]
    k = op["op"]
    if min(proto.flat(g._spacing)) <= 0 or min(n) < 1:
        return False
    if k in RESIZE_FAMILY and min(n) < 2:
        eff = op.get("ac")
        eff = g.align_corners() if eff is None else eff
        if eff:
            return False   # corner alignment of a one-sample axis is degenerate (zero cube extent)
    if k == "downsample":
        return op["levels"] >= 0 and all(v / 2 ** op["levels"] >= 2 for v in n)
    if k == "pyramid_level":
        return all(v / 2 ** op["levels"] >= 2 for v in n)
    if k == "upsample":
        return op["levels"] >= 0
    if k == "resample":
        sp = op["spacing"]
        sp = sp if isinstance(sp, list) else [sp] * g.ndim
        ext = proto.flat(g.extent())
        return all(e / s >= 2 for e, s in zip(ext, sp))
    if k == "resample_iso":
        ext = proto.flat(g.extent())
        s = max(proto.flat(g._spacing)) if op["which"] == "max" else min(proto.flat(g._spacing))
        return all(e / s >= 2 for e in ext)
    return True


def check_resize_family(c):
    spec, op = c["grid"], c["op"]
    g = gen.make_grid(spec)
    if not _in_quantifier(g, op):
        return None
    name = op["op"]
    h, bad, pending = _guard(name, lambda: apply_op(g, op))
    if bad:
        return bad
    return _check_resized(spec, g, op, h) or pending


def _check_resized(spec, g, op, h):
    name = op["op"]
    tol = _tol(spec)
    if _maxdiff(h.center(), g.center()) > tol:
        return (f"C03:{name}:center", f"center moved from {g.center().tolist()} to {h.center().tolist()}")
    if _maxdiff(h.direction(), g.direction()) > 1e-6:
        return (f"C03:{name}:direction", "direction changed")
    if h.align_corners() != g.align_corners():
        return (f"C03:{name}:align_corners", "align_corners flag changed")
    ac = op.get("ac")
    ac = g.align_corners() if ac is None else ac
    n0 = torch.tensor([float(v) for v in g.size()], dtype=torch.float64)
    n1 = torch.tensor([float(v) for v in h.size()], dtype=torch.float64)
    if name in ("resize", "reshape"):
        want = list(op["size"]) if name == "resize" else list(reversed(op["shape"]))
        if [int(v) for v in h.size()] != want:
            return (f"C03:{name}:size", f"size {list(h.size())} != requested {want}")
    if name in ("resample", "resample_iso"):
        # extent covers the old extent, by less than one new spacing; exactly equal when divisible
        e0, e1, s1 = g.extent().double(), h.extent().double(), h.spacing().double()
        if ((e1 - e0) < -tol).any() or ((e1 - e0) > s1 + tol).any():
            return (f"C03:{name}:extent", f"extent {e0.tolist()} -> {e1.tolist()} with spacing {s1.tolist()}")
        if name == "resample" and h is not g:
            sp = op["spacing"]
            sp = sp if isinstance(sp, list) else [sp] * g.ndim
            if _maxdiff(h.spacing(), torch.tensor(sp)) > 1e-6 * max(sp):
                return ("C03:resample:spacing", f"spacing {h.spacing().tolist()} != requested {sp}")
        return None
    if ac:
        if _maxdiff(h.origin(), g.origin()) > tol:
            return (f"C03:{name}:corner-origin", f"align_corners=True but origin moved {g.origin().tolist()} -> "
                    f"{h.origin().tolist()}")
        if _maxdiff(_i2w(h, (n1 - 1).tolist()), _i2w(g, (n0 - 1).tolist())) > tol:
            return (f"C03:{name}:corner-last", "align_corners=True but the last sample moved")
    else:
        if _maxdiff(h.extent(), g.extent()) > tol:
            return (f"C03:{name}:extent", f"align_corners=False but extent changed {g.extent().tolist()} -> "
                    f"{h.extent().tolist()}")
    if name == "pyramid_level" or op.get("ac") is None:
        if _maxdiff(h.cube_extent(), g.cube_extent()) > tol:
            return (f"C03:{name}:cube_extent", f"cube extent changed {g.cube_extent().tolist()} -> "
                    f"{h.cube_extent().tolist()}")
        if not h.same_domain_as(g):
            return (f"C03:{name}:same_domain_as", "same_domain_as(original) is False")
    return None


def gen_resize_family(rng: random.Random, tier: str):
    for _ in range(_n(tier, 60, 3000, 800)):
        for kind in RESIZE_FAMILY:
            spec = gen.grid_spec(rng, rng.choice([2, 3]), min_size=2, max_size=40)
            g = gen.make_grid(spec)
            op = gen_op(rng, g, kind)
            if kind == "upsample" and op["levels"] < 0:
                op["levels"] = 1
            yield {"grid": spec, "op": op}
    # plain grids whose origin is at zero: the class on which the _resize assertion is known to misfire
    for _ in range(_n(tier, 40, 400, 100)):
        d = rng.choice([2, 3])
        spec = {"size": [rng.randint(2, 40) for _ in range(d)], "spacing": [round(rng.uniform(0.3, 3.0), 2) for _ in range(d)],
                "direction": [[1.0 if i == j else 0.0 for j in range(d)] for i in range(d)], "align_corners": True,
                "origin": [0.0] * d}
        yield {"grid": spec, "op": {"op": "resize", "size": [rng.randint(2, 64) for _ in range(d)], "ac": None}}


def check_down_up(c):
    spec = c["grid"]
    g = gen.make_grid(spec)
    lv, ac = c["levels"], c["ac"]
    n = [int(v) for v in g.size()]
    if any(v / 2 ** lv < max(2, c["min_size"]) for v in n):
        return None   # an axis would be clamped / leaves the quantifier
    dims = c["dims"] or None
    # the same total number of levels may be taken in several separate calls (chains of operations): the fractional
    # internal size must survive between the calls
    steps = c.get("split") or [lv]
    down, pend1 = g, None
    for k in steps:
        down, bad, pk = _guard("downsample", lambda: apply_op(down, {"op": "downsample", "levels": k, "dims": c["dims"],
                                                                     "min_size": c["min_size"], "ac": ac}))
        if bad:
            return bad
        pend1 = pend1 or pk
    up, bad, pend2 = _guard("upsample", lambda: apply_op(down, {"op": "upsample", "levels": lv, "dims": c["dims"],
                                                                "ac": ac}))
    if bad:
        return bad
    return _check_down_up(spec, g, down, up) or pend1 or pend2


def _check_down_up(spec, g, down, up):
    n = [int(v) for v in g.size()]
    tol = _tol(spec)
    if [int(v) for v in up.size()] != n or _maxdiff(up._size, g._size) > 0:
        return ("C03:down-up:size", f"size {n} -> {list(down.size())} -> {list(up.size())}")
    if _maxdiff(up.spacing(), g.spacing()) > RTOL32 * float(g.spacing().max()):
        return ("C03:down-up:spacing", f"spacing {g.spacing().tolist()} -> {up.spacing().tolist()}")
    if _maxdiff(up.center(), g.center()) > tol or _maxdiff(up.origin(), g.origin()) > tol:
        return ("C03:down-up:position", "downsample followed by upsample moved the grid")
    if _maxdiff(up.direction(), g.direction()) > 1e-6:
        return ("C03:down-up:direction", "direction changed")
    return None


def gen_down_up(rng: random.Random, tier: str):
    for _ in range(_n(tier, 150, 5000, 1500)):
        d = rng.choice([2, 3])
        spec = gen.grid_spec(rng, d, min_size=4, max_size=70)
        lv = rng.choice([1, 1, 2, 3])
        split = None
        if lv >= 2 and rng.random() < 0.5:
            split = [1] * lv if rng.random() < 0.5 else [1, lv - 1]
        yield {"grid": spec, "levels": lv, "ac": rng.choice([None, None, True, False]),
               "dims": rng.choice([[], [], sorted(rng.sample(range(d), rng.randint(1, d)))]),
               "min_size": rng.choice([1, 1, 2]), "split": split}


def check_pyramid(c):
    spec = c["grid"]
    g = gen.make_grid(spec)
    lv = c["levels"]
    n = [int(v) for v in g.size()]
    if any(v / 2 ** lv < 2 for v in n):
        return None
    pyr, bad, pending = _guard("pyramid", lambda: _pyr(g, lv, c["dims"], c["min_size"]))
    if bad:
        return bad
    return _check_pyramid_levels(c, g, pyr) or pending


def _check_pyramid_levels(c, g, pyr):
    spec, lv = c["grid"], c["levels"]
    n = [int(v) for v in g.size()]
    tol = _tol(spec)
    ac = g.align_corners()
    dims = c["dims"] or list(range(g.ndim))
    for k in range(lv + 1):
        h = pyr[k]
        if _maxdiff(h.center(), g.center()) > tol or _maxdiff(h.direction(), g.direction()) > 1e-6:
            return ("C03:pyramid:frame", f"level {k}: center/direction differ from the original grid")
        if _maxdiff(h.cube_extent(), g.cube_extent()) > tol:
            return ("C03:pyramid:cube_extent", f"level {k}: cube extent {h.cube_extent().tolist()} vs "
                    f"{g.cube_extent().tolist()}")
        if not h.same_domain_as(g) or not h.same_domain_as(pyr[0]):
            return ("C03:pyramid:same_domain_as", f"level {k} does not cover the same domain")
        if ac and _maxdiff(h.origin(), g.origin()) > tol:
            return ("C03:pyramid:corner-origin", f"level {k}: origin moved")
        for i in range(g.ndim):
            if i not in dims and h.size(i) != n[i]:
                return ("C03:pyramid:dims", f"level {k}: axis {i} not in dims changed size")
    # when the sizes divide exactly every level halves the number of cells and level 0 is the grid itself
    # (only stated for align_corners=True: the code uses the corner recurrence 2s-1 for both conventions, which is
    #  within the property as long as all levels cover the same domain)
    if c["min_size"] <= 2 and ac:
        for i in dims:
            cells = n[i] - 1
            if cells % (2 ** lv) == 0:
                for k in range(lv + 1):
                    want = cells // 2 ** k + 1
                    if pyr[k].size(i) != want:
                        return ("C03:pyramid:sizes", f"axis {i} size {n[i]} level {k}: size {pyr[k].size(i)}, want {want}")
    return None


def _pyr(g, lv, dims, ms):
    try:
        return g.pyramid(lv, dims=dims or None, min_size=ms)
    except AssertionError as e:
        which = _classify_assert(e)
        if which:
            with bypass_resize_asserts():
                pyr = g.pyramid(lv, dims=dims or None, min_size=ms)
            raise ResizeAssert(which, pyr) from e
        raise


def gen_pyramid_oracle(rng: random.Random, tier: str):
    for _ in range(_n(tier, 100, 3000, 800)):
        d = rng.choice([2, 3])
        spec = gen.grid_spec(rng, d, min_size=4, max_size=70)
        yield {"grid": spec, "levels": rng.choice([1, 2, 3]), "min_size": rng.choice([0, 0, 1, 2]),
               "dims": rng.choice([[], [], sorted(rng.sample(range(d), rng.randint(1, d)))])}


def _sample_indices(rng_seed: int, size: List[int]) -> List[List[int]]:
    r = random.Random(rng_seed)
    pts = [[0] * len(size), [max(0, n - 1) for n in size]]
    for _ in range(4):
        pts.append([r.randrange(max(1, n)) for n in size])
    return pts


def check_index_family(c):
    spec, op = c["grid"], c["op"]
    g = gen.make_grid(spec)
    name = op["op"]
    h, bad, _ = _guard(name, lambda: apply_op(g, op))
    if bad:
        return bad
    d = g.ndim
    n = [int(v) for v in g.size()]
    tol = _tol(spec)
    ks = op["ks"] if name == "pool" else [1] * d
    want_sp = g.spacing().double() * torch.tensor(ks, dtype=torch.float64)
    if _maxdiff(h.spacing(), want_sp) > 1e-5 * float(want_sp.max()):
        return (f"C03:{name}:spacing", f"spacing {g.spacing().tolist()} -> {h.spacing().tolist()}")
    if _maxdiff(h.direction(), g.direction()) > 1e-6:
        return (f"C03:{name}:direction", "direction changed")
    if h.align_corners() != g.align_corners():
        return (f"C03:{name}:align_corners", "align_corners flag changed")
    # expected first retained index and size, straight from the documentation of each method
    if name in ("crop", "pad"):
        sign = 1 if name == "crop" else -1
        form, v = op["form"], op["value"]
        if form == "all" and op.get("positional"):
            num = [v, v]          # one positional int is taken as margin=(v,): X axis only (argument parsing, see FINDINGS)
        elif form == "all":
            num = [v] * (2 * d)
        elif form == "margin":
            num = [x for m in v for x in (m, m)]
        else:
            num = list(v)
        num = num + [0] * (2 * d - len(num))
        first = [sign * num[2 * i] for i in range(d)]
        size = [max(1, n[i] - sign * (num[2 * i] + num[2 * i + 1])) for i in range(d)]
    elif name == "center_crop":
        size = [min(n[i], op["size"][i]) for i in range(d)]
        first = [(n[i] - size[i]) // 2 for i in range(d)]
    elif name == "center_pad":
        size = [max(n[i], op["size"][i]) for i in range(d)]
        first = [-((size[i] - n[i]) // 2) for i in range(d)]
    elif name == "narrow":
        size = [op["length"] if i == op["dim"] else n[i] for i in range(d)]
        first = [op["start"] if i == op["dim"] else 0 for i in range(d)]
    elif name == "roi":
        size = [max(1, v) for v in op["size"]]
        first = list(op["start"])
    else:  # pool
        size = [(-(-n[i] // ks[i])) if op["ceil"] else n[i] // ks[i] for i in range(d)]
        first = None
    if [int(v) for v in h.size()] != size:
        return (f"C03:{name}:size", f"size {list(h.size())}, want {size} (from {n}, {op})")
    for j in _sample_indices(c.get("seed", 0), size):
        if name == "pool":
            # centroid of the pooled samples
            box = itertools.product(*[range(ks[i]) for i in range(d)])
            pts = torch.stack([_i2w(g, [j[i] * ks[i] + r[i] for i in range(d)]) for r in box])
            want = pts.mean(0)
        else:
            want = _i2w(g, [j[i] + first[i] for i in range(d)])
        got = _i2w(h, j)
        if _maxdiff(got, want) > tol:
            what = "centroid of the pooled samples" if name == "pool" else f"old sample {[a + b for a, b in zip(j, first)]}"
            return (f"C03:{name}:sample-position", f"new sample {j} is at {got.tolist()}, {what} is at {want.tolist()}")
    return None


def gen_index_family(rng: random.Random, tier: str):
    for _ in range(_n(tier, 60, 1500, 600)):
        for kind in INDEX_FAMILY:
            spec = gen.grid_spec(rng, rng.choice([2, 3]), min_size=2, max_size=24)
            g = gen.make_grid(spec)
            yield {"grid": spec, "op": gen_op(rng, g, kind), "seed": rng.randrange(1 << 30)}


def check_chain(c):
    """chains: every step succeeds; resizing steps keep center/direction, index steps keep spacing/direction and
    the accumulated world position of sample 0."""
    spec = c["grid"]
    g = gen.make_grid(spec)
    tol = _tol(spec) * 2
    cur = g
    pending = None
    for k, op in enumerate(c["ops"]):
        if not _in_quantifier(cur, op):
            return None
        if op["op"] in ("crop", "pad", "roi", "narrow", "center_crop", "center_pad", "pool") and min(cur.size()) < 1:
            return None
        nxt, bad, pend = _guard(op["op"], lambda: apply_op(cur, op))
        if bad:
            return (bad[0], f"chain step {k}: " + bad[1])
        if pend and not pending:
            pending = (pend[0], f"chain step {k}: " + pend[1])
        if "error" in describe(nxt):
            return None   # division by zero (size 1 with aligned corners): outside the quantifier
        if _maxdiff(nxt.direction(), g.direction()) > 1e-6:
            return (f"C03:chain:{op['op']}:direction", f"step {k} changed the direction")
        if op["op"] in RESIZE_FAMILY:
            if _maxdiff(nxt.center(), cur.center()) > tol:
                return (f"C03:chain:{op['op']}:center", f"step {k} moved the center")
            sub = _check_resized(_spec_of(cur), cur, op, nxt) if _in_quantifier(cur, op) else None
            if sub is not None:
                return (sub[0].replace("C03:", "C03:chain:"), f"step {k}: " + sub[1])
        else:
            sub = check_index_family({"grid": _spec_of(cur), "op": op, "seed": k})
            if sub is not None and not sub[0].endswith(":size"):
                return (sub[0].replace("C03:", "C03:chain:"), f"step {k}: " + sub[1])
        cur = nxt
    return pending


def _spec_of(g: Grid) -> dict:
    return {"size": [float(v) for v in g._size.tolist()], "spacing": g._spacing.tolist(), "direction": g._direction.tolist(),
            "align_corners": g._align_corners, "center": g._center.tolist()}


def gen_chain_oracle(rng: random.Random, tier: str):
    for _ in range(_n(tier, 150, 5000, 1500)):
        yield gen_chain_case(rng, rng.randint(2, 3))


ORACLES = [
    Oracle("resize_family", gen_resize_family, check_resize_family, nontrivial=_nt,
           doc="resize/reshape/resample/downsample/upsample/pyramid level: never raise on valid input; center, "
               "direction kept; corners (align_corners) resp. extent kept; cube extent / same_domain_as"),
    Oracle("down_up", gen_down_up, check_down_up, nontrivial=_nt,
           doc="downsample(l) then upsample(l) returns the original grid when no axis is clamped"),
    Oracle("pyramid", gen_pyramid_oracle, check_pyramid, nontrivial=_nt,
           doc="all pyramid levels: same cube extent, center, direction, same_domain_as; halving sizes when divisible"),
    Oracle("index_family", gen_index_family, check_index_family, nontrivial=_nt,
           doc="crop/pad/narrow/ROI/center crop/center pad/pool: spacing (x kernel), direction kept; every retained "
               "sample keeps its world position (pool: centroid of pooled samples)"),
    Oracle("chain", gen_chain_oracle, check_chain, nontrivial=_nt,
           doc="chains of up to 3 derivations: no step raises; per-step invariants"),
]


def search_cases(disagreements: List[dict]) -> Dict[str, List[dict]]:
    """Disagreeing correspondence cases become oracle cases: each op of the chain on the grid it was applied to."""
    extra: Dict[str, List[dict]] = {"resize_family": [], "index_family": [], "chain": [], "pyramid": [], "down_up": []}
    for dsg in disagreements[:60]:
        c = dsg["case"]
        if "ops" in c:
            extra["chain"].append({"grid": c["grid"], "ops": c["ops"]})
            op = c["ops"][0]
            fam = "resize_family" if op["op"] in RESIZE_FAMILY else "index_family"
            extra[fam].append({"grid": c["grid"], "op": op, "seed": 1})
            if op["op"] == "pyramid_level":
                extra["pyramid"].append({"grid": c["grid"], "levels": op["levels"], "min_size": op["min_size"],
                                         "dims": op["dims"]})
            if op["op"] in ("downsample", "upsample") and op["levels"] > 0:
                extra["down_up"].append({"grid": c["grid"], "levels": op["levels"], "ac": op["ac"], "dims": op["dims"],
                                         "min_size": op.get("min_size", 1)})
        elif "levels" in c and "grid" in c:
            extra["pyramid"].append({"grid": c["grid"], "levels": c["levels"], "min_size": c["min_size"], "dims": c["dims"]})
        elif "n" in c:
            extra["pyramid"].append({"grid": {"size": [c["n"], 7], "spacing": [1.0, 1.0],
                                              "direction": [[1.0, 0.0], [0.0, 1.0]], "align_corners": c["ac"],
                                              "center": [0.0, 0.0]},
                                     "levels": c["levels"], "min_size": c["min_size"], "dims": [0]})
    return extra
