"""C04 — image operations move voxel data and sampling grid in lock-step."""
from __future__ import annotations

import math
import random
from typing import List, Optional

import torch

from deepali.core.enum import PaddingMode
from deepali.core.grid import Axes, Grid
from deepali.data.flow import FlowFields
from deepali.data.image import Image, ImageBatch

from lib import gen, proto
from lib.core import Oracle, Stream, close
from props.prim import PRIM_STREAMS

PROP = "C04"
ASSUMPTIONS = [
    "world-linear images: the expectation `a·world'(j)+b` is exact in real arithmetic by theorem C04_sample_ramp (sampling) and "
    "by the coordinate identities of C03 (resizing family, covered here by the oracle until the resize theorem is merged); "
    "values are compared with rtol 1e-3·(max|image|) because float32 grids carry ~1e-6 relative coordinate error",
    "'inside the original field of view' = target sample whose position lies within the hull of the source samples, minus "
    "one source sample of margin for operations that blur or pool",
    "torch primitives F.pad, F.interpolate, F.grid_sample, avg_pool behave as documented (prim.* streams)",
]
TRUSTED = ["Model/ImageOps.lean hand transcription of the index arithmetic in core/image.py, core/grid.py, data/image.py"]
RULE = ("operations x argument forms enumerated, arguments and oriented anisotropic grids drawn from one PRNG; batches of 1..3 "
        "images with distinct per-image grids; non-trivial = rotated or anisotropic grid and an argument that changes the size")


def _n(tier, quick, thorough, search=None):
    return {"quick": quick, "thorough": thorough, "search": search or quick * 3}[tier]


# ---------------------------------------------------------------- helpers
def code_image(g: Grid, channels=1) -> torch.Tensor:
    """data whose value is the flat sample index (+1), so that old indices can be read back"""
    n = g.numel()
    return (torch.arange(n, dtype=torch.float32) + 1).reshape((1,) + tuple(g.shape)).repeat(channels, *([1] * g.ndim))


def old_index_of(value: float, g: Grid) -> Optional[List[int]]:
    """(x, y, z) index encoded by `code_image`, or None for a fill value"""
    v = int(round(value)) - 1
    if v < 0 or v >= g.numel():
        return None
    idx = []
    for n in g.size():           # x fastest
        idx.append(v % n)
        v //= n
    return idx


def measure_first(new: torch.Tensor, g_old: Grid) -> Optional[List[int]]:
    """old index of new sample 0 (x first), measured from any in-range sample of the coded data"""
    t = new[0]
    nz = (t > 0.5).nonzero()
    if len(nz) == 0:
        return None
    pos = nz[0].tolist()                     # tensor order (…, y, x)
    old = old_index_of(float(t[tuple(pos)]), g_old)
    new_xyz = list(reversed(pos))
    return [o - j for o, j in zip(old, new_xyz)]


def grid_first(g_new: Grid, g_old: Grid) -> List[float]:
    w = g_new.origin().double()
    return [float(v) for v in g_old.world_to_index(w, decimals=None).double()]


def same_frame(g_new: Grid, g_old: Grid) -> Optional[str]:
    if (g_new.spacing() - g_old.spacing()).abs().max() > 1e-6 * float(g_old.spacing().max()):
        return "spacing changed"
    if (g_new.direction() - g_old.direction()).abs().max() > 1e-6:
        return "direction changed"
    return None


# ---------------------------------------------------------------- stream: index-only ops, offsets
INDEX_OPS = ["crop_margin", "crop_num", "pad_margin", "pad_num", "center_crop", "center_pad", "roi", "narrow", "conv"]


def gen_offsets(rng: random.Random, tier: str):
    for _ in range(_n(tier, 90, 3000)):
        d = rng.choice([2, 3])
        g = gen.grid_spec(rng, d, min_size=4, max_size=9)
        op = rng.choice(INDEX_OPS)
        n = g["size"]
        c = {"grid": g, "op": op, "api": rng.choice(["image", "batch"]), "item": rng.choice([0, 1])}
        if op in ("crop_margin", "pad_margin"):
            c["margin"] = rng.choice([rng.randint(-2, 1), [rng.randint(-2, 1) for _ in range(d)]])
        elif op in ("crop_num", "pad_num"):
            c["num"] = [rng.randint(-2, 1) for _ in range(2 * d)]
        elif op in ("center_crop", "center_pad"):
            c["size"] = rng.choice([rng.randint(2, 12), [rng.randint(2, 12) for _ in range(d)]])
        elif op == "roi":
            c["start"] = rng.choice([rng.randint(-2, 2), [rng.randint(-2, 2) for _ in range(d)]])
            c["size"] = rng.choice([rng.randint(2, 6), [rng.randint(2, 6) for _ in range(d)]])
        elif op == "narrow":
            c["item"] = 0
            c["dim"] = rng.randint(2, 1 + d)
            axis_n = list(reversed(n))[c["dim"] - 2]
            c["start"] = rng.randint(0, axis_n - 2)
            c["length"] = rng.randint(1, axis_n - c["start"])
        elif op == "conv":
            c["ks"] = [rng.choice([1, 3, 5]) for _ in range(d)]      # kernel sizes in TENSOR order (…, ky, kx)
            if all(k == 1 for k in c["ks"]):
                c["ks"][rng.randrange(d)] = 3
        yield c


def _apply_index_op(im, c):
    op = c["op"]
    if op == "crop_margin":
        return im.crop(margin=c["margin"])
    if op == "crop_num":
        return im.crop(num=c["num"])
    if op == "pad_margin":
        return im.pad(margin=c["margin"])
    if op == "pad_num":
        return im.pad(num=c["num"])
    if op == "center_crop":
        return im.center_crop(c["size"])
    if op == "center_pad":
        return im.center_pad(c["size"])
    if op == "roi":
        s = c["start"] if isinstance(c["start"], int) else tuple(c["start"])
        z = c["size"] if isinstance(c["size"], int) else tuple(c["size"])
        return im.region_of_interest(s, z)
    if op == "narrow":
        return im.narrow(c["dim"] - (0 if isinstance(im, ImageBatch) else 1), c["start"], c["length"])
    if op == "conv":
        ks = []
        for n in c["ks"]:                # centred deltas: values stay readable
            k = torch.zeros(n)
            k[n // 2] = 1.0
            ks.append(k)
        return im.conv(ks, padding=PaddingMode.NONE)
    raise ValueError(op)


def _make(c):
    g = gen.make_grid(c["grid"])
    g_other = g.center(g.center() + 3.0 * g.spacing())
    data = code_image(g)
    if c["api"] == "image":
        return Image(data, g), g, 0
    grids = [g_other, g] if c["item"] == 1 else [g, g_other]
    return ImageBatch(torch.stack([data, data]), grids), g, c["item"]


def impl_offsets(c):
    im, g, item = _make(c)
    out = _apply_index_op(im, c)
    if isinstance(out, ImageBatch):
        if len(out.grids()) != out.shape[0]:
            return f"err:grids:{len(out.grids())} grids for {out.shape[0]} items"
        new, g_new = out.tensor()[item], out.grid(item)
    else:
        new, g_new = out.tensor(), out.grid()
    if list(g_new.shape) != list(new.shape[1:]):
        return f"err:grid-shape:{list(g_new.shape)} vs data {list(new.shape[1:])}"
    why = same_frame(g_new, g)
    if why:
        return "err:frame:" + why
    tf = measure_first(new, g)
    gf = grid_first(g_new, g)
    return {"new_size": list(g_new.size()), "tensor_first": tf, "grid_first": gf}


def _axis_args(c, axis: int):
    """(op, a, b, c) of the model op for grid axis `axis` (x first)"""
    g = c["grid"]
    d = len(g["size"])
    n = g["size"][axis]
    op = c["op"]
    if op in ("crop_margin", "pad_margin"):
        m = c["margin"] if isinstance(c["margin"], int) else c["margin"][axis]
        return ("crop" if op.startswith("crop") else "pad", n, m, m)
    if op in ("crop_num", "pad_num"):
        return ("crop" if op.startswith("crop") else "pad", n, c["num"][2 * axis], c["num"][2 * axis + 1])
    if op in ("center_crop", "center_pad"):
        s = c["size"] if isinstance(c["size"], int) else c["size"][axis]
        return (op, n, s, 0)
    if op == "roi":
        s = c["start"] if isinstance(c["start"], int) else c["start"][axis]
        z = c["size"] if isinstance(c["size"], int) else c["size"][axis]
        return ("roi", n, s, z)
    if op == "narrow":
        ax = d - 1 - (c["dim"] - 2)
        if ax == axis:
            return ("narrow", n, c["start"], c["length"])
        return ("narrow", n, 0, n)
    if op == "conv":
        return ("conv", n, c["ks"][d - 1 - axis], 0)
    raise ValueError(op)


def line_offsets(c):
    # one driver line per axis is not possible in the single-line protocol: encode axis 0; other axes via extra lines below
    parts = []
    for axis in range(len(c["grid"]["size"])):
        op, a, b, cc = _axis_args(c, axis)
        parts.append(f"{op} {a} {b} {cc}")
    # the driver handles one axis per line; we send axis 0 here and compare the others in `cmp_offsets` via cached calls
    op, a, b, cc = _axis_args(c, 0)
    return f"imgop.axis {op} {a} {b} {cc}"


_AXIS_CACHE = {}


def _model_axis(op, a, b, cc):
    from lib import lean

    key = (op, a, b, cc)
    if key not in _AXIS_CACHE:
        _AXIS_CACHE[key] = lean.eval_lines([f"imgop.axis {op} {a} {b} {cc}"])[0]
    return _AXIS_CACHE[key]


def cmp_offsets(c, r, out0):
    if isinstance(r, str):
        return f"impl {r}"
    d = len(c["grid"]["size"])
    for axis in range(d):
        op, a, b, cc = _axis_args(c, axis)
        out = out0 if axis == 0 else _model_axis(op, a, b, cc)
        if proto.is_error(out):
            return f"model error {out}"
        tN, tF, gN, gF = [int(v) for v in out.split()]
        if r["new_size"][axis] != gN:
            return f"axis {axis}: grid size {r['new_size'][axis]} vs model {gN}"
        if tN != gN:
            return f"axis {axis}: model tensor size {tN} != model grid size {gN} (argument outside the agreed range?)"
        if r["tensor_first"] is not None and r["tensor_first"][axis] != tF:
            return f"axis {axis}: data offset {r['tensor_first'][axis]} vs model {tF}"
        if abs(r["grid_first"][axis] - gF) > 1e-3:
            return f"axis {axis}: grid origin at old index {r['grid_first'][axis]:.4f} vs model {gF}"
    return None


def _offsets_valid(c):
    """arguments for which at least one sample remains on every axis (the range the theorems cover)"""
    for axis in range(len(c["grid"]["size"])):
        op, a, b, cc = _axis_args(c, axis)
        if op == "crop" and a - b - cc < 1:
            return False
        if op == "pad" and a + b + cc < 1:
            return False
        if op == "conv" and a < b:
            return False
    return True


def gen_offsets_valid(rng, tier):
    for c in gen_offsets(rng, tier):
        if _offsets_valid(c):
            yield c


STREAMS = PRIM_STREAMS + [
    Stream("offsets", gen_offsets_valid, impl_offsets, line_offsets, cmp_offsets,
           nontrivial=lambda c: gen.grid_nontrivial(c["grid"]),
           doc="crop/pad (margin and per-border num of either sign), center_crop/center_pad, region_of_interest, narrow, conv "
               "on Image and ImageBatch (distinct per-item grids): new size, data offset measured from index-coded data and "
               "grid offset (world_to_index of the new origin) vs Model/ImageOps per axis, exactly"),
]


# ---------------------------------------------------------------- oracle: world-linear ramps through every operation
RAMP_OPS = ["resize", "resample", "downsample", "upsample", "downsample_neg", "upsample_neg", "pyramid", "avg_pool", "crop", "pad", "center_crop", "center_pad", "sample_single",
            "roi", "narrow", "conv", "sample"]


def ramp_image(g: Grid, a, b, c0=None) -> torch.Tensor:
    """I(x) = a·(x − c0) + b; c0 (default 0) keeps the values of the size of the field of view, so that half-sample
    errors are not hidden by a large world offset"""
    w = g.points(Axes.WORLD, dtype=torch.float64)
    if c0 is not None:
        w = w - torch.as_tensor(c0, dtype=torch.float64)
    return ((w * torch.tensor(a, dtype=torch.float64)).sum(-1) + b).float().unsqueeze(0)


def gen_ramp(rng: random.Random, tier: str):
    # an index-only operation applied to a grid whose stored size is fractional (odd size halved: 9 -> 4.5, data 5):
    # the pair (size-changing step, index-only step) is enumerated, the operation's own arguments stay random
    for first in ("downsample", "resample"):
        for second in ("center_crop", "center_pad", "crop", "pad", "roi", "narrow"):
            for k in range(_n(tier, 2, 8, 4)):
                d = 2 if k % 2 == 0 else 3
                gs = gen.grid_spec(rng, d, min_size=9, max_size=13 if d == 2 else 11)
                gs["size"] = [n if n % 2 == 1 else n + 1 for n in gs["size"]]
                yield {"grids": [gs], "ops": [first, second], "seed": rng.randrange(1 << 30),
                       "a": [round(rng.uniform(-1, 1), 3) for _ in range(d)], "b": round(rng.uniform(-5, 5), 2)}
    for k in range(_n(tier, 4, 12, 6)):      # a batch of images on DIFFERENT grids sampled on one common target grid
        d = 2 if k % 2 == 0 else 3
        g0 = gen.grid_spec(rng, d, min_size=8, max_size=12 if d == 2 else 9)
        g1 = dict(g0)
        key = "center" if "center" in g0 else "origin"
        g1[key] = [v + 1.7 * sp for v, sp in zip(g0[key], g0["spacing"])]
        yield {"grids": [g0, g1], "ops": ["sample_single"], "seed": rng.randrange(1 << 30),
               "a": [round(rng.uniform(-1, 1), 3) for _ in range(d)], "b": round(rng.uniform(-5, 5), 2)}
    for _ in range(_n(tier, 70, 2500, 300)):
        d = rng.choice([2, 2, 3])
        n = rng.choice([1, 2])
        grids = [gen.grid_spec(rng, d, min_size=8, max_size=14 if d == 2 else 10) for _ in range(n)]
        for gs in grids[1:]:
            gs["size"] = grids[0]["size"]
            gs["spacing"] = grids[0]["spacing"]       # resample() requires a common spacing
            gs["align_corners"] = grids[0]["align_corners"]
        ops = [rng.choice(RAMP_OPS) for _ in range(rng.choice([1, 1, 2, 3]))]
        yield {"grids": grids, "ops": ops, "seed": rng.randrange(1 << 30),
               "a": [round(rng.uniform(-1, 1), 3) for _ in range(d)], "b": round(rng.uniform(-5, 5), 2)}


def _apply_ramp_op(batch: ImageBatch, op: str, rng: random.Random):
    """returns (result batch, margin in result samples to exclude at the border)"""
    d = batch.sdim
    size = list(batch.grid().size())
    if op == "resize":
        new = [max(2, int(round(n * rng.uniform(0.6, 1.6)))) for n in size]
        return batch.resize(new, align_corners=rng.choice([None, True, False])), 0
    if op == "resample":
        sp = batch.grid().spacing() * rng.uniform(0.7, 1.5)
        return batch.resample(sp), 0
    if op in ("downsample", "upsample_neg") and min(size) < 4:
        return batch, 0              # quantifier (C03/C04): levels with size / 2^levels >= 2
    # down-sampling blurs with a truncated Gaussian (sigma 0.7355 per level -> radius 2 previous samples; two levels: 2 + 2*2):
    # samples an earlier step extrapolated (their ones-channel stays 1) must not lie within that footprint. The hull test
    # itself is not eroded: beyond the hull the blur pads with zeros, which the ones-channel carried through deepali sees.
    if op == "downsample":
        return batch.downsample(1, align_corners=rng.choice([None, None, True, False])), (0, 2)
    if op == "upsample":
        return batch.upsample(1, align_corners=rng.choice([None, None, True, False])), 0
    if op == "downsample_neg":      # negative levels delegate to the opposite operation
        return batch.downsample(-1, align_corners=rng.choice([None, None, True, False])), 0
    if op == "upsample_neg":
        return batch.upsample(-1, align_corners=rng.choice([None, None, True, False])), (0, 2)
    if op == "pyramid":
        if min(size) < 8:            # quantifier: levels with size / 2^levels >= 2
            return batch, 0
        levels = 2
        pyr = batch.pyramid(levels)
        return pyr[rng.choice(sorted(pyr))], (0, 6)
    if op == "avg_pool":
        if min(size) < 4:
            return batch, 0
        return batch.avg_pool(2), 0
    if op == "crop":
        num = [rng.randint(-1, 2) for _ in range(2 * d)]
        if any(size[i] - num[2 * i] - num[2 * i + 1] < 2 for i in range(d)):
            num = [0, 1] * d if min(size) >= 3 else [-1, 0] * d
        return batch.crop(num=num), 0
    if op == "pad":
        num = [rng.randint(-1, 2) for _ in range(2 * d)]
        if any(size[i] + num[2 * i] + num[2 * i + 1] < 2 for i in range(d)):
            num = [1, 0] * d
        return batch.pad(num=num), 0
    if op == "center_crop":
        return batch.center_crop([max(2, n - rng.randint(0, 3)) for n in size]), 0
    if op == "center_pad":
        return batch.center_pad([n + rng.randint(0, 3) for n in size]), 0
    if op == "roi":
        return batch.region_of_interest(rng.randint(0, 2), rng.randint(3, 5)), 0
    if op == "narrow":
        dim = rng.randint(2, 1 + d)
        n = batch.shape[dim]
        if n < 4:
            return batch, 0
        return batch.narrow(dim, 1, n - 2), 0
    if op == "conv":
        if min(size) < 3:
            return batch, 0
        k = torch.tensor([0.25, 0.5, 0.25])
        return batch.conv(k, padding=rng.choice([PaddingMode.NONE, PaddingMode.ZEROS])), 1
    if op == "sample":
        g0 = batch.grid(0)
        tgts = []
        for g in batch.grids():
            tgts.append(Grid(size=[max(2, n - 2) for n in g.size()], center=g.center() + 0.3 * g.spacing(),
                             spacing=g.spacing() * 0.9, direction=g.direction(), align_corners=not g.align_corners()))
        return batch.sample(tgts), 0
    if op == "sample_single":
        # one target Grid for the whole batch (each image still lies on its own grid)
        g = batch.grid(0)
        tgt = Grid(size=[max(2, n - 2) for n in g.size()], center=g.center() + 0.3 * g.spacing(),
                   spacing=g.spacing() * 0.9, direction=g.direction(), align_corners=not g.align_corners())
        return batch.sample(tgt), 0
    raise ValueError(op)


def check_ramp(c):
    rng = random.Random(c["seed"])
    grids = [gen.make_grid(s) for s in c["grids"]]
    a, b = c["a"], c["b"]
    c0s = [g.center().double() for g in grids]
    batch = ImageBatch(torch.stack([torch.cat([ramp_image(g, a, b, c0), torch.ones((1,) + tuple(g.shape))])
                                    for g, c0 in zip(grids, c0s)]), grids)
    import torch.nn.functional as F

    valid = [torch.ones(tuple(g.shape), dtype=torch.float64) for g in grids]
    name = "+".join(c["ops"])
    for op in c["ops"]:
        prev_grids = batch.grids()
        try:
            batch, m = _apply_ramp_op(batch, op, rng)
        except AssertionError as e:
            if "allclose" in str(e) or str(e) == "":
                return ("C04:grid-resize:assert-allclose", f"{op}: Grid._resize consistency assertion raised on a valid grid (F-03)")
            return (f"C04:{op}:raises", f"{type(e).__name__}: {str(e)[:120]}")
        except (ValueError, TypeError, RuntimeError, IndexError) as e:
            frac = any(float((g._size - g._size.round()).abs().max()) > 1e-6 for g in prev_grids)
            if frac and "must match spatial dimensions" in str(e):
                return ("C04:fractional-grid-size:data-grid-mismatch",
                        f"{op} within {name}: an earlier resample/downsample left a fractional grid size "
                        f"{[round(float(v), 3) for v in prev_grids[0]._size]}; the data produced by {op} has a different shape "
                        f"than the grid derived for it ({type(e).__name__}: {str(e)[:80]})")
            return (f"C04:{op}:raises", f"{type(e).__name__}: {str(e)[:120]}")
        if len(batch.grids()) != batch.shape[0]:
            return (f"C04:{op}:grid-count", f"{len(batch.grids())} grids for {batch.shape[0]} images after {name}")
        # geometric propagation of "every sample that contributed was real data inside the sample hull":
        # independent of deepali's data path, uses only the grids' point maps
        new_valid = []
        for i, (gp, gn) in enumerate(zip(prev_grids, batch.grids())):
            pts = gn.points(Axes.WORLD, dtype=torch.float64)
            idx = gp.world_to_index(pts, decimals=None).double()
            n_prev = torch.tensor([float(v) for v in gp.size()], dtype=torch.float64)
            m_hull, m_pool = m if isinstance(m, tuple) else (m, m)
            inside = ((idx >= m_hull - 1e-6) & (idx <= n_prev - 1 - m_hull + 1e-6)).all(-1)
            cube = gp.world_to_cube(pts, decimals=None, align_corners=True).double()
            vp = valid[i][None, None]
            if m_pool > 0 and float(vp.min()) < 1.0:
                # operations with a footprint (convolution, blur): every sample within m previous samples must be valid
                k = 2 * int(m_pool) + 1
                pool = F.max_pool2d if vp.ndim == 4 else F.max_pool3d
                vp = -pool(F.pad(-vp, (int(m_pool),) * (2 * (vp.ndim - 2)), value=-1.0), kernel_size=k, stride=1)
            v = F.grid_sample(vp, cube[None], mode="bilinear", padding_mode="zeros", align_corners=True)[0, 0]
            new_valid.append(((v > 1 - 1e-6) & inside).double())
        valid = new_valid
    data = batch.tensor()
    amax = max(1.0, float(data.abs().max()))
    for i, g in enumerate(batch.grids()):
        if list(g.shape) != list(data.shape[2:]):
            return (f"C04:{c['ops'][-1]}:grid-shape", f"grid shape {list(g.shape)} vs data {list(data.shape[2:])} after {name}")
        want = ramp_image(g, a, b, c0s[i])[0]
        # inside the original field of view: every contribution came from real samples inside the sample hull
        inside = valid[i] > 0.5
        inside &= (data[i, 1] - 1).abs() < 1e-4      # validity mask carried through deepali itself as channel 1
        if inside.sum() == 0:
            continue
        err = (data[i, 0] - want).abs()[inside].max().item()
        if err > 1e-3 * amax:
            return (f"C04:ramp:{c['ops'][-1]}" + (":composed" if len(c["ops"]) > 1 else ""),
                    f"after {name}: image differs from a·world+b on the returned grid by {err:.3e} (item {i}, "
                    f"{int(inside.sum())} inside samples, max|I| {amax:.1f})")
    return None


# ---------------------------------------------------------------- oracle: documented argument forms are accepted
def gen_forms(rng: random.Random, tier: str):
    for _ in range(_n(tier, 30, 400, 60)):
        d = rng.choice([2, 3])
        yield {"grid": gen.grid_spec(rng, d, min_size=6, max_size=9), "form": rng.choice(["roi_tuple", "narrow_batch", "ellipsis",
               "sample_single", "pyramid_spacing", "down_up_odd", "center_crop_oversize"]), "seed": rng.randrange(1 << 30)}


def check_forms(c):
    g = gen.make_grid(c["grid"])
    d = g.ndim
    g2 = g.center(g.center() + 2.0 * g.spacing())
    data = code_image(g)
    batch = ImageBatch(torch.stack([data, data + 1000]), [g, g2])
    form = c["form"]
    if form == "roi_tuple":
        try:
            out = batch.region_of_interest(tuple([1] * d), tuple([3] * d))
        except ValueError as e:
            if d == 2:
                return ("C04:region_of_interest:2d-tuple-rejected", f"region_of_interest((1,1),(3,3)) on 2-D data raises: {e}")
            return (f"C04:region_of_interest:raises", str(e))
        if list(out.grid().shape) != list(out.shape[2:]):
            return ("C04:region_of_interest:grid-shape", "grid/data mismatch")
        return None
    if form == "narrow_batch":
        out = batch.narrow(2, 1, 3)
        exp = g2.narrow(d - 1, 1, 3)
        if not (out.grid(1) == exp):
            return ("C04:narrow:batch-grid-0-for-all", "ImageBatch.narrow gives every item the narrowed grid of item 0")
        return None
    if form == "ellipsis":
        out = batch[...]
        if not (out.grid(1) == g2):
            return ("C04:getitem:ellipsis-grid-0-for-all", "batch[...] gives every item the grid of item 0")
        return None
    if form == "sample_single":
        tgt = Grid(size=[n - 1 for n in g.size()], center=g.center(), spacing=g.spacing(), direction=g.direction())
        out = batch.sample(tgt)
        if len(out.grids()) != out.shape[0]:
            return ("C04:sample:single-grid-count", f"sample(one Grid) on N=2 returns {len(out.grids())} grid(s) for 2 images")
        return None
    if form == "down_up_odd":
        # odd sizes: the grid keeps the fractional size n/2 (so that grid.downsample().upsample() == grid), the data has
        # ceil(n/2) samples; upsampling doubles both
        im = ImageBatch(data.unsqueeze(0), g)
        dn = im.downsample(1)
        try:
            up = dn.upsample(1)
        except ValueError as e:
            if "must match spatial dimensions" in str(e):
                return ("C04:fractional-grid-size:data-grid-mismatch",
                        f"downsample(1).upsample(1) of a {list(g.size())} image raises: grid size {[float(v) for v in dn.grid()._size]} "
                        f"doubles to a different shape than the {list(dn.shape[2:])} data ({e})")
            return ("C04:upsample:raises", str(e))
        if list(up.grid().shape) != list(up.shape[2:]):
            return ("C04:upsample:grid-shape", "grid/data mismatch after downsample+upsample")
        return None
    if form == "center_crop_oversize":
        # the requested size exceeds the image along some axes (those axes are kept as they are), is smaller along others
        a = [0.7, -0.4, 0.2][:d]
        r = random.Random(c["seed"])
        n = [int(v) for v in g.size()]
        size = [v + r.choice([1, 2, 5]) if (k + c["seed"]) % 2 == 0 else v - r.choice([1, 2]) for k, v in enumerate(n)]
        im = ImageBatch(ramp_image(g, a, 1.0, c0=g.center().tolist()).unsqueeze(0), g)
        out = im.center_crop(size)
        want = ramp_image(out.grid(), a, 1.0, c0=g.center().tolist())
        if list(out.shape[2:]) != list(out.grid().shape) or list(out.grid().size()) != [min(x, y) for x, y in zip(n, size)]:
            return ("C04:center_crop:oversize:shape", f"center_crop({size}) of a {n} image: data {list(out.shape[2:])}, grid {list(out.grid().size())}")
        err = float((out.tensor()[0] - want).abs().max())
        if err > 1e-3 * max(1.0, float(want.abs().max())):
            return ("C04:center_crop:oversize:ramp", f"center_crop({size}) of a {n} image: data is off the returned grid by {err:.3e}")
        return None
    if form == "pyramid_spacing":
        a = [0.7, -0.4, 0.2][:d]
        im = ImageBatch(ramp_image(g, a, 1.0).unsqueeze(0), g)
        sp = float(g.spacing().min()) * 0.5
        try:
            pyr = im.pyramid(2, spacing=sp)
        except AssertionError:
            return ("C04:grid-resize:assert-allclose", "pyramid(spacing=…): Grid._resize consistency assertion (F-03)")
        lvl = pyr[0]
        want = ramp_image(lvl.grid(), a, 1.0)[0]
        idx = g.world_to_index(lvl.grid().points(Axes.WORLD, dtype=torch.float64), decimals=None).double()
        n0 = torch.tensor([float(v) for v in g.size()], dtype=torch.float64)
        inside = ((idx >= 1) & (idx <= n0 - 2)).all(-1)
        if inside.sum() and (lvl.tensor()[0, 0] - want).abs()[inside].max() > 1e-3 * max(1.0, float(want.abs().max())):
            return ("C04:pyramid:spacing:unmapped-coords", f"pyramid(spacing={sp:.3f}) level 0 is off the ramp by "
                    f"{float((lvl.tensor()[0, 0] - want).abs()[inside].max()):.3e}")
        return None
    return None


# ---------------------------------------------------------------- oracle: the options of the data-layer pyramid
def gen_pyramid_options(rng: random.Random, tier: str):
    """Image / ImageBatch.pyramid with its non-default options: finest-level `spacing`, explicit `align_corners` that differs
    from the grid's own flag, `min_size`; half of the spacing cases are built so that the requested spacing divides the extent
    exactly and the resampled size is 2^levels·k + 1 (the case where corner-to-corner and border-to-border resizing differ most)."""
    # witness of the defect repaired by 8cc5ad1 (new corner-to-corner extent = old border-to-border extent)
    yield {"grid": {"size": [11, 10], "spacing": [1.3945454545454545, 1.0619999999999998], "center": [33.483, -11.112],
                    "direction": [[-0.9999981994616374, 0.0018976494627043535], [-0.0018976494627043535, -0.9999981994616374]],
                    "align_corners": False}, "levels": 3, "req": True, "spacing": 1.18, "n": 1, "single": False, "seed": 96831771}
    for own in (True, False):
        for req in (None, True, False):
            for kind in ("none", "exact", "free"):
                for _ in range(_n(tier, 1, 8, 2)):
                    d = rng.choice([2, 2, 3])
                    levels = rng.choice([2, 3])
                    spec = gen.grid_spec(rng, d, min_size=9, max_size=14)
                    spec["align_corners"] = own
                    sp = None
                    if kind == "exact":
                        # float-exact: the old spacing is sp / m (m = 2, 3, 4), the old size m times the new one
                        sp = rng.choice([0.5, 1.0, 1.5, 2.0])
                        new_n = [2 ** levels * rng.randint(1, 2) + 1 for _ in range(d)]     # kept by Grid.pyramid at level 0
                        mult = [rng.choice([2, 2, 3, 4] if d == 2 else [2, 3]) for _ in range(d)]
                        spec["size"] = [n * m for n, m in zip(new_n, mult)]
                        spec["spacing"] = [sp / m for m in mult]
                    elif kind == "free":
                        sp = round(rng.uniform(0.4, 1.6) * min(spec["spacing"]), 3)
                    yield {"grid": spec, "levels": levels, "req": req, "spacing": sp, "n": rng.choice([1, 2]),
                           "single": rng.random() < 0.4, "seed": rng.randrange(1 << 30)}


def check_pyramid_options(c):
    g = gen.make_grid(c["grid"])
    d = g.ndim
    a = [0.7, -0.4, 0.2][:d]
    n = 1 if c["single"] else c["n"]
    grids = [g] + [g.center(g.center() + 1.5 * g.spacing()) for _ in range(n - 1)]
    data = torch.stack([ramp_image(h, a, 1.0, c0=g.center().tolist()) for h in grids])
    obj = Image(data[0], g) if c["single"] else ImageBatch(data, grids)
    kw = {} if c["req"] is None else {"align_corners": c["req"]}
    if c["spacing"] is not None:
        kw["spacing"] = c["spacing"]
    tag = f"own={g.align_corners()} requested={c['req']} spacing={'none' if c['spacing'] is None else 'given'}"
    try:
        pyr = obj.pyramid(c["levels"], **kw)
    except AssertionError:
        return None if c["spacing"] is not None else ("C04:pyramid:options:raises", f"pyramid({tag}) raises AssertionError")
    ac = g.align_corners() if c["req"] is None else c["req"]
    for i, h in enumerate(grids):
        # the grids the data must sit on: the image grid with the requested convention, resampled, then Grid.pyramid (C03)
        e = h.align_corners(ac)
        if c["spacing"] is not None:
            e = e.resample(c["spacing"])
        want = e.pyramid(c["levels"])
        for k in range(c["levels"]):
            lvl = pyr[k]
            lg = lvl.grid() if c["single"] else lvl.grid(i)
            shape = list(lvl.shape[1:] if c["single"] else lvl.shape[2:])
            if list(lg.shape) != shape:
                return ("C04:pyramid:options:grid-shape", f"{tag}: level {k} data shape {shape} on a grid of shape {list(lg.shape)}")
            # the sample lattice is compared (shape, spacing, centre, direction, convention), not the stored fractional size:
            # data-layer downsampling keeps n/2 where Grid.pyramid rounds (known finding C04:fractional-grid-size)
            same = (list(lg.shape) == list(want[k].shape) and torch.allclose(lg.spacing(), want[k].spacing(), rtol=1e-5)
                    and torch.allclose(lg.center(), want[k].center(), rtol=1e-5, atol=1e-5 * float(lg.spacing().max()))
                    and torch.allclose(lg.direction(), want[k].direction(), atol=1e-6))
            if lg.align_corners() != ac or not same:
                return ("C04:pyramid:options:level-grid", f"{tag}: level {k} grid {lg!r} is not the level of the requested "
                        f"convention {want[k]!r}")
        lvl = pyr[0]
        lg = lvl.grid() if c["single"] else lvl.grid(i)
        vals = lvl.tensor()[0] if c["single"] else lvl.tensor()[i, 0]
        wantv = ramp_image(lg, a, 1.0, c0=g.center().tolist())[0]
        idx = h.world_to_index(lg.points(Axes.WORLD, dtype=torch.float64), decimals=None).double()
        n0 = torch.tensor([float(v) for v in h.size()], dtype=torch.float64)
        inside = ((idx >= 1) & (idx <= n0 - 2)).all(-1)
        if inside.sum():
            err = float((vals - wantv).abs()[inside].max())
            if err > 2e-3 * max(1.0, float(wantv.abs().max())):
                return ("C04:pyramid:options:ramp", f"{tag}: level 0 differs from a·world+b on its own grid by {err:.3e} "
                        f"({int(inside.sum())} inside samples)")
    return None


# ---------------------------------------------------------------- oracle: single-item classes delegate to the batch classes
SINGLE_OPS = ["resize", "resample", "avg_pool", "downsample", "upsample", "pyramid", "crop", "pad", "center_crop", "center_pad",
              "region_of_interest", "narrow", "conv", "sample", "normalize", "rescale",
              "flow.axes", "flow.exp", "flow.curl", "flow.warp_image", "flow.sample"]


def gen_single(rng: random.Random, tier: str):
    for op in SINGLE_OPS:
        for _ in range(_n(tier, 1, 10, 2)):
            d = rng.choice([2, 3])
            spec = gen.grid_spec(rng, d, min_size=6, max_size=8)
            yield {"op": op, "grid": spec, "seed": rng.randrange(1 << 30), "channels": rng.choice([1, 2]),
                   "axes": rng.choice(["world", "grid", "cube", "cube_corners"])}


def check_single(c):
    """Image.<op> / FlowField.<op> return what ImageBatch.<op> / FlowFields.<op> return for a batch of that one item: same
    type, values, grid (incl. the align_corners flag) and vector representation"""
    from deepali.data.flow import FlowField

    g = gen.make_grid(c["grid"])
    d = g.ndim
    rng = random.Random(c["seed"])
    gen_t = torch.Generator().manual_seed(c["seed"])
    op = c["op"]
    n = [int(v) for v in g.size()]
    if op.startswith("flow."):
        data = 0.05 * torch.randn((d,) + tuple(g.shape), generator=gen_t)
        one = FlowField(data, g, Axes(c["axes"]))
        many = FlowFields(data.unsqueeze(0), g, Axes(c["axes"]))
        img = Image(torch.rand((1,) + tuple(g.shape), generator=gen_t), g)
        tgt = Grid(size=[v - 1 for v in n], center=g.center(), spacing=g.spacing() * 1.1, direction=g.direction(),
                   align_corners=not g.align_corners())
        other = [a for a in ("world", "grid", "cube", "cube_corners") if a != c["axes"]][c["seed"] % 3]
        call = {"flow.axes": lambda f: f.axes(Axes(other)), "flow.exp": lambda f: f.exp(steps=3),
                "flow.curl": lambda f: f.curl(), "flow.sample": lambda f: f.sample(tgt),
                "flow.warp_image": lambda f: f.warp_image(img if isinstance(f, FlowField) else img.batch())}[op]
    else:
        data = torch.rand((c["channels"],) + tuple(g.shape), generator=gen_t)
        one, many = Image(data, g), ImageBatch(data.unsqueeze(0), g)
        tgt = Grid(size=[v - 1 for v in n], center=g.center(), spacing=g.spacing() * 1.1, direction=g.direction(),
                   align_corners=not g.align_corners())
        num = [rng.randint(0, 1) for _ in range(2 * d)]
        call = {"resize": lambda x: x.resize([v + 2 for v in n]), "resample": lambda x: x.resample(g.spacing() * 1.5),
                "avg_pool": lambda x: x.avg_pool(2), "downsample": lambda x: x.downsample(1), "upsample": lambda x: x.upsample(1),
                "pyramid": lambda x: x.pyramid(2), "crop": lambda x: x.crop(num=num), "pad": lambda x: x.pad(margin=1),
                "center_crop": lambda x: x.center_crop([v - 2 for v in n]), "center_pad": lambda x: x.center_pad([v + 3 for v in n]),
                "region_of_interest": lambda x: x.region_of_interest([1] * d, [3] * d),
                "narrow": lambda x: x.narrow((1 if isinstance(x, Image) else 2) + c["seed"] % d, 1, 3),
                "conv": lambda x: x.conv(torch.tensor([0.25, 0.5, 0.25])), "sample": lambda x: x.sample(tgt),
                "normalize": lambda x: x.normalize(), "rescale": lambda x: x.rescale(-1, 3)}[op]
    try:
        a, b = call(one), call(many)
    except Exception as e:
        return (f"C04:single-vs-batch:{op}:raises", f"{type(e).__name__}: {str(e)[:120]}")
    pairs = [(a[k], b[k]) for k in sorted(a)] if isinstance(a, dict) else [(a, b)]
    for x, y in pairs:
        if not isinstance(y, ImageBatch):
            return (f"C04:single-vs-batch:{op}:batch-type", f"batch result is a {type(y).__name__}")
        want_t = {"ImageBatch": "Image", "FlowFields": "FlowField"}[type(y).__name__]
        if type(x).__name__ != want_t:
            return (f"C04:single-vs-batch:{op}:type", f"{type(one).__name__}.{op} returns {type(x).__name__}, the batch form {type(y).__name__}")
        if list(x.shape) != list(y.shape[1:]) or not torch.allclose(x.tensor(), y.tensor()[0], rtol=1e-5, atol=1e-6, equal_nan=True):
            return (f"C04:single-vs-batch:{op}:values", f"{op}: values / shape of the single-item form differ from the batch form "
                    f"({list(x.shape)} vs {list(y.shape)})")
        gx, gy = x.grid(), y.grid(0)
        if not (gx == gy) or gx.align_corners() != gy.align_corners() or list(gx.shape) != list(x.shape[1:]):
            return (f"C04:single-vs-batch:{op}:grid", f"{op}: {gx!r} vs {gy!r}")
        if want_t == "FlowField" and x.axes() != y.axes():
            return (f"C04:single-vs-batch:{op}:axes", f"{op}: axes {x.axes()} vs {y.axes()}")
    return None


# ---------------------------------------------------------------- oracle: flow fields move in lock-step too
def gen_flow(rng: random.Random, tier: str):
    for _ in range(_n(tier, 20, 400, 60)):
        d = rng.choice([2, 3])
        yield {"grid": gen.grid_spec(rng, d, min_size=8, max_size=10), "op": rng.choice(["crop", "pad", "center_crop", "resize"]),
               "seed": rng.randrange(1 << 30)}


def check_flow(c):
    """a world-affine displacement field stays the same world-affine field under spatial operations"""
    g = gen.make_grid(c["grid"])
    d = g.ndim
    rng = random.Random(c["seed"])
    A = torch.tensor([[rng.uniform(-0.05, 0.05) for _ in range(d)] for _ in range(d)], dtype=torch.float64)
    t = torch.tensor([rng.uniform(-0.3, 0.3) for _ in range(d)], dtype=torch.float64)
    xw = g.points(Axes.WORLD, dtype=torch.float64)
    u = (xw @ A.T + t).movedim(-1, 0).float().unsqueeze(0)
    f = FlowFields(u, g, Axes.WORLD)
    op = c["op"]
    if op == "crop":
        out = f.crop(num=[rng.randint(0, 2) for _ in range(2 * d)])
    elif op == "pad":
        out = f.pad(num=[rng.randint(0, 2) for _ in range(2 * d)])
    elif op == "center_crop":
        out = f.center_crop([n - 2 for n in g.size()])
    else:
        try:
            out = f.resize([n + 3 for n in g.size()])
        except AssertionError:
            return ("C04:grid-resize:assert-allclose", "FlowFields.resize: Grid._resize consistency assertion (F-03)")
    if not isinstance(out, FlowFields) or out.axes() is not Axes.WORLD:
        return (f"C04:flow:{op}:type", f"result is {type(out).__name__}")
    go = out.grid()
    if list(go.shape) != list(out.shape[2:]):
        return (f"C04:flow:{op}:grid-shape", "grid/data mismatch")
    yw = go.points(Axes.WORLD, dtype=torch.float64)
    want = (yw @ A.T + t).movedim(-1, 0)
    idx = g.world_to_index(yw, decimals=None).double()
    n0 = torch.tensor([float(v) for v in g.size()], dtype=torch.float64)
    inside = ((idx >= -1e-6) & (idx <= n0 - 1 + 1e-6)).all(-1)
    err = (out.tensor()[0].double() - want).abs()[:, inside].max().item() if inside.sum() else 0.0
    if err > 1e-3 * max(1.0, float(xw.abs().max()) * 0.05):
        return (f"C04:flow:{op}:values", f"world-affine field off by {err:.3e}")
    return None


ORACLES = [
    Oracle("ramp", gen_ramp, check_ramp, nontrivial=lambda c: gen.grid_nontrivial(c["grids"][0]),
           doc="world-linear ramps through every spatial operation and compositions of up to 3, batches with per-image grids"),
    Oracle("forms", gen_forms, check_forms, doc="documented argument forms / batch forms keep one correct grid per image"),
    Oracle("flow", gen_flow, check_flow, doc="world-affine flow fields through crop/pad/center_crop/resize"),
    Oracle("single_vs_batch", gen_single, check_single,
           doc="every spatial / intensity method of Image and FlowField returns what the batch class returns for a batch of that one "
               "item (type, values, grid incl. flag, axes): 21 methods"),
    Oracle("pyramid_options", gen_pyramid_options, check_pyramid_options,
           doc="Image / ImageBatch.pyramid with finest-level spacing (incl. exactly dividing spacings with sizes 2^L·k+1), explicit "
               "align_corners different from the grid's flag, per-image grids: every level sits on the Grid.pyramid level of the "
               "requested convention and level 0 carries the ramp"),
]


def search_cases(disagreements: List[dict]):
    extra = {"ramp": [], "pyramid_options": [], "single_vs_batch": []}
    for dsg in disagreements[:40]:
        c = dsg["case"]
        if "grid" in c and "op" in c:
            op = c["op"].split("_")[0] if c["op"].split("_")[0] in RAMP_OPS else c["op"]
            op = {"crop": "crop", "pad": "pad"}.get(op, op)
            if op in RAMP_OPS:
                g = dict(c["grid"])
                g["size"] = [max(8, n) for n in g["size"]]
                for s in range(3):
                    extra["ramp"].append({"grids": [g], "ops": [op], "seed": s, "a": [0.7, -0.4, 0.2][:len(g["size"])], "b": 1.0})
    return extra
