"""C05 — resampling onto any oriented grid matches an independent reference resampler."""
from __future__ import annotations

import math
import random
from fractions import Fraction
from typing import List

import numpy as np
import SimpleITK as sitk
import torch

from deepali.core.grid import Axes, Grid
from deepali.data.image import Image, ImageBatch

from lib import gen, proto
from lib.core import Oracle, Stream, close
from props.prim import PRIM_STREAMS, img_tokens

PROP = "C05"
RTOL32 = 5e-4
ASSUMPTIONS = [
    "F.grid_sample semantics (un-normalisation, bilinear weights, zeros/border padding, nearest = round-half-even) are "
    "modelled in Model/TorchPrim.lean and validated against torch by the prim.* streams of this run",
    "floats are exact rationals; rounding is a tolerance: image values are compared with rtol 5e-4 * max|image| because the "
    "float32 coordinates (1e-6 relative) are multiplied by image gradients",
    "agreement with ITK is claimed only at target samples whose continuous source index lies in [0, n-1] on every axis; "
    "nearest-neighbour ties are excluded (the number excluded is reported)",
    "grids have at least 2 samples per axis in the theorems and streams; one-sample axes (single-slice volumes) are exercised by "
    "the `singleton` oracle against the in-plane ITK resampling: with align_corners=True the normalisation 2/(n-1) is undefined "
    "and the code returns padding values (known finding F-05b, six keys)",
]
TRUSTED = ["Model/{TorchPrim,Sample}.lean hand transcription of core/image.py grid_sample, data/image.py ImageBatch.sample, "
           "modules/sample.py SampleImage._matrix / AlignImage / TransformImage (identity transform), core/grid.py Grid.points",
           "SimpleITK (independent oracle for the ITK specification Itk.physToIdx/idxToPhys and for Resample)"]


def _n(tier, quick, thorough, search=None):
    return {"quick": quick, "thorough": thorough, "search": search or quick * 3}[tier]


def overlapping_pair(rng: random.Random, d: int, max_size=6):
    """source grid and a target grid whose domain overlaps it (target derived from the source frame)."""
    if rng.random() < 0.3:
        # derived source grid with a FRACTIONAL internal size (downsampled / resampled), as pyramid levels have
        src = gen.derive(rng, gen.grid_spec(rng, d, min_size=5, max_size=max(max_size, 7)), 1.0)
    else:
        src = gen.grid_spec(rng, d, min_size=2, max_size=max_size)
    gs = gen.make_grid(src)
    tgt = gen.grid_spec(rng, d, min_size=2, max_size=max_size)
    # place the target centre inside the source domain
    c = gs.cube_to_world(torch.tensor([rng.uniform(-0.6, 0.6) for _ in range(d)]), decimals=None,
                         align_corners=False)
    tgt.pop("origin", None)
    tgt["center"] = [round(float(v), 3) for v in c]
    ext = max(n * s for n, s in zip(src["size"], src["spacing"]))
    tgt["spacing"] = [round(rng.uniform(0.3, 1.2) * ext / 8, 3) for _ in range(d)]
    return src, tgt


def image_values(rng_seed: int, shape, channels=1):
    g = torch.Generator().manual_seed(rng_seed)
    return torch.randint(-20, 21, (channels,) + tuple(shape), generator=g).float()


# ---------------------------------------------------------------- stream: sample on grid, values
def gen_on_grid(rng: random.Random, tier: str):
    for _ in range(_n(tier, 40, 1200)):
        d = rng.choice([2, 2, 3])
        src, tgt = overlapping_pair(rng, d, max_size=5 if d == 3 else 7)
        if rng.random() < 0.1:
            tgt = dict(src)   # equal grid: `sample` returns self
        pad = rng.choice(["zeros", "border", "const"])
        yield {"src": src, "tgt": tgt, "mode": rng.choice(["linear", "linear", "nearest"]), "pad": pad,
               "c": rng.choice([3.0, -1.5, 7.0]) if pad == "const" else None,
               "seed": rng.randrange(1 << 30), "api": rng.choice(["image", "batch1", "batchN_shared", "batchN_own", "batchN_own_single", "batchN_single",
                                  "batchN_target_is_grid0", "module_align", "module_transform"])}


def _run_sample(c):
    gs, gt = gen.make_grid(c["src"]), gen.make_grid(c["tgt"])
    data = image_values(c["seed"], gs.shape)
    padding = c["c"] if c["pad"] == "const" else c["pad"]
    api = c["api"]
    if api.startswith("module_"):
        # module entry points (identity transform): AlignImage / TransformImage precompute the target points with
        # Grid.points(axes) and the target→source matrix for the same axes; every axes choice must give the same image
        from deepali.modules import AlignImage, TransformImage
        cls = AlignImage if api == "module_align" else TransformImage
        axes = [None, Axes.CUBE, Axes.CUBE_CORNERS, Axes.WORLD, Axes.GRID][c["seed"] % 5]
        if "axes" in c:
            axes = None if c["axes"] is None else Axes(c["axes"])
        m = cls(gt, gs, axes=axes, sampling=c["mode"], padding=padding)
        out = m(None, torch.stack([image_values(c["seed"] + 1, gs.shape), data]))
        return out[1, 0], gt, gs, gt, data
    if api == "image":
        out = Image(data, gs).sample(gt, mode=c["mode"], padding=padding)
        return out.tensor()[0], out.grid(), gs, gt, data
    if api == "batch1":
        out = ImageBatch(data.unsqueeze(0), gs).sample(gt, mode=c["mode"], padding=padding)
        return out.tensor()[0, 0], out.grid(0), gs, gt, data
    # N = 2: item 1 is the case's image, item 0 a decoy with another grid / data
    decoy = image_values(c["seed"] + 1, gs.shape)
    if api == "batchN_single":
        # one shared target grid given as a single Grid (values only; the per-item grid count is C04/C19's business)
        b = ImageBatch(torch.stack([decoy, data]), gs)
        out = b.sample(gt, mode=c["mode"], padding=padding)
        return out.tensor()[1, 0], out.grids()[-1], gs, gt, data
    if api == "batchN_target_is_grid0" and list(gt.shape) == list(gs.shape):
        # per-image source grids, ONE target Grid that happens to BE the grid of image 0: image 0 needs no resampling,
        # every other image does
        b = ImageBatch(torch.stack([decoy, data]), [gt, gs])
        out = b.sample(gt, mode=c["mode"], padding=padding)
        return out.tensor()[1, 0], out.grids()[-1], gs, gt, data
    if api in ("batchN_own_single", "batchN_target_is_grid0"):
        # per-image source grids, ONE target Grid for the whole batch: every image is mapped through its own grid
        gs0 = gs.center(gs.center() + 0.37 * gs.spacing())
        b = ImageBatch(torch.stack([decoy, data]), [gs0, gs])
        out = b.sample(gt, mode=c["mode"], padding=padding)
        return out.tensor()[1, 0], out.grids()[-1], gs, gt, data
    if api == "batchN_shared":
        b = ImageBatch(torch.stack([decoy, data]), [gs, gs])
        out = b.sample([gt, gt], mode=c["mode"], padding=padding)
    else:
        gs0 = gs.center(gs.center() + 0.37 * gs.spacing())
        b = ImageBatch(torch.stack([decoy, data]), [gs0, gs])
        # align_corners of a batch is that of grid 0; keep them equal so item 1 follows its own flag
        out = b.sample([gt, gt], mode=c["mode"], padding=padding)
    return out.tensor()[1, 0], out.grid(1), gs, gt, data


def impl_on_grid(c):
    vals, g_out, gs, gt, data = _run_sample(c)
    if list(vals.shape) != list(gt.shape):
        return f"err:shape:{list(vals.shape)}"
    if not (g_out == gt):
        return "err:grid:result does not carry the target grid"
    return {"values": proto.flat(vals), "amax": float(data.abs().max())}


def line_on_grid(c):
    gs, gt = gen.make_grid(c["src"]), gen.make_grid(c["tgt"])
    d = gs.ndim
    data = image_values(c["seed"], gs.shape)
    pad = f"const:{proto.fr(c['c'])}" if c["pad"] == "const" else c["pad"]
    mode = "lin" if c["mode"] == "linear" else "nearest"
    return f"sample.on_grid {d} {proto.grid(gs)} {proto.grid(gt)} {mode} {pad} 12 {proto.vec(proto.flat(data[0]))}"


def _near_tie_mask(gs, gt, tol=2e-3):
    """target samples whose source index is within tol of a .5 tie on some axis (nearest mode)."""
    idx = gt.coords(normalize=False, dtype=torch.float64)
    w = gt.index_to_world(idx, decimals=None).double()
    ci = gs.world_to_index(w, decimals=None).double()
    frac = ci - torch.floor(ci)
    return ((frac - 0.5).abs() < tol).any(-1).flatten()


def cmp_on_grid(c, r, out):
    if isinstance(r, str):
        return f"impl {r}; model {out[:60]}"
    if proto.is_error(out):
        return f"model error {out}"
    m = proto.parse_vec(out)
    vals = r["values"]
    if len(vals) != len(m):
        return f"length {len(vals)} vs {len(m)}"
    if c["tgt"] == c["src"]:
        pass
    if c["mode"] == "nearest":
        gs, gt = gen.make_grid(c["src"]), gen.make_grid(c["tgt"])
        tie = _near_tie_mask(gs, gt).tolist()
        keep = [i for i, t in enumerate(tie) if not t]
        c.setdefault("_excluded", len(tie) - len(keep))
        vals = [vals[i] for i in keep]
        m = [m[i] for i in keep]
        if not vals:
            return None
        # a nearest sample may legitimately flip at the field-of-view boundary (±0.5) by rounding: allow via tie mask only
        bad = [i for i, (a, b) in enumerate(zip(vals, m)) if abs(a - float(b)) > 1e-6]
        if len(bad) > 0:
            return f"{len(bad)} nearest-neighbour samples differ (first at kept index {bad[0]}: {vals[bad[0]]} vs {float(m[bad[0]])})"
        return None
    # deepali's maps are float32: a world coordinate of magnitude |w| carries eps32·|w| of absolute error, i.e.
    # 8·eps32·|w|/spacing source-index units (as in `itk.spec`), which an image whose neighbouring samples differ by up to
    # 2·max|I| turns into that many grey values; negligible unless the grids sit far from the world origin with tiny spacings
    w = max(abs(float(v)) for g in (c["src"], c["tgt"]) for v in (g.get("center") or g.get("origin")))
    cond = 8 * 1.2e-7 * w / min(float(v) for v in c["src"]["spacing"])
    scale = max(r["amax"], abs(c["c"] or 0))
    return close(vals, m, RTOL32, scale + cond * 2 * r["amax"] / RTOL32)


# ---------------------------------------------------------------- stream: module entry points, every axes choice
MODULE_AXES = [None, "cube", "cube_corners", "world", "grid"]


def gen_module(rng: random.Random, tier: str):
    """AlignImage / TransformImage with the identity transform: {5 axes choices} x {2 classes} enumerated cyclically over
    random overlapping oriented grid pairs (independent align_corners flags of source and target)."""
    combos = [(a, k) for a in MODULE_AXES for k in ("align", "transform")]
    for n in range(_n(tier, 40, 1000)):
        d = rng.choice([2, 2, 3])
        src, tgt = overlapping_pair(rng, d, max_size=5 if d == 3 else 7)
        src_none = False
        if rng.random() < 0.1:
            tgt = dict(src)          # equal geometry: `Grid.transform` takes its same-grid branch table
            if rng.random() < 0.5:
                tgt["align_corners"] = not src["align_corners"]   # `Grid.__eq__` ignores the flag
            else:
                src_none = rng.random() < 0.5                    # source=None -> the target grid itself
        axes, cls = combos[n % len(combos)]
        pad = rng.choice(["zeros", "border", "const"])
        yield {"src": src, "tgt": tgt, "axes": axes, "cls": cls, "src_none": src_none,
               "mode": rng.choice(["linear", "linear", "linear", "linear", "nearest"]), "pad": pad,
               "c": rng.choice([3.0, -1.5, 7.0]) if pad == "const" else None,
               "seed": rng.randrange(1 << 30), "slot": rng.randrange(2)}


def impl_module(c):
    from deepali.modules import AlignImage, TransformImage
    gs, gt = gen.make_grid(c["src"]), gen.make_grid(c["tgt"])
    data = image_values(c["seed"], gs.shape)
    decoy = image_values(c["seed"] + 1, gs.shape)
    padding = c["c"] if c["pad"] == "const" else c["pad"]
    cls = AlignImage if c["cls"] == "align" else TransformImage
    axes = None if c["axes"] is None else Axes(c["axes"])
    m = cls(gt, None if c["src_none"] else gs, axes=axes, sampling=c["mode"], padding=padding)
    batch = [decoy, decoy]
    batch[c["slot"]] = data
    out = m(None, torch.stack(batch))
    vals = out[c["slot"], 0]
    if list(vals.shape) != list(gt.shape):
        return f"err:shape:{list(vals.shape)}"
    return {"values": proto.flat(vals), "amax": float(data.abs().max())}


def line_module(c):
    gs, gt = gen.make_grid(c["src"]), gen.make_grid(c["tgt"])
    data = image_values(c["seed"], gs.shape)
    pad = f"const:{proto.fr(c['c'])}" if c["pad"] == "const" else c["pad"]
    mode = "lin" if c["mode"] == "linear" else "nearest"
    # 12 = the decimals `Grid.points` rounds CUBE_CORNERS points to (apply_transform default)
    return (f"sample.module {gs.ndim} {proto.grid(gs)} {proto.grid(gt)} {c['axes'] or 'none'} {mode} {pad} 12 "
            f"{proto.vec(proto.flat(data[0]))}")


# ---------------------------------------------------------------- stream: ITK spec validated by SimpleITK
def gen_spec(rng: random.Random, tier: str):
    for _ in range(_n(tier, 60, 2000)):
        d = rng.choice([2, 3])
        src, tgt = overlapping_pair(rng, d, max_size=9)
        j = [round(rng.uniform(-3, s + 2), 3) for s in tgt["size"]]
        yield {"src": src, "tgt": tgt, "j": j}


def _sitk_header(g: Grid):
    im = sitk.Image([int(n) for n in g.size()], sitk.sitkFloat32)
    im.SetOrigin([float(v) for v in g.origin().double()])
    im.SetSpacing([float(v) for v in g.spacing().double()])
    im.SetDirection([float(v) for v in g.direction().double().flatten()])
    return im


def impl_spec(c):
    gs, gt = gen.make_grid(c["src"]), gen.make_grid(c["tgt"])
    p = _sitk_header(gt).TransformContinuousIndexToPhysicalPoint(c["j"])
    ci = _sitk_header(gs).TransformPhysicalPointToContinuousIndex(p)
    # and deepali's own maps on the same input
    w = gt.index_to_world(torch.tensor(c["j"], dtype=torch.float64), decimals=None)
    cd = gs.world_to_index(w, decimals=None)
    return {"sitk": list(ci), "deepali": proto.flat(cd)}


def line_spec(c):
    gs, gt = gen.make_grid(c["src"]), gen.make_grid(c["tgt"])
    return f"itk.cindex {gs.ndim} {proto.grid(gs)} {proto.grid(gt)} {proto.vec(c['j'])}"


def cmp_spec(c, r, out):
    if isinstance(r, str):
        return f"impl {r}"
    m = proto.parse_vec(out)
    scale = max(abs(float(v)) for v in m)
    # deepali's maps are float32: a world coordinate of magnitude |w| carries an absolute error of about eps32·|w|,
    # which the division by the source spacing turns into eps32·|w|/spacing index units (SimpleITK computes in float64)
    w = max(abs(float(v)) for g in (c["src"], c["tgt"]) for v in (g.get("center") or g.get("origin")))
    cond = 8 * 1.2e-7 * w / min(float(v) for v in c["src"]["spacing"])
    dscale = scale + cond / 2e-4
    return (close(r["sitk"], m, 2e-4, scale) and "SimpleITK vs Itk spec: " + close(r["sitk"], m, 2e-4, scale)) or \
           (close(r["deepali"], m, 2e-4, dscale) and "deepali maps vs Itk spec: " + close(r["deepali"], m, 2e-4, dscale))


def _same_shape_for_grid0(gen_fn):
    """cases of the `batchN_target_is_grid0` form get a target of the source's size (the target is the grid of batch item 0, and
    all items of a batch share one tensor shape); sources with a derived (fractional) size use another form"""
    def wrapped(rng, tier):
        for c in gen_fn(rng, tier):
            if c.get("api") == "batchN_target_is_grid0":
                if "derive" in c["src"]:
                    c["api"] = "batchN_own_single"
                else:
                    c["tgt"] = dict(c["tgt"], size=list(c["src"]["size"]))
            yield c
    return wrapped


STREAMS = PRIM_STREAMS + [
    Stream("sample.on_grid", _same_shape_for_grid0(gen_on_grid), impl_on_grid, line_on_grid, cmp_on_grid,
           nontrivial=lambda c: gen.grid_nontrivial(c["src"]) and c["src"] != c["tgt"],
           doc="Image/ImageBatch.sample(grid) values for random oriented grid pairs x {linear,nearest} x "
               "{zeros,border,constant c} x {Image, batch 1, batch N shared/per-image grids, AlignImage/TransformImage modules with every axes choice} vs the model pipeline"),
    Stream("sample.module", gen_module, impl_module, line_module, cmp_on_grid,
           nontrivial=lambda c: gen.grid_nontrivial(c["src"]) and c["src"] != c["tgt"],
           doc="AlignImage/TransformImage(target, source, axes)(None, batch) values for random oriented grid pairs x "
               "axes {None,cube,cube_corners,world,grid} x {AlignImage,TransformImage} x {linear,nearest} x "
               "{zeros,border,constant c}, batch of 2 with a decoy, incl. source == target / source=None, vs the model "
               "of Grid.points(axes) + SampleImage._matrix + grid_sample(align_corners=target flag)"),
    Stream("itk.spec", gen_spec, impl_spec, line_spec, cmp_spec,
           nontrivial=lambda c: gen.grid_nontrivial(c["src"]),
           doc="the model's ITK specification (continuous index maps) vs SimpleITK and vs deepali's own maps"),
]


# ---------------------------------------------------------------- oracles
def gen_itk(rng: random.Random, tier: str):
    for _ in range(_n(tier, 40, 1500, 200)):
        d = rng.choice([2, 3])
        src, tgt = overlapping_pair(rng, d, max_size=7 if d == 3 else 12)
        pad = rng.choice(["zeros", "border", "const"])
        yield {"src": src, "tgt": tgt, "mode": rng.choice(["linear", "nearest"]), "pad": pad,
               "c": 5.0 if pad == "const" else None, "seed": rng.randrange(1 << 30),
               "api": rng.choice(["image", "batch1", "batchN_shared", "batchN_own", "batchN_own_single", "batchN_single",
                                  "batchN_target_is_grid0", "module_align", "module_transform"])}


def check_itk(c):
    vals, g_out, gs, gt, data = _run_sample(c)
    if list(vals.shape) != list(gt.shape):
        return ("C05:sample:shape", f"result shape {list(vals.shape)} for target grid shape {list(gt.shape)}")
    im = sitk.GetImageFromArray(data[0].numpy().astype(np.float32))
    h = _sitk_header(gs)
    im.CopyInformation(h)
    ref = _sitk_header(gt)
    interp = sitk.sitkLinear if c["mode"] == "linear" else sitk.sitkNearestNeighbor
    res = sitk.Resample(im, ref, sitk.Transform(), interp, float(c["c"] or 0.0), sitk.sitkFloat32)
    want = torch.from_numpy(sitk.GetArrayFromImage(res)).float()
    # inside the source field of view, away from NN ties
    idx = gt.coords(normalize=False, dtype=torch.float64)
    ci = gs.world_to_index(gt.index_to_world(idx, decimals=None).double(), decimals=None).double()
    n = torch.tensor([float(v) for v in gs.size()], dtype=torch.float64)
    eps = 1e-3
    inside = ((ci >= eps) & (ci <= n - 1 - eps)).all(-1)
    if c["mode"] == "nearest":
        frac = ci - torch.floor(ci)
        inside &= ((frac - 0.5).abs() > 5e-3).all(-1)
    if inside.sum() == 0:
        return None
    err = (vals - want).abs()[inside].max().item()
    tol = 1e-3 * max(1.0, float(data.abs().max()))
    if err > tol:
        return (f"C05:itk:{c['mode']}:{c['api']}", f"max |deepali - ITK| = {err:.3e} over {int(inside.sum())} inside samples "
                f"(mode={c['mode']}, padding={c['pad']})")
    return None


def gen_self(rng: random.Random, tier: str):
    for _ in range(_n(tier, 30, 500, 100)):
        d = rng.choice([2, 3])
        yield {"grid": gen.grid_spec(rng, d, min_size=2, max_size=7), "seed": rng.randrange(1 << 30),
               "mode": rng.choice(["linear", "nearest"])}


def check_self(c):
    g = gen.make_grid(c["grid"])
    data = image_values(c["seed"], g.shape)
    im = Image(data.clone(), g)
    tol = 1e-3 * float(data.abs().max())
    out = im.sample(g, mode=c["mode"])
    if (out.tensor() - data).abs().max() > 0:
        return ("C05:self:own-grid", "sampling on the own grid changes the data")
    # an equal but distinct grid object built from the same attributes, opposite align_corners flag
    g2 = Grid(size=g.size(), center=g.center(), spacing=g.spacing(), direction=g.direction(),
              align_corners=not g.align_corners())
    out = im.sample(g2, mode=c["mode"])
    if (out.tensor() - data).abs().max() > tol:
        return ("C05:self:equal-grid", f"sampling on an equal grid changes the data by {(out.tensor() - data).abs().max():.3e}")
    # sampling is a function of image and grid: a second call (constant padding, which is emulated by subtract / sample / add)
    # returns the same values and leaves the image alone
    g3 = g2.center(g2.center() + 0.3 * g2.spacing())       # a different grid: `sample` really resamples
    first = im.sample(g3, mode=c["mode"], padding=7.5).tensor().clone()
    second = im.sample(g3, mode=c["mode"], padding=7.5).tensor()
    if (first - second).abs().max() > 0 or (im.tensor() - data).abs().max() > 0:
        return ("C05:self:repeat", f"sampling the same image twice (constant padding) gives results that differ by "
                f"{float((first - second).abs().max()):.3e}; the image changed by {float((im.tensor() - data).abs().max()):.3e}")
    # explicit normalised coordinates of the own lattice
    co = g.coords(align_corners=g.align_corners())
    vals = im.sample(co.unsqueeze(0) if False else co, mode=c["mode"]) if False else \
        ImageBatch(data.unsqueeze(0), g).sample(co.unsqueeze(0), mode=c["mode"])
    if (vals[0] - data).abs().max() > tol:
        return ("C05:self:coords", f"sampling at the own coords() changes the data by {(vals[0] - data).abs().max():.3e}")
    return None


def gen_coords_vs_grid(rng: random.Random, tier: str):
    for _ in range(_n(tier, 30, 500, 100)):
        d = rng.choice([2, 3])
        src, tgt = overlapping_pair(rng, d, max_size=6)
        yield {"src": src, "tgt": tgt, "seed": rng.randrange(1 << 30), "mode": rng.choice(["linear", "nearest"]),
               "pad": rng.choice(["zeros", "border"])}


def check_coords_vs_grid(c):
    gs, gt = gen.make_grid(c["src"]), gen.make_grid(c["tgt"])
    data = image_values(c["seed"], gs.shape)
    b = ImageBatch(data.unsqueeze(0), gs)
    on_grid = b.sample(gt, mode=c["mode"], padding=c["pad"]).tensor()
    ac = gs.align_corners()
    axes = Axes.from_align_corners(ac)
    co = gt.coords(align_corners=ac)
    co = gt.transform_points(co, axes, axes, to_grid=gs)
    at = b.sample(co.unsqueeze(0), mode=c["mode"], padding=c["pad"])
    if list(at.shape) != list(on_grid.shape):
        return ("C05:coords-vs-grid:shape", f"{list(at.shape)} vs {list(on_grid.shape)}")
    if (at - on_grid).abs().max() > 1e-5 * max(1.0, float(data.abs().max())):
        return ("C05:coords-vs-grid:values", f"sample(coords) and sample(grid) differ by {(at - on_grid).abs().max():.3e}")
    return None


def gen_singleton(rng: random.Random, tier: str):
    """single-slice volumes: one axis of the source (and the coplanar target) has ONE sample; doors x axes x padding x
    both flags are enumerated (so that every listed finding is visited on every run), geometry is random"""
    eye = [[1.0, 0.0, 0.0], [0.0, 1.0, 0.0], [0.0, 0.0, 1.0]]
    for _ in range(_n(tier, 1, 8, 2)):
        for api in ("image", "batch1", "module_align", "module_transform"):
            # explicit CUBE_CORNERS axes are not requested: they are undefined for a one-sample axis (2/(n-1));
            # None lets the library choose (Axes.from_grid(target))
            for axes in ([None, "cube", "world", "grid"] if api.startswith("module") else [None]):
                for pad in ("zeros", "border"):
                    for src_ac in (True, False):
                        for tgt_ac in (True, False):
                            ax = rng.randrange(3)
                            size = [rng.randint(3, 6) for _ in range(3)]
                            size[ax] = 1
                            spacing = [round(rng.uniform(0.5, 2.0), 2) for _ in range(3)]
                            tsize = [rng.randint(2, 5) for _ in range(3)]
                            tsize[ax] = 1
                            tsp = [round(rng.uniform(0.6, 1.2) * s_, 2) for s_ in spacing]
                            tsp[ax] = spacing[ax]
                            yield {"src": {"size": size, "spacing": spacing, "center": [1.0, -2.0, 0.5], "align_corners": src_ac,
                                           "direction": eye},
                                   "tgt": {"size": tsize, "spacing": tsp, "center": [1.0, -2.0, 0.5], "align_corners": tgt_ac,
                                           "direction": eye},
                                   "mode": "linear", "pad": pad, "c": None, "seed": rng.randrange(1 << 30), "api": api, "axis": ax,
                                   "axes": axes}


def check_singleton(c):
    vals, g_out, gs, gt, data = _run_sample(c)
    if list(vals.shape) != list(gt.shape):
        return ("C05:singleton-axis:shape", f"result shape {list(vals.shape)} for target grid shape {list(gt.shape)}")
    # reference: the in-plane problem (drop the singleton axis), resampled by SimpleITK
    keep = [i for i in range(3) if i != c["axis"]]
    sub = lambda g: Grid(size=[int(g.size()[i]) for i in keep], spacing=[float(g.spacing()[i]) for i in keep],   # noqa: E731
                         center=[float(g.center()[i]) for i in keep])
    gs2, gt2 = sub(gs), sub(gt)
    im = sitk.GetImageFromArray(data[0].squeeze(2 - c["axis"]).numpy().astype(np.float32))
    im.CopyInformation(_sitk_header(gs2))
    res = sitk.Resample(im, _sitk_header(gt2), sitk.Transform(), sitk.sitkLinear, 0.0, sitk.sitkFloat32)
    want = torch.from_numpy(sitk.GetArrayFromImage(res)).float().unsqueeze(2 - c["axis"])
    idx = gt2.coords(normalize=False, dtype=torch.float64)
    ci = gs2.world_to_index(gt2.index_to_world(idx, decimals=None).double(), decimals=None).double()
    n = torch.tensor([float(v) for v in gs2.size()], dtype=torch.float64)
    inside = ((ci >= 1e-3) & (ci <= n - 1 - 1e-3)).all(-1).unsqueeze(2 - c["axis"])
    if inside.sum() == 0:
        return None
    err = float((vals - want).abs()[inside].max()) if torch.isfinite(vals).all() else float("inf")
    if err > 1e-3 * max(1.0, float(data.abs().max())):
        door = f"module:axes={c['axes'] or 'default'}" if c["api"].startswith("module") else "sample"
        flag = gt.align_corners() if c["api"].startswith("module") else gs.align_corners()
        return (f"C05:singleton-axis:{door}:{c['pad']}:align_corners={flag}",
                f"single-slice volume (axis {c['axis']} has one sample): {c['api']} differs from the in-plane ITK resampling by "
                f"{err:.3e} over {int(inside.sum())} inside samples (source flag {gs.align_corners()}, target flag {gt.align_corners()})")
    return None


ORACLES = [
    Oracle("itk", _same_shape_for_grid0(gen_itk), check_itk, nontrivial=lambda c: gen.grid_nontrivial(c["src"]),
           doc="deepali sample (Image, ImageBatch, AlignImage/TransformImage modules) vs SimpleITK.Resample(identity) at target samples inside the source field of view"),
    Oracle("self", gen_self, check_self, doc="sampling on own / equal grid / own coords returns the image"),
    Oracle("singleton", gen_singleton, check_singleton,
           doc="single-slice volumes (one axis with ONE sample, coplanar target): Image / ImageBatch.sample and the modules vs the "
               "in-plane ITK resampling"),
    Oracle("coords_vs_grid", gen_coords_vs_grid, check_coords_vs_grid,
           doc="sampling at explicit normalised coordinates == sampling on the grid they came from"),
]


def search_cases(disagreements: List[dict]):
    extra = {"itk": [], "self": [], "coords_vs_grid": []}
    for dsg in disagreements[:40]:
        c = dsg["case"]
        if "src" in c and "tgt" in c and "seed" in c:
            for mode in ("linear", "nearest"):
                extra["itk"].append({"src": c["src"], "tgt": c["tgt"], "mode": mode, "pad": "zeros", "c": None,
                                     "seed": c["seed"], "api": c.get("api", "image")})
            extra["self"].append({"grid": c["src"], "seed": c["seed"], "mode": "linear"})
            extra["coords_vs_grid"].append({"src": c["src"], "tgt": c["tgt"], "seed": c["seed"], "mode": "linear",
                                            "pad": "zeros"})
    return extra
