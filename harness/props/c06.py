"""C06 — a spatial transform means one world-space map, however it is evaluated.

Correspondence: every transform class of deepali.spatial (linear classes, named composites, Sequential/MultiLevel
composites, dense / velocity / B-spline non-rigid models, GenericSpatialTransform configurations) is built from a JSON
spec, its *stored* parameters are read back and sent to the Lean model (Model/Transforms.lean, ops `xf.*`), and
`tensor()`, `matrix()`, `forward(points)`, `forward(lattice, grid=True)`, `points(...)`, `PointSetTransformer`, `disp(grid)`
/ `flow(grid)` on own and foreign grids and `ImageTransformer` with three grids are compared.
Oracles state the property on the API in world space.
"""
from __future__ import annotations

import math
import random
from fractions import Fraction
from typing import List, Optional

import numpy as np
import torch

import deepali.spatial as S
from deepali.core.grid import Axes, Grid
from deepali.spatial.generic import GenericSpatialTransform, TransformConfig

from lib import gen, proto
from lib.core import Oracle, Stream, close
from props.prim import PRIM_STREAMS
from props.xf_lib import *  # noqa: F401,F403  (specs, build, member_tokens, tolerances)
from props.xf_lib import _n

PROP = "C06"
ASSUMPTIONS = [
    "floats are the exact rationals they denote; rounding is a tolerance (2e-4 relative to max(1,|values|) for coordinates, "
    "5e-4*max|image| for sampled values), never a theorem",
    "cos/sin/tan/tanh/exp of the stored parameters are computed by the harness in float32 (as the implementation does) and "
    "passed to the model as exact rationals; theorems carry c^2+s^2=1, |q|=1, s != 0, det != 0 as hypotheses",
    "non-rigid models enter the model through their buffered displacement field u = tensor() (how u is computed from the "
    "parameters is property C10/C11/C14); C06 is about the views of the map x -> x + u(x)",
    "F.grid_sample / F.interpolate semantics are modelled in Model/TorchPrim.lean and validated against torch by the prim.* "
    "streams of this run; torch.inverse is modelled as adjugate/determinant",
    "Grid.__eq__ / same_domain_as (allclose comparisons) are evaluated by the implementation and passed to the model as flags",
    "theorems need >= 2 samples per grid axis (CUBE_CORNERS divides by n-1); batch broadcasting is property C08",
    "the agreement of views of non-rigid models is checked inside the sample hull of the transform grid only: beyond the "
    "outermost sample centres forward() replicates the border while disp(other grid) pads differently (extrapolation "
    "convention, not part of the statement)",
]
TRUSTED = ["Model/Transforms.lean hand transcription of spatial/{base,linear,composite,transformer}.py, modules/sample.py, "
           "core/{pointset,flow}.py",
           "Model/{Affine,Kornia,Grid,TorchPrim,Sample,FlowOps}.lean (C08, C01, C05, C10 models, reused)"]
RULE = ("cases are drawn from one PRNG seeded by VERIF_SEED; class x D x groups x params-kind tables are cycled "
        "exhaustively, parameters/grids/points sampled; distinct = distinct after JSON canonicalisation; non-trivial = "
        "non-identity parameters")



# ============================================================================ stream: tensor() / matrix()
def gen_tensor(rng: random.Random, tier: str):
    combos = [(cls, d) for cls in LINEAR + list(NAMED) for d in (2, 3)
              if not (d == 2 and cls in ("QuaternionRotation", "RigidQuaternionTransform"))]
    for rep in range(_n(tier, 3, 60)):
        for cls, d in combos:
            for groups in (1, 3):
                kind = rng.choice(["parameter", "tensor"])
                spec = linear_spec(rng, cls, d, groups, kind) if cls in LINEAR else named_spec(rng, cls, d, groups, kind)
                if cls in LINEAR:
                    spec["invert"] = rng.random() < 0.3
                yield {"spec": spec, "grid": tgrid_spec(rng, d), "index": rng.randrange(groups),
                       "what": rng.choice(["tensor", "tensor", "matrix"]) if cls in LINEAR else "tensor"}
    for _ in range(_n(tier, 20, 600)):
        d = rng.choice([2, 3])
        spec = composite_spec(rng, d, True, allow_nonrigid=False)
        yield {"spec": spec, "grid": tgrid_spec(rng, d), "index": 0, "what": "tensor"}   # composites have no matrix()


def impl_tensor(c):
    t, g = prepare(c["spec"], c["grid"])
    with torch.no_grad():
        m = t.tensor() if c["what"] == "tensor" else t.matrix()
    if m.ndim != 3:
        return f"err:shape:{list(m.shape)}"
    i = c["index"] if m.shape[0] > 1 else 0
    return proto.flat(m[i])


def line_tensor(c):
    t, g = prepare(c["spec"], c["grid"])
    return f"xf.{c['what']} {g.ndim} {member_tokens(t, c['index'])}"


def cmp_tensor(c, r, out):
    if isinstance(r, str):
        if proto.is_error(out) and r.split(":")[1] == out.split(":")[1]:
            return None
        return f"impl {r}; model {out[:80]}"
    if proto.is_error(out):
        return f"model {out}; impl returned values"
    return close(r, h_values(out), RTOL32)


# ============================================================================ stream: default parameters
def gen_default(rng: random.Random, tier: str):
    for d in (2, 3):
        for cls in LINEAR:
            if d == 2 and cls == "QuaternionRotation":
                continue
            for groups in (1, 2):
                for kind in (True, False):   # a callable has no default: `p` stays torch.empty until the first update()
                    orders = ORDERS if (cls == "EulerRotation" and d == 3) else [None]
                    for order in orders:
                        yield {"cls": cls, "d": d, "groups": groups, "params": kind, "order": order,
                               "grid": tgrid_spec(rng, d)}


def _default_transform(c):
    g = gen.make_grid(c["grid"])
    kw = {"groups": c["groups"]}
    if c["cls"] == "EulerRotation":
        kw["order"] = c["order"]
    params = c["params"]
    if params == "callable":
        params = lambda *a, **k: None      # never called: tensor() reads the buffer `p` written by reset_parameters
    return getattr(S, c["cls"])(g, params=params, **kw)


def impl_default(c):
    t = _default_transform(c)
    with torch.no_grad():
        m = t.tensor()
    if any((m[i] - m[0]).abs().max() > 0 for i in range(m.shape[0])):
        return "err:value:groups differ"
    return proto.flat(m[0])


def line_default(c):
    name = {"Translation": "translation", "EulerRotation": "euler2" if c["d"] == 2 else "euler3",
            "QuaternionRotation": "quat", "IsotropicScaling": "iso", "AnisotropicScaling": "aniso", "Shearing": "shear",
            "HomogeneousTransform": "hom"}[c["cls"]]
    extra = ""
    if name == "euler3":
        extra = " " + enc_str(c["order"])
    if name == "quat":
        extra = f" 1 {proto.fr(np.float32(1e-12))}"     # ‖(0,0,0,1)‖ = 1
    return f"xf.default {c['d']} {name}{extra}"


# ============================================================================ stream: forward(points)
def gen_forward(rng: random.Random, tier: str):
    for _ in range(_n(tier, 120, 2500)):
        d = rng.choice([2, 2, 3])
        ac = rng.random() < 0.6
        spec = any_spec(rng, d, ac)
        yield {"spec": spec, "grid": tgrid_spec(rng, d, ac=ac, max_size=6 if d == 3 else 8),
               "points": cube_points(rng, d, 5, 1.0) + cube_points(rng, d, 1, 1.25), "index": rng.randrange(3),
               "shape": rng.choice(["NMD", "1MD", "N11MD"])}
    for d in (2, 3):     # callable parameters reach a Shearing child (F-06h, repaired by 5928510)
        spec = generic_spec(rng, d, True, params="callable")
        spec["transform"], spec["affine_model"] = "Affine", "TKS"
        spec["values"] = {LETTER[ch][0]: linear_values(rng, LETTER[ch][1], d, 1, "tensor", small=True) for ch in "TKS"}
        yield {"spec": spec, "grid": tgrid_spec(rng, d, ac=True), "points": cube_points(rng, d, 3, 1.0), "index": 0,
               "shape": "1MD"}


def _points_tensor(c, n, d):
    p = torch.tensor(c["points"], dtype=torch.float32)
    if c.get("shape") == "N11MD":
        p = p.reshape((1,) + (1,) * (d - 1) + (-1, d))
    else:
        p = p.unsqueeze(0)
    if c.get("shape") == "NMD" and n > 1:
        p = p.expand((n,) + p.shape[1:])
    return p


def impl_forward(c):
    t, g = prepare(c["spec"], c["grid"])
    n = batch_size(t)
    p = _points_tensor(c, n, g.ndim)
    with torch.no_grad():
        y = t(p)
    i = c["index"] % n if y.shape[0] > 1 else 0
    return proto.flat(y[i])


def line_forward(c):
    t, g = prepare(c["spec"], c["grid"])
    n = batch_size(t)
    return (f"xf.forward {g.ndim} {member_tokens(t, c['index'] % n)} {len(c['points'])} "
            + " ".join(proto.vec(p) for p in torch.tensor(c["points"], dtype=torch.float32).tolist()))


def cmp_generic(c, r, out):
    return cmp_vec(r, out)


# ============================================================================ stream: forward(lattice, grid=True)
def gen_forward_grid(rng: random.Random, tier: str):
    for _ in range(_n(tier, 60, 1500)):
        d = rng.choice([2, 2, 3])
        ac = rng.random() < 0.6
        spec = any_spec(rng, d, ac)
        shape = [rng.randint(2, 5) for _ in range(d)]     # x first
        yield {"spec": spec, "grid": tgrid_spec(rng, d, ac=ac, max_size=5 if d == 3 else 7), "lattice": shape,
               "own": rng.random() < 0.5, "index": rng.randrange(3)}


def _lattice(c, g):
    """points of a lattice: the transform grid's own coords (own) or another regular lattice of the cube."""
    if c["own"]:
        return g.coords().unsqueeze(0)
    gg = Grid(size=c["lattice"], align_corners=g.align_corners())
    return gg.coords().unsqueeze(0) * 0.9 + 0.03


def impl_forward_grid(c):
    t, g = prepare(c["spec"], c["grid"])
    x = _lattice(c, g)
    with torch.no_grad():
        y = t.forward(x, grid=True)
    n = batch_size(t)
    i = c["index"] % n if y.shape[0] > 1 else 0
    return proto.flat(y[i])


def line_forward_grid(c):
    t, g = prepare(c["spec"], c["grid"])
    x = _lattice(c, g)[0]
    n = batch_size(t)
    shape = list(reversed(x.shape[:-1]))
    return (f"xf.forward_grid {g.ndim} {member_tokens(t, c['index'] % n)} {' '.join(map(str, shape))} {tvec(x)}")


# ============================================================================ stream: points(...) / PointSetTransformer
AX = ["grid", "cube", "cube_corners", "world"]


def foreign_grid_spec(rng, gspec, d, max_size=6, ac=None):
    """a grid whose domain overlaps the domain of `gspec` (different centre, spacing, orientation)."""
    g = gen.make_grid(gspec)
    f = gen.grid_spec(rng, d, min_size=2, max_size=max_size, ac=ac)
    c = g.cube_to_world(torch.tensor([rng.uniform(-0.3, 0.3) for _ in range(d)]), decimals=None, align_corners=False)
    f.pop("origin", None)
    f["center"] = [round(float(v), 3) for v in c]
    ext = min(n * s for n, s in zip(gspec["size"], gspec["spacing"]))
    f["spacing"] = [round(rng.uniform(0.5, 0.9) * ext / n, 3) for n in f["size"]]
    return f


def gen_points(rng: random.Random, tier: str):
    for rep in range(_n(tier, 2, 40)):
        for a in AX:
            for b in AX:
                for own1, own2 in ((True, True), (False, True), (True, False), (False, False)):
                    d = rng.choice([2, 3])
                    ac = rng.random() < 0.5
                    gs = tgrid_spec(rng, d, ac=ac, max_size=6)
                    spec = any_spec(rng, d, ac)
                    yield {"spec": spec, "grid": gs, "axes": a, "to_axes": b,
                           "pgrid": None if own1 else foreign_grid_spec(rng, gs, d),
                           "to_grid": None if own2 else foreign_grid_spec(rng, gs, d),
                           "cube": cube_points(rng, d, 4, 0.9), "index": rng.randrange(3),
                           "api": rng.choice(["points", "points", "PointSetTransformer"])}


def _points_args(c, g):
    pg = g if c["pgrid"] is None else gen.make_grid(c["pgrid"])
    tg = None if c["to_grid"] is None else gen.make_grid(c["to_grid"])
    # input points: cube points of the transform domain expressed in (pgrid, axes), stored as float32
    x = torch.tensor(c["cube"], dtype=torch.float32)
    x = g.transform_points(x, Axes.from_grid(g), to_axes=Axes(c["axes"]), to_grid=pg, decimals=None)
    return pg, tg, x.float()


def impl_points(c):
    t, g = prepare(c["spec"], c["grid"])
    pg, tg, x = _points_args(c, g)
    n = batch_size(t)
    with torch.no_grad():
        if c["api"] == "points":
            y = t.points(x.unsqueeze(0), grid=pg if c["pgrid"] else None, axes=c["axes"], to_grid=tg, to_axes=c["to_axes"])
        else:
            y = S.PointSetTransformer(t, grid=pg if c["pgrid"] else None, axes=c["axes"], to_grid=tg,
                                      to_axes=c["to_axes"])(x.unsqueeze(0))
    i = c["index"] % n if y.shape[0] > 1 else 0
    return {"values": proto.flat(y[i]), "scale": float(y.abs().max())}


def line_points(c):
    t, g = prepare(c["spec"], c["grid"])
    pg, tg, x = _points_args(c, g)
    to = pg if tg is None else tg
    n = batch_size(t)
    s1 = 1 if pg == g else 0
    s2 = 1 if to == g else 0
    return (f"xf.points {g.ndim} {proto.grid(g)} {member_tokens(t, c['index'] % n)} {proto.grid(pg)} {c['axes']} "
            f"{proto.grid(to)} {c['to_axes']} {s1} {s2} {x.shape[0]} {tvec(x)}")


def cmp_points(c, r, out):
    if isinstance(r, str):
        return cmp_vec(r, out)
    return cmp_vec(r["values"], out, RTOL32, r["scale"])


# ============================================================================ stream: disp(grid) / flow(grid)
def dense_sweep(rng: random.Random, views: bool):
    """every dense vector field configuration once: class x stride x resize x align_corners x output grid kind
    (the random generator reaches a particular combination such as stride>1 / resize=False / align_corners=False /
    own grid only with probability ~1e-3 per case)"""
    for cls in ("DisplacementFieldTransform", "StationaryVelocityFieldTransform"):
        for stride in (None, 2, 3):
            for resize in (True, False):
                for ac in (True, False):
                    for where in ("own", "foreign", "same_other_ac", "resized"):
                        d = 2
                        gs = tgrid_spec(rng, d, ac=ac, max_size=7, min_size=5)
                        spec = nonrigid_spec(rng, cls, d, groups=1)
                        spec["stride"], spec["resize"] = stride, resize
                        c = {"spec": spec, "grid": gs, "where": where, "index": 0, "api": "disp"}
                        if where == "foreign":
                            c["other"] = foreign_grid_spec(rng, gs, d, max_size=5)
                        elif where == "resized":
                            c["newsize"] = [rng.randint(2, 6) for _ in range(d)]
                        if views:
                            c["other2"] = foreign_grid_spec(rng, gs, d, max_size=5)
                        yield c


def gen_disp(rng: random.Random, tier: str):
    yield from dense_sweep(rng, False)
    for _ in range(_n(tier, 120, 2500)):
        d = rng.choice([2, 2, 3])
        ac = rng.random() < 0.6
        gs = tgrid_spec(rng, d, ac=ac, max_size=5 if d == 3 else 7)
        spec = any_spec(rng, d, ac)
        where = rng.choice(["own", "own", "foreign", "foreign", "same_other_ac", "resized"])
        c = {"spec": spec, "grid": gs, "where": where, "index": rng.randrange(3), "api": rng.choice(["disp", "disp", "flow"])}
        if where == "foreign":
            c["other"] = foreign_grid_spec(rng, gs, d, max_size=4 if d == 3 else 5)
        elif where == "resized":
            c["newsize"] = [rng.randint(2, 6 if d == 2 else 4) for _ in range(d)]
        yield c


def _disp_grid(c, g):
    w = c["where"]
    if w == "own":
        return None
    if w == "foreign":
        return gen.make_grid(c["other"])
    if w == "same_other_ac":
        return Grid(size=g.size(), spacing=g.spacing(), center=g.center(), direction=g.direction(),
                    align_corners=not g.align_corners())
    return g.resize(c["newsize"])


def impl_disp(c):
    t, g = prepare(c["spec"], c["grid"])
    og = _disp_grid(c, g)
    with torch.no_grad():
        u = t.disp(og) if c["api"] == "disp" else t.flow(og).tensor()
    n = batch_size(t)
    i = c["index"] % n if u.shape[0] > 1 else 0
    want = (og or g).shape
    if tuple(u.shape[2:]) != tuple(want):
        return f"err:shape:{list(u.shape)}"
    return proto.flat(u[i])


def line_disp(c):
    t, g = prepare(c["spec"], c["grid"])
    og = _disp_grid(c, g) or g
    n = batch_size(t)
    i = c["index"] % n
    d = g.ndim
    if isinstance(t, S.CompositeTransform):
        same = 1 if og.same_domain_as(g) else 0
        return f"xf.disp_composite {d} {proto.grid(g)} {member_tokens(t, i)} {proto.grid(og)} {same}"
    if isinstance(t, S.NonRigidTransform):
        u = t.tensor()
        k = i if u.shape[0] > 1 else 0
        fg = g.reshape(u.shape[2:])
        return (f"xf.disp_nonrigid {d} {proto.grid(g)} {proto.grid(fg)} {proto.grid(og)} {1 if og == g else 0} "
                f"{1 if og == fg else 0} 12 zeros {field_tokens(u[k].detach())}")
    same = 1 if og.same_domain_as(g) else 0
    return f"xf.disp_linear {d} {proto.grid(g)} {member_tokens(t, i)} {proto.grid(og)} {same}"


# ============================================================================ stream: ImageTransformer
def gen_warp(rng: random.Random, tier: str):
    for _ in range(_n(tier, 90, 1800)):
        d = rng.choice([2, 2, 3])
        ac = rng.random() < 0.6
        gs = tgrid_spec(rng, d, ac=ac, max_size=4 if d == 3 else 6)
        spec = any_spec(rng, d, ac)
        tk = rng.choice(["none", "other", "other", "resized", "same_other_ac", "flipped"])
        sk = rng.choice(["none", "other", "other", "transform"])
        pad = rng.choice(["border", "zeros", "const"])
        c = {"spec": spec, "grid": gs, "tk": tk, "sk": sk, "pad": pad, "cval": rng.choice([2.5, -1.0]) if pad == "const" else None,
             "seed": rng.randrange(1 << 30), "image": rng.choice(["random", "ramp"]), "index": rng.randrange(3)}
        if tk == "other":
            c["target"] = foreign_grid_spec(rng, gs, d, max_size=3 if d == 3 else 5)
        if tk == "resized":
            c["newsize"] = [rng.randint(2, 5 if d == 2 else 3) for _ in range(d)]
        if sk == "other":
            c["source"] = foreign_grid_spec(rng, gs, d, max_size=4 if d == 3 else 6)
        yield c


def _warp_grids(c, g):
    tk, sk = c["tk"], c["sk"]
    tgt = {"none": None, "other": lambda: gen.make_grid(c["target"]), "resized": lambda: g.resize(c["newsize"]),
           "same_other_ac": lambda: Grid(size=g.size(), spacing=g.spacing(), center=g.center(), direction=g.direction(),
                                         align_corners=not g.align_corners()),
           # the same field of view sampled in REVERSED index order along the first two axes (a 180 degree in-plane turn,
           # e.g. LPS vs RAS): the points span the same box as the transform's lattice but are not that lattice
           "flipped": lambda: Grid(size=g.size(), spacing=g.spacing(), center=g.center(), align_corners=g.align_corners(),
                                   direction=g.direction() @ torch.diag(torch.tensor([-1.0, -1.0, 1.0][:g.ndim])))}[tk]
    tgt = tgt() if callable(tgt) else None
    src = {"none": None, "other": lambda: gen.make_grid(c["source"]), "transform": lambda: g}[sk]
    src = src() if callable(src) else None
    return tgt, src


def _ramp(c, src: Grid, w: torch.Tensor) -> torch.Tensor:
    """linear intensity ramp in world space, centred at the source grid (keeps |I| of the order of the extent)."""
    r = random.Random(c["seed"])
    a = torch.tensor([round(r.uniform(-2, 2), 2) for _ in range(src.ndim)])
    return (w - src.center()) @ a + 1.5


def _warp_image(c, src: Grid):
    if c["image"] == "ramp":
        w = src.index_to_world(src.coords(normalize=False), decimals=None)
        return _ramp(c, src, w).float().unsqueeze(0)
    g_ = torch.Generator().manual_seed(c["seed"])
    return torch.randint(-20, 21, (1,) + tuple(src.shape), generator=g_).float()


def impl_warp(c):
    t, g = prepare(c["spec"], c["grid"])
    tgt, src = _warp_grids(c, g)
    eff_t = tgt or g
    eff_s = src or eff_t
    img = _warp_image(c, eff_s)
    padding = c["cval"] if c["pad"] == "const" else c["pad"]
    tr = S.ImageTransformer(t, target=tgt, source=src, padding=padding)
    n = batch_size(t)
    data = img.unsqueeze(0).expand((n,) + img.shape) if n > 1 else img.unsqueeze(0)
    with torch.no_grad():
        out = tr(data)
    i = c["index"] % n if out.shape[0] > 1 else 0
    if tuple(out.shape[2:]) != tuple(eff_t.shape):
        return f"err:shape:{list(out.shape)}"
    return {"values": proto.flat(out[i, 0]), "amax": float(img.abs().max())}


def line_warp(c):
    t, g = prepare(c["spec"], c["grid"])
    tgt, src = _warp_grids(c, g)
    eff_t = tgt or g
    eff_s = src or eff_t
    img = _warp_image(c, eff_s)
    n = batch_size(t)
    pad = f"const:{proto.fr(c['cval'])}" if c["pad"] == "const" else c["pad"]
    # the lattice flag of ImageTransformer.__init__, recomputed here from the grids (not read from the object)
    ac = g.align_corners()
    x = eff_t.coords(align_corners=ac)
    x = eff_t.transform_points(x, axes=Axes.from_align_corners(ac), to_grid=g)
    lattice = Grid(shape=eff_t.shape, align_corners=ac).coords()
    is_lat = 1 if torch.allclose(x, lattice, atol=1e-5) else 0
    return (f"xf.warp {g.ndim} {proto.grid(g)} {member_tokens(t, c['index'] % n)} {proto.grid(eff_t)} {proto.grid(eff_s)} "
            f"{1 if eff_t == g else 0} {1 if eff_s == g else 0} {is_lat} 12 {pad} {tvec(img[0])}")


def cmp_warp(c, r, out):
    if isinstance(r, str):
        return cmp_vec(r, out)
    if proto.is_error(out):
        return f"model {out}"
    return close(r["values"], proto.parse_vec(out), RTOLV, max(r["amax"], abs(c["cval"] or 0)))


# ============================================================================ stream: MultiLevelTransform
def gen_ml(rng: random.Random, tier: str):
    for _ in range(_n(tier, 60, 1200)):
        d = rng.choice([2, 3])
        ac = rng.random() < 0.6
        spec = composite_spec(rng, d, ac, allow_nonrigid=rng.random() < 0.6, kind="MultiLevel")
        yield {"spec": spec, "grid": tgrid_spec(rng, d, ac=ac, max_size=5), "points": cube_points(rng, d, 4, 0.9)}


def impl_ml(c):
    t, g = prepare(c["spec"], c["grid"])
    # MultiLevelTransform.tensor() adds in place into the first member's tensor: work on a fresh object each time
    p = torch.tensor(c["points"], dtype=torch.float32).unsqueeze(0)
    with torch.no_grad():
        y = t.forward(p)
    return proto.flat(y[0])


def line_ml(c):
    t, g = prepare(c["spec"], c["grid"])
    ms = list(t.transforms())
    pts = torch.tensor(c["points"], dtype=torch.float32)
    return (f"xf.ml_forward {g.ndim} {len(ms)} " + " ".join(member_tokens(m, 0) for m in ms)
            + f" {pts.shape[0]} {tvec(pts)}")


def cmp_ml(c, r, out):
    if proto.is_error(out) or isinstance(r, str):
        return cmp_vec(r, out)
    coded, spec = [t.strip() for t in out.split("|")]
    return cmp_vec(r, coded) or (cmp_vec(r, spec) and "vs documented sum: " + cmp_vec(r, spec))


def _safe_line(fn):
    """a line builder re-runs the implementation to read the stored parameters; if the (possibly broken) implementation
    raises there, the case must become a disagreement (model: bad-op), not a harness error."""
    def wrapped(c):
        try:
            return fn(c)
        except Exception as e:       # noqa: BLE001
            return f"xf.unbuildable {type(e).__name__}"
    return wrapped


STREAMS = PRIM_STREAMS + [
    Stream("tensor", gen_tensor, impl_tensor, _safe_line(line_tensor), cmp_tensor, exhaustive=False,
           doc="tensor() / matrix() of the 7 linear classes and 5 named composites x D in {2,3} x groups {1,3} x params kind "
               "{Parameter via setter, tensor} x invert (class table cycled exhaustively), and random linear "
               "Sequential/MultiLevel composites (nested), vs the model at the stored parameters; raised errors compared"),
    Stream("default", gen_default, impl_default, _safe_line(line_default), cmp_tensor, exhaustive=True,
           doc="freshly constructed linear classes x D x groups {1,2} x params {True, False} x all Euler orders: "
               "tensor() vs the model's default values (reset_parameters)"),
    Stream("forward", gen_forward, impl_forward, _safe_line(line_forward), cmp_generic,
           doc="t(points) for every class (linear, named, non-rigid DDF/SVF/FFD/SVFFD, Sequential mixes, Generic configs), "
               "point tensors (N,M,D)/(1,M,D)/(1,..,M,D), groups 1/N, points inside and outside the cube"),
    Stream("forward_grid", gen_forward_grid, impl_forward_grid, _safe_line(line_forward_grid), cmp_generic,
           doc="forward(lattice, grid=True): own grid coords and other regular lattices (resized field added)"),
    Stream("points", gen_points, impl_points, _safe_line(line_points), cmp_points, exhaustive=True,
           doc="SpatialTransform.points / PointSetTransformer for all 16 (axes, to_axes) pairs x {own, foreign} grid x "
               "{own, foreign} to_grid"),
    Stream("disp", gen_disp, impl_disp, _safe_line(line_disp), cmp_generic,
           doc="disp(grid) / flow(grid) on the own grid, foreign oriented grids, the same samples with the other "
               "align_corners flag, and resized grids; linear (affine_flow), composite (grid maps around forward, no rounding), "
               "non-rigid (resize / FlowFields.sample)"),
    Stream("warp", gen_warp, impl_warp, _safe_line(line_warp), cmp_warp,
           doc="ImageTransformer(transform, target, source)(image): random integer images and linear ramps, target in "
               "{None, other domain, resized, other align_corners}, source in {None, other, transform grid}, padding "
               "{border, zeros, constant}"),
    Stream("multilevel", gen_ml, impl_ml, _safe_line(line_ml), cmp_ml,
           doc="MultiLevelTransform.forward for linear (composite matrix sum A_i - (n-1) I | sum t_i), non-linear and mixed member lists; "
               "also compared with the documented sum x + sum u_i(x) evaluated by the model"),
]



# ============================================================================ property oracles (implementation only)
OTOL = 2e-3      # world/cube agreement of two float32 evaluation routes, relative to max(1, |coordinates|)


def _world_map(t, xw: torch.Tensor, index: int = 0) -> torch.Tensor:
    """the world-space map W_T of a transform: world -> own cube -> t(points) -> world (points (M, D))."""
    g, ac = t.grid(), t.align_corners()
    c = g.world_to_cube(xw, align_corners=ac, decimals=None)
    with torch.no_grad():
        y = t(c.unsqueeze(0))
    y = y[index if y.shape[0] > 1 else 0]
    return g.cube_to_world(y, align_corners=ac, decimals=None)


def _field_sizes(t):
    """sizes (x first) of the buffered displacement fields of all non-rigid members."""
    if isinstance(t, S.CompositeTransform):
        return [sz for m in t.transforms() for sz in _field_sizes(m)]
    if isinstance(t, S.NonRigidTransform):
        return [list(reversed(t.tensor().shape[2:]))]
    return []


def _in_hull(t, xw: torch.Tensor, margin: float = 0.02) -> torch.Tensor:
    """mask of world points inside the sample hull of every sampled field of the transform (where the field is
    interpolated rather than extrapolated); the field may be coarser than the transform grid (stride, resize=False)."""
    g, ac = t.grid(), t.align_corners()
    c = g.world_to_cube(xw, align_corners=ac, decimals=None)
    lim = torch.ones(g.ndim)
    if not ac:
        for sz in _field_sizes(t):
            lim = torch.minimum(lim, 1 - 1 / torch.tensor([float(v) for v in sz]))
    return (c.abs() <= lim - margin).all(-1)


def _has_nonrigid(t) -> bool:
    if isinstance(t, S.CompositeTransform):
        return any(_has_nonrigid(m) for m in t.transforms())
    return isinstance(t, S.NonRigidTransform)


def _grid_evaluated_nonrigid(t) -> bool:
    """does forward(points, grid=True) reach a non-rigid member with grid=True?"""
    if isinstance(t, S.NonRigidTransform):
        return True
    if isinstance(t, S.CompositeTransform) and not t.linear:
        ms = list(t.transforms())
        return bool(ms) and _grid_evaluated_nonrigid(ms[0])
    return False


def _kind(t) -> str:
    if isinstance(t, S.CompositeTransform):
        return "composite"
    return "nonrigid" if isinstance(t, S.NonRigidTransform) else "linear"


# ---------------------------------------------------------------- identity at construction
def gen_identity(rng: random.Random, tier: str):
    for d in (2, 3):
        for ac in (True, False):
            for groups in (1, 2):
                for cls in LINEAR + list(NAMED) + NONRIGID:
                    if d == 2 and cls in ("QuaternionRotation", "RigidQuaternionTransform"):
                        continue
                    if not ac and cls in NONRIGID[2:]:
                        continue
                    for params in (True, False):
                        yield {"cls": cls, "d": d, "groups": groups, "params": params,
                               "grid": tgrid_spec(rng, d, ac=ac, max_size=6), "points": cube_points(rng, d, 4, 1.0)}
            for model in GENERIC_MODELS:
                if not ac and "FFD" in model:
                    continue
                for am in AFFINE_MODELS:
                    if d == 2 and "Q" in am:
                        continue
                    if "Affine" not in model and am != "TRS":
                        continue
                    yield {"cls": "Generic", "d": d, "transform": model, "affine_model": am, "params": True,
                           "grid": tgrid_spec(rng, d, ac=ac, max_size=6), "points": cube_points(rng, d, 4, 1.0)}


def check_identity(c):
    g = gen.make_grid(c["grid"])
    if c["cls"] == "Generic":
        t = GenericSpatialTransform(g, params=True, config=TransformConfig(transform=c["transform"],
                                                                          affine_model=c["affine_model"]))
        bad = [ch for ch in c["affine_model"] if ch in "AQ"] if "Affine" in c["transform"] else []
        key = "C06:default:GenericSpatialTransform" + (":" + "".join(sorted(set(bad))) if bad else "")
    elif c["cls"] in NAMED:
        kw = {kw_: c["params"] for kw_, _ in NAMED[c["cls"]]}
        t = getattr(S, c["cls"])(g, groups=c["groups"], **kw)
        key = f"C06:default:{c['cls']}"
    else:
        t = getattr(S, c["cls"])(g, groups=c["groups"], params=c["params"])
        key = f"C06:default:{c['cls']}"
    x = torch.tensor(c["points"], dtype=torch.float32).unsqueeze(0)
    with torch.no_grad():
        y = t(x)
        e = float((y - x).abs().max())
    if e > 1e-5:
        return (key, f"freshly constructed {c['cls']} (D={c['d']}) moves cube points by up to {e:.3g}")
    with torch.no_grad():
        u = t.disp()
    if float(u.abs().max()) > 1e-5:
        return (key + ":disp", f"freshly constructed {c['cls']}: disp() is not zero ({float(u.abs().max()):.3g})")
    return None


# ---------------------------------------------------------------- views agree (disp / matrix / points / flow)
def gen_views(rng: random.Random, tier: str):
    yield from dense_sweep(rng, True)
    for _ in range(_n(tier, 120, 2000, 300)):
        d = rng.choice([2, 2, 3])
        ac = rng.random() < 0.6
        gs = tgrid_spec(rng, d, ac=ac, max_size=6)
        spec = any_spec(rng, d, ac)
        where = rng.choice(["own", "foreign", "foreign", "same_other_ac", "resized"])
        c = {"spec": spec, "grid": gs, "where": where, "index": rng.randrange(3)}
        if where == "foreign":
            c["other"] = foreign_grid_spec(rng, gs, d, max_size=5)
        elif where == "resized":
            c["newsize"] = [rng.randint(2, 7) for _ in range(d)]
        c["other2"] = foreign_grid_spec(rng, gs, d, max_size=5)
        yield c


def check_views(c):
    t, g = prepare(c["spec"], c["grid"])
    n = batch_size(t)
    i = c["index"] % n
    kind = _kind(t)
    d = g.ndim
    og = _disp_grid(c, g) or g
    # --- disp(grid): u_j = toCube_grid(W(toWorld_grid x_j)) - x_j
    try:
        with torch.no_grad():
            u = t.disp(None if c["where"] == "own" else og)
            f = t.flow(None if c["where"] == "own" else og)
    except Exception as e:
        return (f"C06:disp:{kind}:{c['where']}:raises:{type(e).__name__}", f"disp() raised {type(e).__name__}: {str(e)[:120]}")
    if not torch.equal(f.tensor(), u) or f.grid() != og:
        return (f"C06:flow:{kind}", "flow(grid) differs from disp(grid) / does not carry the grid")
    u = u[i if u.shape[0] > 1 else 0]
    oac = og.align_corners()
    xc = og.coords(align_corners=oac)
    xw = og.cube_to_world(xc, align_corners=oac, decimals=None).reshape(-1, d)
    yw = _world_map(t, xw, i)
    want = (og.world_to_cube(yw, align_corners=oac, decimals=None) - xc.reshape(-1, d))
    got = u.reshape(d, -1).t()
    mask = torch.ones(xw.shape[0], dtype=torch.bool)
    if _has_nonrigid(t):
        mask = _in_hull(t, xw) & _in_hull(t, yw)
    if mask.any():
        e = float((got - want)[mask].abs().max())
        scale = max(1.0, float(want[mask].abs().max()))
        if e > OTOL * scale:
            extra = ""
            if c["where"] == "foreign" and og.align_corners() != g.align_corners():
                extra = ":ac-differs"
            return (f"C06:disp:{kind}:{c['where']}{extra}",
                    f"disp({c['where']} grid) of a {type(t).__name__} differs from T(x)-x in world terms by {e:.3g} "
                    f"(|u| up to {scale:.3g}) at {int(mask.sum())} compared points")
    # --- matrix(): same map as forward
    if isinstance(t, S.LinearTransform):
        p = torch.tensor(cube_points(random.Random(c["index"]), d, 4, 1.0))
        try:
            with torch.no_grad():
                m = t.matrix()
        except Exception as e:
            return (f"C06:{type(t).__name__}.matrix:raises", f"matrix() raised {type(e).__name__}: {str(e)[:100]}")
        m = m[i if m.shape[0] > 1 else 0]
        with torch.no_grad():
            y = t(p.unsqueeze(0))
        y = y[i if y.shape[0] > 1 else 0]
        e = float((p @ m[:, :d].t() + m[:, d] - y).abs().max())
        if e > 1e-4:
            return (f"C06:{type(t).__name__}.matrix:map", f"matrix() is a different map than forward() (diff {e:.3g})")
    # --- points(..., WORLD) through two other grids = W_T
    g2 = gen.make_grid(c["other2"])
    r = random.Random(c["index"] + 7)
    cw = torch.tensor(cube_points(r, d, 4, 0.8))
    xw = g.cube_to_world(cw, align_corners=g.align_corners(), decimals=None)
    yw = _world_map(t, xw, i)
    for (pg, a, tg_, b) in ((None, "world", None, "world"), (og, "world", g2, "world"), (g2, "cube", og, "grid")):
        x_in = xw if a == "world" else (pg or g).world_to_cube(xw, align_corners=False, decimals=None)
        with torch.no_grad():
            y = t.points(x_in.unsqueeze(0), grid=pg, axes=a, to_grid=tg_, to_axes=b)
        y = y[i if y.shape[0] > 1 else 0]
        to = tg_ or pg or g
        yw2 = y if b == "world" else to.index_to_world(y, decimals=None)
        e = float((yw2 - yw).abs().max())
        scale = max(1.0, float(yw.abs().max()))
        if e > OTOL * scale:
            return (f"C06:points:{a}->{b}", f"points(axes={a}, to_axes={b}) differs from the world map by {e:.3g}")
    return None


# ---------------------------------------------------------------- sequential order / multi-level sum
def gen_composite(rng: random.Random, tier: str):
    for _ in range(_n(tier, 120, 2000, 300)):
        d = rng.choice([2, 3])
        ac = rng.random() < 0.6
        kind = rng.choice(["Sequential", "MultiLevel"])
        spec = composite_spec(rng, d, ac, allow_nonrigid=rng.random() < 0.5, kind=kind)
        yield {"spec": spec, "grid": tgrid_spec(rng, d, ac=ac, max_size=5), "points": cube_points(rng, d, 5, 0.9)}


def _ml_translation(spec) -> bool:
    """does the spec contain an all-linear MultiLevel with a Translation member (raises: F-08a)?"""
    if spec["cls"] == "MultiLevel" and all(spec_is_linear(m) for m in spec["members"]) and \
            any(m["cls"] == "Translation" for m in spec["members"]):
        return True
    return any(_ml_translation(m) for m in spec.get("members", []) if "members" in m)


def check_composite(c):
    g = gen.make_grid(c["grid"])
    d = g.ndim
    x = torch.tensor(c["points"], dtype=torch.float32).unsqueeze(0)
    members = [build(m, g) for m in c["spec"]["members"]]
    try:
        with torch.no_grad():
            ys = [m(x) for m in members]         # each member on its own, at the input points
    except RuntimeError as e:
        if any(_ml_translation(m) for m in c["spec"]["members"] if "members" in m):
            return ("C06:MultiLevelTransform:translation:raises", f"(nested member) RuntimeError: {str(e)[:100]}")
        raise
    seq = c["spec"]["cls"] == "Sequential"
    with torch.no_grad():
        if seq:
            want = x
            for m in members:
                want = m(want)
        else:
            want = x + sum((y - x) for y in ys)
    members = [build(m, g) for m in c["spec"]["members"]]     # fresh objects: the composite must not see touched ones
    before = [m.params.detach().clone() if isinstance(getattr(m, "params", None), torch.Tensor) else None for m in members]
    t = (S.SequentialTransform if seq else S.MultiLevelTransform)(g, *members)
    name = type(t).__name__
    lin = "linear" if t.linear else "nonlinear"
    k = len(members)
    try:
        with torch.no_grad():
            y = t(x)
    except Exception as e:
        if not seq and t.linear and "same number of dimensions" in str(e):
            # a member whose tensor() has the (N, D, 1) translation form (a Translation, or a Sequential of translations)
            return ("C06:MultiLevelTransform:translation:raises", f"{type(e).__name__}: {str(e)[:100]}")
        return (f"C06:{name}:{lin}:raises:{type(e).__name__}", f"{type(e).__name__}: {str(e)[:100]}")
    e = float((y - want).abs().max())
    if e > 2e-4 * max(1.0, float(want.abs().max())):
        if not seq and t.linear and k >= 2:
            return ("C06:MultiLevelTransform:linear:sums-matrices",
                    f"MultiLevelTransform of {k} linear members maps x to something else than x + sum u_i(x) (diff {e:.3g})")
        return (f"C06:{name}:{lin}:{'order' if seq else 'sum'}", f"{name} of {k} members differs from the "
                f"{'composition in listed order' if seq else 'sum of displacements'} by {e:.3g}")
    for m, b in zip(members, before):
        if b is not None and not torch.equal(b, m.params.detach()):
            return (f"C06:{name}:{lin}:mutates-member-params", f"calling the composite changed the parameters of a {type(m).__name__} member")
    if t.linear:
        with torch.no_grad():
            m_ = t.tensor()
        from deepali.core.linalg import homogeneous_transform
        e = float((homogeneous_transform(m_, x) - want).abs().max())
        if e > 2e-4 * max(1.0, float(want.abs().max())):
            return (f"C06:{name}:tensor", f"tensor() of the composite is a different map (diff {e:.3g})")
    return None


def gen_ml_mutation(rng: random.Random, tier: str):
    for d in (2, 3):
        for kind in ("tensor", "parameter"):
            for grad in (False, True):
                yield {"d": d, "kind": kind, "grad": grad, "grid": tgrid_spec(rng, d, max_size=5)}


def check_ml_mutation(c):
    g = gen.make_grid(c["grid"])
    d = g.ndim
    rng = random.Random(d)
    a = build(linear_spec(rng, "HomogeneousTransform", d, 1, c["kind"]), g)
    b = build(linear_spec(rng, "HomogeneousTransform", d, 1, c["kind"]), g)
    before = a.params.detach().clone()
    t = S.MultiLevelTransform(g, a, b)
    x = torch.zeros(1, 2, d)
    try:
        if c["grad"]:
            t(x)
        else:
            with torch.no_grad():
                t(x)
    except RuntimeError as e:
        return ("C06:MultiLevelTransform:linear:inplace-on-parameter:raises", f"RuntimeError: {str(e)[:100]}")
    if not torch.equal(before, a.params.detach()):
        return ("C06:MultiLevelTransform:linear:mutates-first-member",
                "MultiLevelTransform.tensor() added the second member's matrix into the first member's parameters")
    return None


# ---------------------------------------------------------------- warp: ImageTransformer on linear ramps
def gen_warp_oracle(rng: random.Random, tier: str):
    for c in gen_warp(rng, tier):
        c["image"] = "ramp"
        c["pad"], c["cval"] = "zeros", None
        yield c


def check_warp(c):
    t, g = prepare(c["spec"], c["grid"])
    tgt, src = _warp_grids(c, g)
    eff_t = tgt or g
    eff_s = src or eff_t
    d = g.ndim
    img = _warp_image(c, eff_s)
    n = batch_size(t)
    i = c["index"] % n
    kind = "grid-evaluated-nonrigid" if _grid_evaluated_nonrigid(t) else ("nonrigid-later" if _has_nonrigid(t) else "linear")
    try:
        tr = S.ImageTransformer(t, target=tgt, source=src, padding="zeros")
        data = img.unsqueeze(0).expand((n,) + img.shape) if n > 1 else img.unsqueeze(0)
        with torch.no_grad():
            out = tr(data)
    except Exception as e:
        return (f"C06:ImageTransformer:{kind}:{c['tk']}:raises:{type(e).__name__}", f"{type(e).__name__}: {str(e)[:120]}")
    out = out[i if out.shape[0] > 1 else 0, 0].reshape(-1)
    xw = eff_t.index_to_world(eff_t.coords(normalize=False), decimals=None).reshape(-1, d)
    yw = _world_map(t, xw, i)
    want = _ramp(c, eff_s, yw)
    ci = eff_s.world_to_index(yw, decimals=None)
    nn = torch.tensor([float(v) for v in eff_s.size()])
    mask = ((ci >= 1e-3) & (ci <= nn - 1 - 1e-3)).all(-1)
    if _has_nonrigid(t):
        mask &= _in_hull(t, xw) & _in_hull(t, yw)
    if not mask.any():
        return None
    e = float((out - want)[mask].abs().max())
    scale = max(1.0, float(img.abs().max()))
    if e > 2e-3 * scale:
        return (f"C06:ImageTransformer:{kind}:target={c['tk']}",
                f"ImageTransformer({type(t).__name__}, target={c['tk']}, source={c['sk']}) on a linear ramp differs from "
                f"I(T(x)) in world terms by {e:.3g} (|I| up to {scale:.3g}) at {int(mask.sum())} samples inside the source")
    return None


# ---------------------------------------------------------------- GenericSpatialTransform configurations
def gen_generic(rng: random.Random, tier: str):
    for d in (2, 3):
        for model in GENERIC_MODELS:
            for am in AFFINE_MODELS:
                if d == 2 and "Q" in am:
                    continue
                if "Affine" not in model and am != "TRS":
                    continue
                for params in ("bool", "callable", "dict"):
                    ac = True
                    spec = generic_spec(rng, d, ac, params=params)
                    spec["transform"], spec["affine_model"] = model, am
                    spec["values"] = {}
                    if "Affine" in model:
                        for ch in am.replace(" o ", ""):
                            name, mc = LETTER[ch]
                            spec["values"][name] = linear_values(rng, mc, d, 1, "tensor", small=(mc != "Translation"))
                    yield {"spec": spec, "grid": tgrid_spec(rng, d, ac=ac, max_size=5), "points": cube_points(rng, d, 4, 0.8)}


def check_generic(c):
    g = gen.make_grid(c["grid"])
    spec = c["spec"]
    try:
        t = build(spec, g)
    except AttributeError as e:
        if spec["params"] == "dict":
            return ("C06:GenericSpatialTransform:params=dict:AttributeError", f"AttributeError: {str(e)[:100]}")
        raise
    x = torch.tensor(c["points"], dtype=torch.float32).unsqueeze(0)
    try:
        with torch.no_grad():
            y = t(x)
    except AssertionError as e:
        if "Shearing" in str(e) and spec["params"] != "bool":
            return ("C06:GenericSpatialTransform:shearing:params-not-set", f"AssertionError: {str(e)[:100]}")
        raise
    # documented meaning: "A o B" applies B first; affine_model letters are matrix factors (right-most first)
    with torch.no_grad():
        parts = dict(t.named_transforms())
        comps = spec["transform"].split(" o ")
        want = x
        for comp in reversed(comps):
            if comp == "Affine":
                for ch in reversed(spec["affine_model"].replace(" o ", "")):
                    want = parts[LETTER[ch][0]](want)
            else:
                want = parts["nonrigid"](want)
    e = float((y - want).abs().max())
    if e > 2e-4 * max(1.0, float(want.abs().max())):
        return (f"C06:GenericSpatialTransform:order:{spec['transform']}:{spec['affine_model']}",
                f"composition order differs from the configured model (diff {e:.3g})")
    return None


ORACLES = [
    Oracle("identity_default", gen_identity, check_identity,
           doc="every class (linear, named composite, non-rigid, Generic configs) x D x align_corners x groups x params "
               "{True, False}: freshly constructed transform maps cube points to themselves and has zero disp()"),
    Oracle("views", gen_views, check_views,
           doc="disp(grid)/flow(grid) on own / foreign / other-align_corners / resized grids = T(x)-x in world terms; "
               "matrix() = forward(); points(...) through other grids and axes = the world map"),
    Oracle("composite", gen_composite, check_composite,
           doc="Sequential = composition in listed order, MultiLevel = x + sum of member displacements; tensor() of linear "
               "composites; members' parameters untouched"),
    Oracle("ml_mutation", gen_ml_mutation, check_ml_mutation,
           doc="MultiLevelTransform of HomogeneousTransforms: in-place addition into the first member's parameters"),
    Oracle("warp", gen_warp_oracle, check_warp,
           doc="ImageTransformer(transform, target, source) on linear ramps = I(T(x)) in world space at samples whose source "
               "position is inside the source image"),
    Oracle("generic", gen_generic, check_generic,
           doc="GenericSpatialTransform: every transform model x affine model x params {bool, callable, dict} constructs, "
               "evaluates and composes its members in the configured order"),
]


def search_cases(disagreements: List[dict]):
    extra = {"views": [], "warp": [], "composite": []}
    for dsg in disagreements[:40]:
        c = dsg["case"]
        if "spec" not in c or "grid" not in c:
            continue
        d = len(c["grid"]["size"])
        r = random.Random(0)
        for where in ("own", "foreign", "same_other_ac"):
            v = {"spec": c["spec"], "grid": c["grid"], "where": where, "index": c.get("index", 0),
                 "other2": foreign_grid_spec(r, c["grid"], d, max_size=5)}
            if where == "foreign":
                v["other"] = c.get("other") or foreign_grid_spec(r, c["grid"], d, max_size=5)
            extra["views"].append(v)
        if "tk" in c:
            w = dict(c)
            w["image"], w["pad"], w["cval"] = "ramp", "zeros", None
            extra["warp"].append(w)
        else:
            extra["warp"].append({"spec": c["spec"], "grid": c["grid"], "tk": "none", "sk": "none", "pad": "zeros",
                                  "cval": None, "seed": 1, "image": "ramp", "index": c.get("index", 0)})
        if c["spec"]["cls"] in ("Sequential", "MultiLevel"):
            extra["composite"].append({"spec": c["spec"], "grid": c["grid"], "points": cube_points(r, d, 5, 0.9)})
    return extra
