"""C07 — inverse() really inverts: T^-1(T(x)) = x = T(T^-1(x)) for every invertible transform model.

Correspondence (model = Model/Transforms.lean, ops `xf.*`): the tensor of `t.inverse(link, update_buffers)` for every
linear class x D x params kind {Parameter, tensor, callable} x link x update_buffers x {before, after an in-place
parameter change} against the model's `tensor()` with the invert flag at the stored parameters; `SequentialTransform.inverse`
(named composites, random linear Sequentials, affine GenericSpatialTransforms) against the model's `seqInverse` built from the
FORWARD object's parameters; `inverse()(points)` for composites with velocity-field members against the model evaluated on
the inverse object's buffered field.
The state-machine clause (forward and inverse read the same parameter version: `C07_shared_params`) is modelled by
Model/TransformState.lean of property C09 (another builder); here it is covered by the oracle `shared_params` only.
"""
from __future__ import annotations

import math
import random
from typing import List

import torch

import deepali.spatial as S
from deepali.core.grid import Grid
from deepali.spatial.generic import GenericSpatialTransform

from lib import gen, proto
from lib.core import Oracle, Stream, close
from props.prim import PRIM_STREAMS
from props.xf_lib import *  # noqa: F401,F403
from props.xf_lib import _n

PROP = "C07"
# the state-machine clause (forward and inverse read the same parameters) is proved on the C09 model
EXTRA_OBLIGATION_MODULES = ["C07State"]
ASSUMPTIONS = [
    "floats are the exact rationals they denote; 'to floating-point accuracy' is a tolerance: |inv(t(x)) - x| <= 2e-5 * "
    "max(1,|x|,cond) for linear models in float32 (a handful of 3x3 products), 2e-4 in the correspondence",
    "cos/sin/tan/tanh/exp of the stored parameters are computed in float32 by the harness and passed as exact rationals; the "
    "theorems carry c^2+s^2=1, n^2=|q|^2 with n>0, s != 0, det != 0 (IsUnit det)",
    "torch.inverse is modelled as adjugate/determinant (2-D and 3-D, the dimensions transforms are defined in)",
    "velocity-field models: second order is proved for diagonal generators only (C07_svf_affine_second_order_partial); for "
    "smooth band-limited fields the oracle measures err <= 0.1 * amp^2 + 2e-3 voxels (amp <= 2 voxels, interior points)",
    "the clause 'the inverse shares the forward parameters' is a state-machine statement (C07_shared_params lives with "
    "property C09's Model/TransformState.lean); this check covers it by the oracle `shared_params`: in-place changes for every "
    "kind, data_() replacement when linked (I-2)",
    "link=True with nn.Parameter-held params raised TypeError (F-07) and, once that was repaired, skipped the tanh/exp "
    "re-parameterisation (F-07b, found by this check); both are repaired in /repo (20bab42, 4597ff0), the combination is "
    "part of every stream and oracle, and the oracle keys of both defects stay in place (a revert gives a VIOLATION)",
]
TRUSTED = ["Model/Transforms.lean hand transcription of spatial/linear.py *.tensor (invert), parametric.py inverse, "
           "composite.py SequentialTransform.inverse", "Model/{Affine,Kornia,FlowOps}.lean (C08, C11 models, reused)"]
RULE = ("class x D x params-kind x link x update_buffers x {before, after} tables are enumerated exhaustively; parameter "
        "values, grids and points are drawn from one PRNG seeded by VERIF_SEED")

KINDS = ["parameter", "tensor", "callable"]
INVERTIBLE_NAMED = list(NAMED)


def _edit_in_place(t, factor=0.7, shift=0.03):
    """in-place change of the parameters a transform reads (Parameter / buffer / tensor returned by the callable)."""
    ts = list(t.transforms()) if isinstance(t, S.CompositeTransform) else [t]
    with torch.no_grad():
        for m in ts:
            if isinstance(m, S.CompositeTransform):
                _edit_in_place(m, factor, shift)
                continue
            src = getattr(m, "_verif_source", None)
            p = src if src is not None else m.params
            if not isinstance(p, torch.Tensor):
                continue
            if isinstance(m, (S.IsotropicScaling, S.AnisotropicScaling, S.HomogeneousTransform, S.QuaternionRotation)):
                p.add_(shift)
            else:
                p.mul_(factor)


# ============================================================================ stream: tensor of the inverse
def gen_inv_tensor(rng: random.Random, tier: str):
    for rep in range(_n(tier, 1, 12)):
        for cls in LINEAR:
            for d in (2, 3):
                if d == 2 and cls == "QuaternionRotation":
                    continue
                for kind in KINDS:
                    for link in (False, True):
                        for ub in (False, True):
                            for when in ("before", "after"):
                                groups = rng.choice([1, 2])
                                spec = linear_spec(rng, cls, d, groups, kind)
                                yield {"spec": spec, "grid": tgrid_spec(rng, d), "link": link, "ub": ub, "when": when,
                                       "index": rng.randrange(groups), "api": rng.choice(["inverse", "inverse", "inv"])
                                       if (link and ub) else "inverse"}


def _make_inverse(c):
    g = gen.make_grid(c["grid"])
    t = build(c["spec"], g)
    with torch.no_grad():
        t.update()
        inv = t.inv if c.get("api") == "inv" else t.inverse(link=c["link"], update_buffers=c["ub"])
        if c["when"] == "after":
            _edit_in_place(t)
        if not c.get("direct"):
            t.update()
            inv.update()
    return t, inv, g


def impl_inv_tensor(c):
    t, inv, g = _make_inverse(c)
    with torch.no_grad():
        m = inv.tensor()
    return proto.flat(m[c["index"] if m.shape[0] > 1 else 0])


def line_inv_tensor(c):
    t, inv, g = _make_inverse(c)
    # the model's tensor with invert=True at the FORWARD object's current parameters
    toks = member_tokens(t, c["index"]).split()
    assert toks[0] == "c" and toks[2] == "0"
    toks[2] = "1"
    return f"xf.tensor {g.ndim} " + " ".join(toks)


def cmp_h(c, r, out):
    if isinstance(r, str):
        return cmp_vec(r, out)
    if proto.is_error(out):
        return f"model {out}; impl returned values"
    return close(r, h_values(out), RTOL32)


# ============================================================================ stream: SequentialTransform.inverse
def gen_seq_inverse(rng: random.Random, tier: str):
    for rep in range(_n(tier, 2, 40)):
        for cls in INVERTIBLE_NAMED:
            for d in (2, 3):
                if d == 2 and cls == "RigidQuaternionTransform":
                    continue
                for kind in KINDS:
                    link = rng.random() < 0.5
                    yield {"spec": named_spec(rng, cls, d, groups=rng.choice([1, 2]), kind=kind),
                           "grid": tgrid_spec(rng, d), "link": link, "ub": rng.random() < 0.5,
                           "when": rng.choice(["before", "after"]), "index": rng.randrange(2)}
    for _ in range(_n(tier, 50, 800)):
        d = rng.choice([2, 3])
        k = rng.randint(1, 4)
        members = [linear_spec(rng, rng.choice([c_ for c_ in LINEAR if d == 3 or c_ != "QuaternionRotation"]), d, 1,
                               rng.choice(["tensor", "parameter"]), small=True) for _ in range(k)]
        for m in members:
            m["invert"] = rng.random() < 0.25          # a member may itself already be an inverse
        yield {"spec": {"cls": "Sequential", "members": members}, "grid": tgrid_spec(rng, d), "link": False,
               "ub": rng.random() < 0.5, "when": "before", "index": 0}
    for _ in range(_n(tier, 10, 200)):
        d = rng.choice([2, 3])
        spec = generic_spec(rng, d, True, params=rng.choice(["bool", "callable"]))
        spec["transform"] = "Affine"
        spec["values"] = {}
        for ch in spec["affine_model"].replace(" o ", ""):
            name, mc = LETTER[ch]
            spec["values"][name] = linear_values(rng, mc, d, 1, "tensor", small=(mc != "Translation"))
        link = spec["params"] == "callable" and rng.random() < 0.5
        yield {"spec": spec, "grid": tgrid_spec(rng, d), "link": link, "ub": rng.random() < 0.5, "when": "before",
               "index": 0}


def impl_seq_inverse(c):
    t, inv, g = _make_inverse(c)
    with torch.no_grad():
        m = inv.tensor()
    n = batch_size(t)
    return proto.flat(m[(c["index"] % n) if m.shape[0] > 1 else 0])


def line_seq_inverse(c):
    t, inv, g = _make_inverse(c)
    n = batch_size(t)
    ms = list(t.transforms())
    toks = []
    for m in ms:
        mt = member_tokens(m, c["index"] % n).split()
        assert mt[0] == "c"
        toks.append(" ".join(mt[1:]))
    return f"xf.seq_inverse {g.ndim} {len(ms)} " + " ".join(toks)


# ============================================================================ stream: inverse()(points) incl. velocity fields
def gen_inv_forward(rng: random.Random, tier: str):
    for _ in range(_n(tier, 60, 1000)):
        d = rng.choice([2, 2, 3])
        ac = rng.random() < 0.6
        r = rng.random()
        if r < 0.35:
            cls = rng.choice(["StationaryVelocityFieldTransform", "StationaryVelocityFreeFormDeformation"] if ac
                             else ["StationaryVelocityFieldTransform"])
            spec = nonrigid_spec(rng, cls, d)
        elif r < 0.7:
            members = []
            for _k in range(rng.randint(1, 3)):
                if rng.random() < 0.4:
                    cls = rng.choice(["StationaryVelocityFieldTransform", "StationaryVelocityFreeFormDeformation"] if ac
                                     else ["StationaryVelocityFieldTransform"])
                    members.append(nonrigid_spec(rng, cls, d, groups=1))
                else:
                    members.append(linear_spec(rng, rng.choice([c_ for c_ in LINEAR if d == 3 or c_ != "QuaternionRotation"]),
                                               d, 1, "tensor", small=True))
            spec = {"cls": "Sequential", "members": members}
        else:
            spec = generic_spec(rng, d, ac, params=rng.choice(["bool", "callable"]))
            spec["transform"] = rng.choice(["Affine o SVF", "SVF o Affine", "SVF", "Affine"] + (["SVFFD", "Affine o SVFFD"] if ac else []))
            spec["values"] = {}
            if "Affine" in spec["transform"]:
                for ch in spec["affine_model"].replace(" o ", ""):
                    name, mc = LETTER[ch]
                    spec["values"][name] = linear_values(rng, mc, d, 1, "tensor", small=(mc != "Translation"))
        ub = rng.random() < 0.5
        # direct: inverse(update_buffers=True) must be usable straight away through forward(), i.e. WITHOUT update() and
        # without the pre-forward hook of __call__ having refreshed its buffers (every class, composites included)
        yield {"spec": spec, "grid": tgrid_spec(rng, d, ac=ac, max_size=6), "link": False, "ub": ub,
               "when": "before", "points": cube_points(rng, d, 5, 0.9), "index": rng.randrange(2),
               "direct": ub and rng.random() < 0.6}


def impl_inv_forward(c):
    t, inv, g = _make_inverse(c)
    n = batch_size(t)
    p = torch.tensor(c["points"], dtype=torch.float32).unsqueeze(0)
    with torch.no_grad():
        y = inv.forward(p) if c.get("direct") else inv(p)
    return proto.flat(y[(c["index"] % n) if y.shape[0] > 1 else 0])


def line_inv_forward(c):
    t, inv, g = _make_inverse(c)
    n = batch_size(t)
    pts = torch.tensor(c["points"], dtype=torch.float32)
    return f"xf.forward {g.ndim} {member_tokens(inv, c['index'] % n)} {pts.shape[0]} {tvec(pts)}"


def cmp_pts(c, r, out):
    return cmp_vec(r, out)


def _safe_line(fn):
    """a line builder re-runs the implementation to read the stored parameters; if the (possibly broken) implementation
    raises there, the case must become a disagreement (model: bad-op), not a harness error."""
    def wrapped(c):
        try:
            return fn(c)
        except Exception as e:       # noqa: BLE001
            return f"xf.unbuildable {type(e).__name__}"
    return wrapped


STREAMS = PRIM_STREAMS + [
    Stream("inverse_tensor", gen_inv_tensor, impl_inv_tensor, _safe_line(line_inv_tensor), cmp_h, exhaustive=True,
           doc="tensor() of t.inverse(link, update_buffers) / t.inv for the 7 linear classes x D x params kind {Parameter, "
               "tensor, callable} x link x update_buffers x {before, after an in-place parameter change} x groups vs the model's "
               "tensor with invert=True at the forward object's current parameters"),
    Stream("seq_inverse", gen_seq_inverse, impl_seq_inverse, _safe_line(line_seq_inverse), cmp_h,
           doc="tensor() of SequentialTransform.inverse(): 5 named composites x D x params kinds, random linear Sequentials of 1-4 "
               "members (some already inverted), affine GenericSpatialTransforms, vs the model's seqInverse (reversed, each inverted) "
               "built from the forward object's parameters"),
    Stream("inverse_forward", gen_inv_forward, impl_inv_forward, _safe_line(line_inv_forward), cmp_pts,
           doc="inverse()(points) for SVF/SVFFD, Sequentials mixing linear and velocity-field members, Generic models with SVF/"
               "SVFFD vs the model evaluated on the inverse object (reversed members, invert flags, buffered inverse field)"),
]


# ============================================================================ oracles
LTOL = 2e-5


def _roundtrip(t, inv, x):
    with torch.no_grad():
        t.update()
        e1 = float((inv(t(x)) - x).abs().max())
        e2 = float((t(inv(x)) - x).abs().max())
    return max(e1, e2)


def gen_linear_inverse(rng: random.Random, tier: str):
    names = LINEAR + INVERTIBLE_NAMED + ["Sequential", "GenericAffine"]
    for rep in range(_n(tier, 1, 10, 3)):
        for cls in names:
            for d in (2, 3):
                if d == 2 and cls in ("QuaternionRotation", "RigidQuaternionTransform"):
                    continue
                for kind in KINDS:
                    for link in (False, True):
                        for ub in (False, True):
                            for api in (("inverse", "inv") if (link and ub) else ("inverse",)):
                                for when in ("before", "after"):
                                    groups = rng.choice([1, 2])
                                    if cls in LINEAR:
                                        spec = linear_spec(rng, cls, d, groups, kind)
                                    elif cls in NAMED:
                                        spec = named_spec(rng, cls, d, groups, kind)
                                    elif cls == "Sequential":
                                        ms = [linear_spec(rng, rng.choice([c_ for c_ in LINEAR if d == 3 or c_ != "QuaternionRotation"]),
                                                          d, 1, kind, small=True) for _ in range(rng.randint(1, 4))]
                                        spec = {"cls": "Sequential", "members": ms}
                                    else:
                                        if kind == "tensor":
                                            continue
                                        spec = generic_spec(rng, d, True, params="bool" if kind == "parameter" else "callable")
                                        spec["transform"] = "Affine"
                                        if "K" in spec["affine_model"] and kind == "callable":
                                            spec["affine_model"] = "TRS"
                                        spec["values"] = {}
                                        for ch in spec["affine_model"].replace(" o ", ""):
                                            name, mc = LETTER[ch]
                                            spec["values"][name] = linear_values(rng, mc, d, 1, "tensor", small=(mc != "Translation"))
                                    yield {"spec": spec, "grid": tgrid_spec(rng, d), "link": link, "ub": ub, "api": api,
                                           "when": when, "kind": kind, "points": cube_points(rng, d, 6, 1.0)}


SQUASHED = (S.EulerRotation, S.IsotropicScaling, S.AnisotropicScaling, S.Shearing)


def _has_squashed_parameter(t) -> bool:
    """a leaf with optimisable parameters whose getter applies a tanh/exp re-parameterisation."""
    if isinstance(t, S.CompositeTransform):
        return any(_has_squashed_parameter(m) for m in t.transforms())
    return isinstance(t, SQUASHED) and isinstance(getattr(t, "params", None), torch.nn.Parameter)


def _uses_parameter(t) -> bool:
    if isinstance(t, S.CompositeTransform):
        return any(_uses_parameter(m) for m in t.transforms())
    return isinstance(getattr(t, "params", None), torch.nn.Parameter)


def check_linear_inverse(c):
    g = gen.make_grid(c["grid"])
    t = build(c["spec"], g)
    x = torch.tensor(c["points"], dtype=torch.float32).unsqueeze(0)
    with torch.no_grad():
        t.update()
    try:
        with torch.no_grad():
            inv = t.inv if c["api"] == "inv" else t.inverse(link=c["link"], update_buffers=c["ub"])
    except TypeError as e:
        if c["link"] and _uses_parameter(t) and "cannot assign" in str(e):
            return ("C07:inverse:link=True:params=Parameter:TypeError",
                    f"{type(t).__name__}.{'inv' if c['api'] == 'inv' else 'inverse(link=True)'}: TypeError: {str(e)[:100]}")
        raise
    squashed = _has_squashed_parameter(t)
    if c["when"] == "after":
        _edit_in_place(t)
    e = _roundtrip(t, inv, x)
    if not (e <= LTOL * 10):      # members up to 4, |matrix entries| <= 3: 1e-4 leaves two decimal digits of margin
        if c["link"] and squashed:
            return ("C07:inverse:link=True:params=Parameter:squashing-skipped",
                    f"{type(t).__name__}.{'inv' if c['api'] == 'inv' else 'inverse(link=True)'} with Parameter-held params does "
                    f"not invert ({c['when']} in-place change): {e:.3g}")
        return (f"C07:{c['spec']['cls']}:inverse:{c['when']}:kind={c['kind']}:link={c['link']}",
                f"{type(t).__name__}.inverse(link={c['link']}, update_buffers={c['ub']}) does not invert "
                f"({c['when']} in-place change): max |T^-1(T(x)) - x|, |T(T^-1(x)) - x| = {e:.3g}")
    # the inverse of the inverse (same link mode at both levels): it inverts the inverse and is the original map again
    try:
        with torch.no_grad():
            inv2 = inv.inv if c["api"] == "inv" else inv.inverse(link=c["link"], update_buffers=c["ub"])
    except (NotImplementedError, TypeError):
        return None
    e2 = _roundtrip(inv, inv2, x)
    with torch.no_grad():
        e3 = float((inv2(x) - t(x)).abs().max())
    if not (max(e2, e3) <= LTOL * 10):
        return (f"C07:{c['spec']['cls']}:inverse-of-inverse:kind={c['kind']}:link={c['link']}",
                f"{type(t).__name__}: the inverse of the inverse (link={c['link']}, api={c['api']}) does not invert the inverse "
                f"({e2:.3g}) / is not the original map ({e3:.3g})")
    return None


def gen_shared(rng: random.Random, tier: str):
    for rep in range(_n(tier, 1, 8, 3)):
        for cls in LINEAR + INVERTIBLE_NAMED:
            for d in (2, 3):
                if d == 2 and cls in ("QuaternionRotation", "RigidQuaternionTransform"):
                    continue
                for kind in ("tensor", "parameter"):
                    for link in (True,):     # I-2: replacement through data_() is required for linked inverses only
                        spec = linear_spec(rng, cls, d, 1, kind) if cls in LINEAR else named_spec(rng, cls, d, 1, kind)
                        spec2 = linear_spec(rng, cls, d, 1, kind) if cls in LINEAR else named_spec(rng, cls, d, 1, kind)
                        if "order" in spec:                      # same class configuration, different parameter values
                            spec2["order"] = spec["order"]
                        for m, m2 in zip(spec.get("members", []), spec2.get("members", [])):
                            if "order" in m:
                                m2["order"] = m["order"]
                        yield {"spec": spec, "spec2": spec2, "grid": tgrid_spec(rng, d), "link": link, "kind": kind,
                               "points": cube_points(rng, d, 6, 1.0)}


def _replace_params(t, t2):
    """data_() every parametric leaf of t with the (raw, stored) parameters of the identically structured t2."""
    if isinstance(t, S.CompositeTransform):
        for a, b in zip(t.transforms(), t2.transforms()):
            _replace_params(a, b)
    else:
        t.data_(t2.data().detach().clone())


def check_shared(c):
    g = gen.make_grid(c["grid"])
    t, t2 = build(c["spec"], g), build(c["spec2"], g)
    x = torch.tensor(c["points"], dtype=torch.float32).unsqueeze(0)
    squashed = _has_squashed_parameter(t)
    try:
        with torch.no_grad():
            t.update()
            inv = t.inverse(link=c["link"], update_buffers=True)
    except TypeError as e:
        if c["link"] and _uses_parameter(t) and "cannot assign" in str(e):
            return ("C07:inverse:link=True:params=Parameter:TypeError", f"{type(t).__name__}: TypeError: {str(e)[:100]}")
        raise
    with torch.no_grad():
        e0 = _roundtrip(t, inv, x)
        _replace_params(t, t2)
        e1 = _roundtrip(t, inv, x)
        moved = float((t(x) - t2(x)).abs().max())
    if (e0 > LTOL * 10 or e1 > LTOL * 10) and c["link"] and squashed:
        return ("C07:inverse:link=True:params=Parameter:squashing-skipped",
                f"{type(t).__name__}.inverse(link=True) with Parameter-held params does not invert: {max(e0, e1):.3g}")
    if e0 > LTOL * 10:
        return (f"C07:{c['spec']['cls']}:inverse:before", f"does not invert before the replacement ({e0:.3g})")
    if moved > 1e-6:
        return (f"C07:{c['spec']['cls']}:data_:not-applied", "data_() did not install the new parameters")
    if e1 > LTOL * 10:
        return (f"C07:{c['spec']['cls']}:inverse:after-data_:kind={c['kind']}:link={c['link']}",
                f"after data_() replacement the {'linked ' if c['link'] else ''}inverse no longer inverts ({e1:.3g})")
    return None


def smooth_field(shape, amp, seed):
    """band-limited vector field: a few low-frequency sinusoids per component, |v| <= amp."""
    r = random.Random(seed)
    axes = [torch.linspace(-1, 1, n) for n in shape[2:]]
    mesh = torch.meshgrid(*axes, indexing="ij")
    out = torch.zeros(shape)
    for n_ in range(shape[0]):
        for c_ in range(shape[1]):
            f = torch.zeros(shape[2:])
            for _ in range(3):
                w = [r.uniform(0, 0.75) for _ in mesh]      # wavelength >= 2.7 cube units: smooth on every generated grid
                ph = r.uniform(0, 6.28)
                f = f + torch.sin(sum(wi * m * math.pi for wi, m in zip(w, mesh)) + ph)
            out[n_, c_] = f / 3
    return amp * out


def gen_svf(rng: random.Random, tier: str):
    for _ in range(_n(tier, 24, 120, 40)):
        d = rng.choice([2, 2, 3])
        ac = rng.random() < 0.6
        cls = rng.choice(["SVF", "SVFFD"]) if ac else "SVF"
        yield {"cls": cls, "d": d, "ac": ac, "size": [rng.randint(17, 33) for _ in range(d)] if d == 2 else
               [rng.randint(13, 19) for _ in range(d)], "steps": rng.choice([4, 5, 6]), "stride": rng.choice([2, 3, 4]),
               "amp_vox": rng.choice([0.25, 0.5, 1.0, 2.0]), "seed": rng.randrange(1 << 30),
               "link": rng.random() < 0.5, "ub": rng.random() < 0.5, "params": rng.choice([False, False, True]),
               "when": rng.choice(["before", "after"])}


MEASURED = {"max_ratio": 0.0, "cases": 0}


def check_svf(c):
    g = Grid(size=c["size"], align_corners=c["ac"])
    d = c["d"]
    nmin = min(c["size"])
    if c["cls"] == "SVF":
        t = S.StationaryVelocityFieldTransform(g, steps=c["steps"], params=c["params"])
    else:
        t = S.StationaryVelocityFreeFormDeformation(g, steps=c["steps"], stride=c["stride"], params=c["params"])
    amp = c["amp_vox"] * 2 / nmin
    with torch.no_grad():
        t.params.copy_(smooth_field(t.params.shape, amp, c["seed"]))
        t.update()
    try:
        with torch.no_grad():
            inv = t.inverse(link=c["link"], update_buffers=c["ub"])
    except TypeError as e:
        if c["link"] and c["params"] is True and "cannot assign" in str(e):
            return ("C07:inverse:link=True:params=Parameter:TypeError", f"{type(t).__name__}: TypeError: {str(e)[:100]}")
        raise
    with torch.no_grad():
        m = max(3, nmin // 5)
        sl = (slice(None),) + (slice(m, -m),) * d
        x = g.coords().unsqueeze(0)[sl].reshape(1, -1, d)
        scale = torch.tensor([n / 2 for n in c["size"]])
        e_direct = 0.0
        if c["ub"] and c["when"] == "before":
            # update_buffers=True: the inverse is usable straight away through forward()/disp()/points(), i.e. without
            # the pre-forward hook of __call__ having refreshed its buffers
            yd = t.forward(x)
            e_direct = float(((inv.forward(yd) - x) * scale).abs().max())
            xc = g.coords().unsqueeze(0)
            e_direct = max(e_direct, float((((xc + inv.disp().movedim(1, -1))[sl].reshape(1, -1, d) - inv.forward(x)) * scale).abs().max()))
        if c["when"] == "after":
            t.params.mul_(0.8)
        t.update()
        y = t(x)
        a = float(((y - x) * scale).abs().max())
        e = max(float(((inv(y) - x) * scale).abs().max()), float(((t(inv(x)) - x) * scale).abs().max()), e_direct)
    MEASURED["cases"] += 1
    if a > 0.05:
        MEASURED["max_ratio"] = max(MEASURED["max_ratio"], e / (a * a))
    if e > 0.1 * a * a + 2e-3:
        return (f"C07:{c['cls']}:inverse:second-order", f"|T^-1(T(x)) - x| = {e:.4f} voxels for amplitude {a:.3f} voxels "
                f"(bound 0.1*amp^2 + 2e-3 = {0.1 * a * a + 2e-3:.4f}); steps={c['steps']}")
    return None


# ---------------------------------------------------------------- oracle: update_buffers=True == update() afterwards
def gen_ub_direct(rng: random.Random, tier: str):
    n = 0
    for c in gen_inv_forward(rng, "thorough"):
        if c["spec"]["cls"] in ("Sequential", "Generic") or "Velocity" in c["spec"]["cls"]:
            c = dict(c, ub=True, direct=True, link=rng.random() < 0.3)
            yield c
            n += 1
            if n >= _n(tier, 40, 400, 80):
                return


def check_ub_direct(c):
    """inverse(link, update_buffers=True) is usable straight away: its forward()/disp() — evaluated without update() and
    without the pre-forward hook — equal those of inverse(link, update_buffers=False) followed by update()"""
    g = gen.make_grid(c["grid"])
    p = torch.tensor(c["points"], dtype=torch.float32).unsqueeze(0)
    outs = []
    for ub in (True, False):
        t = build(c["spec"], g)
        with torch.no_grad():
            t.update()
            try:
                inv = t.inverse(link=c["link"], update_buffers=ub)
            except (NotImplementedError, TypeError):
                return None
            if not ub:
                inv.update()
            outs.append(inv.forward(p))
    e = float((outs[0] - outs[1]).abs().max())
    if e > 1e-5:
        name = c["spec"]["cls"] + (":" + c["spec"]["transform"].replace(" ", "") if c["spec"]["cls"] == "Generic" else "")
        return (f"C07:{name}:inverse:update_buffers-direct", f"inverse(link={c['link']}, update_buffers=True).forward(x) differs by "
                f"{e:.3e} (cube units) from inverse(update_buffers=False) + update()")
    return None


ORACLES = [
    Oracle("linear_inverse", gen_linear_inverse, check_linear_inverse,
           doc="7 linear classes, 5 named composites, random Sequentials, affine Generic x D x params kind {Parameter, tensor, "
               "callable} x link x update_buffers x {inverse(), .inv} x {before, after in-place change}: both compositions "
               "return the input to float32 accuracy; the inverse of the inverse inverts the inverse and is the original map"),
    Oracle("shared_params", gen_shared, check_shared,
           doc="state-machine clause by oracle only (theorem C07_shared_params is built with property C09): after data_() "
               "replacement of the forward parameters the LINKED inverse (buffer- or Parameter-held params) still inverts"),
    Oracle("svf_inverse", gen_svf, check_svf,
           doc="SVF / SVFFD on smooth band-limited fields, amplitude 0.25-2 voxels, steps 4-6, link x update_buffers x "
               "{before, after}: interior round-trip error <= 0.1*amp^2 + 2e-3 voxels (exploration; measured constant in NOTES_C07)"),
    Oracle("ub_direct", gen_ub_direct, check_ub_direct,
           doc="inverse(link, update_buffers=True) of SVF / SVFFD / Sequential / Generic transforms evaluated through forward() "
               "without update() or the pre-forward hook = inverse(update_buffers=False) followed by update()"),
]


def search_cases(disagreements: List[dict]):
    extra = {"linear_inverse": [], "ub_direct": []}
    for dsg in disagreements[:40]:
        c = dsg["case"]
        if "spec" not in c:
            continue
        if "points" in c and isinstance(c.get("points"), list) and c.get("ub"):
            extra["ub_direct"].append(dict(c, ub=True, direct=True, link=bool(c.get("link"))))
        d = len(c["grid"]["size"])
        for when in ("before", "after"):
            extra["linear_inverse"].append({"spec": c["spec"], "grid": c["grid"], "link": c.get("link", False),
                                            "ub": c.get("ub", False), "api": "inverse", "when": when,
                                            "kind": c["spec"].get("kind", "tensor"),
                                            "points": cube_points(random.Random(1), d, 6, 1.0)})
    return extra
