"""C08 — homogeneous-transform and rotation algebra is exact for every operand form."""
from __future__ import annotations

import itertools
import math
import random
from fractions import Fraction
from typing import List, Optional

import numpy as np
import torch

from deepali.core import affine as U
from deepali.core import linalg as L
from deepali.core.grid import Grid
from deepali.spatial import linear as S

from lib import proto
from lib.core import Oracle, Stream, close

PROP = "C08"
RTOL64 = 1e-9   # float64 paths: <= ~200 flops x 1.1e-16 x |values| <= 1e2; modelled defects are >= 1e-2
RTOL32 = 2e-4   # float32 paths (transform parameters are float32): <= ~100 flops x 6e-8 x conditioning
KINDS = ("trans", "aff", "hom")
AXES = "XYZ"
TINY64 = float(torch.finfo(torch.float64).tiny)

ASSUMPTIONS = [
    "floats are the exact rationals they denote; IEEE rounding is covered by the correspondence tolerance "
    f"(rtol {RTOL64} float64 / {RTOL32} float32, relative to max(1, |result|)), never by a theorem",
    "cos/sin/tan/sqrt/acos/atan2/tanh/exp values are computed in float64 by the harness (torch) and given to the model "
    "as exact rationals; theorems carry c^2+s^2=1, half-angle and square-root hypotheses instead",
    "torch primitives (bmm, cat, expand, reshape, where, clamp, F.normalize) behave as documented; Python re/str "
    "semantics ($ before a trailing newline, str.upper on ASCII) as documented",
    "scale and shear values given through the squashed nn.Parameter route are limited to the range of the "
    "parameterisation (exp(tanh) in (1/e, e), |shear| < pi/4); unrestricted values are covered through tensor params",
]
TRUSTED = ["model files Deepali/Model/{Homog,Affine,Kornia,Broadcast}.lean are hand transcriptions of core/linalg.py, "
           "core/affine.py, core/_kornia.py and the parameter getters/setters of spatial/linear.py; tied to /repo by the "
           "correspondence streams below on every run"]
RULE = ("finite spaces enumerated exhaustively on every run: D in {2,3} x 9 ordered operand-form pairs x leading shapes "
        "{none,(1),(N),(2,3),(D,) vector, mismatching} on either side x {matmul,hmm}; 27 order triples x 6 spellings + "
        "malformed strings x ndim; all order strings x angle batch shapes; values (angles in (-pi,pi], unit quaternions, "
        "rotation vectors up to pi, scales, shears, offsets) drawn from one PRNG seeded by VERIF_SEED; distinct after "
        "JSON canonicalisation; non-trivial = not the identity transformation / not an all-zero angle")


def _n(tier, quick, thorough, search=None):
    return {"quick": quick, "thorough": thorough, "search": search or max(quick, thorough // 4)}[tier]


def _dt(name):
    return torch.float32 if name == "float32" else torch.float64


def _rtol(name):
    return RTOL32 if name == "float32" else RTOL64


def _errkind(s: str) -> str:
    return ":".join(s.split(":")[:2])


# ============================================================================ operands
def cols(kind: str, d: int) -> int:
    return {"trans": 1, "aff": d, "hom": d + 1}[kind]


def rand_operand(rng: random.Random, d: int, kind: str, lead, oned=False) -> dict:
    """JSON description of one operand tensor. lead: list of leading sizes ([] = none)."""
    n = int(np.prod(lead)) if lead else 1
    c = cols(kind, d)
    vals = []
    for _ in range(n):
        for i in range(d):
            for j in range(c):
                if kind != "trans" and j < d:
                    v = (1.0 if i == j else 0.0) + rng.uniform(-0.8, 0.8)
                else:
                    v = rng.uniform(-3.0, 3.0)
                vals.append(round(v, 3))
    shape = list(lead) + ([d] if (oned and kind == "trans" and not lead) else [d, c])
    return {"kind": kind, "shape": shape, "values": vals}


def op_tensor(o: dict, dtype) -> torch.Tensor:
    return torch.tensor(o["values"], dtype=dtype).reshape(o["shape"])


def enc_tensor(t: torch.Tensor) -> str:
    return " ".join([str(t.ndim)] + [str(int(s)) for s in t.shape] + [proto.fr(v) for v in proto.flat(t)])


def dec_tensor(out: str):
    toks = out.split()
    k = int(toks[0])
    shape = [int(v) for v in toks[1:1 + k]]
    return shape, [Fraction(v) for v in toks[1 + k:]]


def hform(t: torch.Tensor, d: int) -> str:
    """(D,), (D,1), (D,D) or (D,D+1) tensor -> `trans …|aff …|hom …` (Proto.hform)."""
    if t.ndim == 1:
        t = t.unsqueeze(1)
    c = t.shape[-1]
    if c == 1:
        return "trans " + proto.vec(proto.flat(t))
    if c == d:
        return "aff " + proto.vec(proto.flat(t))
    return "hom " + proto.vec(proto.flat(t[:, :d])) + " " + proto.vec(proto.flat(t[:, d]))


def h_to_flat(out: str, d: int):
    """model `trans|aff|hom` -> (shape, flat row-major values in deepali's tensor layout)."""
    kind, A, t = proto.parse_h(out, d)
    if kind == "trans":
        return [d, 1], list(t)
    if kind == "aff":
        return [d, d], [v for row in A for v in row]
    return [d, d + 1], [v for i in range(d) for v in (A[i] + [t[i]])]


def cmp_tensor(r, out, rtol):
    """impl {'shape','values'} | 'err:*' against model tensor line | 'err:*'."""
    if isinstance(r, str):
        if proto.is_error(out):
            return None if _errkind(r) == _errkind(out) else f"impl raised {r[:70]} but model says {out}"
        return f"impl raised {r[:90]}, model gave a result"
    if proto.is_error(out):
        return f"model says {out}, impl returned shape {r['shape']}"
    shape, vals = dec_tensor(out)
    if shape != r["shape"]:
        return f"shape differs: impl {r['shape']} vs model {shape}"
    return close(r["values"], vals, rtol)


def cmp_h(d, r, out, rtol):
    if isinstance(r, str):
        if proto.is_error(out):
            return None if _errkind(r) == _errkind(out) else f"impl raised {r[:70]} but model says {out}"
        return f"impl raised {r[:90]}, model gave {out[:40]}"
    if proto.is_error(out):
        return f"model says {out}, impl returned shape {r['shape']}"
    shape, vals = h_to_flat(out, d)
    if shape != r["shape"]:
        return f"operand form differs: impl shape {r['shape']} vs model {shape}"
    return close(r["values"], vals, rtol)


def res(t: torch.Tensor) -> dict:
    return {"shape": list(t.shape), "values": proto.flat(t)}


LEADS = [[], [1], [3]]
EXTRA_LEADS = [([2, 3], [2, 3]), ([2, 3], []), ([], [2, 3]), ([2, 3], [1, 1]), ([1, 1], [2, 3]), ([1, 1], [1]),
               ([1], [1, 1]), ([2], [3]), ([3], [2, 3]), ([2, 3], [3]), ([2, 3], [1]), ([1, 1], [3]), ([3], [1, 1])]


def pick(numel: int, i: int) -> int:
    return i if numel > 1 else 0


# ---------------------------------------------------------------------------- stream: forms (batched, exhaustive)
def gen_forms(rng: random.Random, tier: str):
    reps = _n(tier, 1, 6)
    for _ in range(reps):
        for d in (2, 3):
            for ka, kb in itertools.product(KINDS, KINDS):
                pairs = [(la, lb) for la in LEADS for lb in LEADS] + EXTRA_LEADS
                for la, lb in pairs:
                    for op in ("matmul", "hmm"):
                        yield {"d": d, "op": op, "dtype": rng.choice(["float64", "float64", "float32"]),
                               "args": [rand_operand(rng, d, ka, la, oned=rng.random() < 0.5),
                                        rand_operand(rng, d, kb, lb, oned=rng.random() < 0.5)]}
            # single-argument conversions
            for k in KINDS:
                for la in LEADS + [[2, 3], [1, 1]]:
                    yield {"d": d, "op": "as_matrix", "dtype": "float64",
                           "args": [rand_operand(rng, d, k, la, oned=rng.random() < 0.5)]}


def impl_forms(c):
    ts = [op_tensor(o, _dt(c["dtype"])) for o in c["args"]]
    if c["op"] == "matmul":
        return res(L.homogeneous_matmul(*ts))
    if c["op"] == "hmm":
        return res(L.hmm(*ts))
    return res(L.as_homogeneous_matrix(ts[0]))


def line_forms(c):
    ts = [op_tensor(o, _dt(c["dtype"])) for o in c["args"]]
    enc = " ".join(enc_tensor(t) for t in ts)
    if c["op"] == "matmul":
        return f"hbc.matmul {c['d']} {len(ts)} {enc}"
    if c["op"] == "hmm":
        return f"hbc.hmm {c['d']} {enc}"
    return f"hbc.as_matrix {c['d']} {enc}"


def cmp_forms(c, r, out):
    return cmp_tensor(r, out, _rtol(c["dtype"]))


# ---------------------------------------------------------------------------- stream: elem (existing h.* ops, per element)
def _bc_ok(la, lb):
    na, nb = (int(np.prod(la)) if la else 1), (int(np.prod(lb)) if lb else 1)
    if na > 1:
        return not ((nb > 1 and la != lb) or len(lb) > len(la))
    if nb > 1:
        return not len(la) > len(lb)
    return True


def gen_elem(rng: random.Random, tier: str):
    reps = _n(tier, 1, 6)
    for _ in range(reps):
        for d in (2, 3):
            for ka, kb in itertools.product(KINDS, KINDS):
                for la, lb in [(la, lb) for la in LEADS for lb in LEADS] + EXTRA_LEADS[:6]:
                    if not _bc_ok(la, lb):
                        continue
                    n = max(int(np.prod(la)) if la else 1, int(np.prod(lb)) if lb else 1)
                    for op in ("matmul", "hmm", "apply", "applyvec"):
                        yield {"d": d, "op": op, "index": rng.randrange(n), "dtype": "float64",
                               "args": [rand_operand(rng, d, ka, la, oned=rng.random() < 0.5),
                                        rand_operand(rng, d, kb, lb, oned=rng.random() < 0.5)],
                               "x": [round(rng.uniform(-2, 2), 3) for _ in range(d)]}
            for k in KINDS:
                for la in LEADS:
                    for op in ("as_matrix", "hom_matrix"):
                        n = int(np.prod(la)) if la else 1
                        yield {"d": d, "op": op, "index": rng.randrange(n), "dtype": "float64",
                               "args": [rand_operand(rng, d, k, la, oned=rng.random() < 0.5)],
                               "x": [round(rng.uniform(-2, 2), 3) for _ in range(d)]}


def _elem(t: torch.Tensor, i: int, d: int) -> torch.Tensor:
    if t.ndim == 1:
        t = t.unsqueeze(1)
    flat = t.reshape(-1, *t.shape[-2:])
    return flat[pick(flat.shape[0], i)]


def impl_elem(c):
    d, i = c["d"], c["index"]
    ts = [op_tensor(o, _dt(c["dtype"])) for o in c["args"]]
    x = torch.tensor(c["x"], dtype=_dt(c["dtype"]))
    if c["op"] == "matmul":
        return res(_elem(L.homogeneous_matmul(*ts), i, d))
    if c["op"] == "hmm":
        return res(_elem(L.hmm(*ts), i, d))
    if c["op"] in ("apply", "applyvec"):
        # points through the composite, element i of the batch
        m = L.homogeneous_matmul(*ts)
        m = m.reshape(-1, *m.shape[-2:]) if m.ndim > 1 else m
        y = L.homogeneous_transform(m, x, vectors=c["op"] == "applyvec")
        y = y.reshape(-1, d)
        return res(y[pick(y.shape[0], i)])
    if c["op"] == "as_matrix":
        return res(_elem(L.as_homogeneous_matrix(ts[0]), i, d))
    off = torch.tensor(c["x"], dtype=_dt(c["dtype"]))
    return res(_elem(L.homogeneous_matrix(ts[0], offset=off), i, d))


def line_elem(c):
    d, i = c["d"], c["index"]
    ts = [op_tensor(o, _dt(c["dtype"])) for o in c["args"]]
    fs = [hform(_elem(t, i, d), d) for t in ts]
    x = proto.vec(proto.flat(torch.tensor(c["x"], dtype=_dt(c["dtype"]))))
    if c["op"] == "matmul":
        return f"h.matmul {d} 2 {fs[0]} {fs[1]}"
    if c["op"] == "hmm":
        return f"h.hmm {d} {fs[0]} {fs[1]}"
    if c["op"] == "as_matrix":
        return f"h.as_matrix {d} {fs[0]}"
    if c["op"] == "hom_matrix":
        return f"h.hom_matrix {d} {fs[0]} {x}"
    # apply: composite computed by the model as well (h.matmul is checked separately); apply a then b via two lines
    # is not possible in one op, so the composite is taken from the implementation and applied by the model.
    m = L.homogeneous_matmul(*ts)
    return f"h.apply {d} {hform(_elem(m, i, d), d)} {1 if c['op'] == 'applyvec' else 0} {x}"


def cmp_elem(c, r, out):
    d = c["d"]
    if c["op"] in ("apply", "applyvec"):
        if isinstance(r, str):
            return f"impl raised {r[:90]}"
        if proto.is_error(out):
            return f"model says {out}"
        return close(r["values"], proto.parse_vec(out), _rtol(c["dtype"]))
    return cmp_h(d, r, out, _rtol(c["dtype"]))


# ---------------------------------------------------------------------------- stream: nary
def gen_nary(rng: random.Random, tier: str):
    for _ in range(_n(tier, 150, 4000)):
        d = rng.choice([2, 3])
        n = rng.choice([1, 2, 3, 3, 4, 5])
        N = rng.choice([2, 3, 4])
        args = []
        for _ in range(n):
            lead = rng.choice([[], [], [1], [N], [N], [1, 1]])
            args.append(rand_operand(rng, d, rng.choice(KINDS), lead, oned=rng.random() < 0.5))
        if rng.random() < 0.05:
            args[rng.randrange(n)] = rand_operand(rng, d, rng.choice(KINDS), [N + 1])
        yield {"d": d, "op": "matmul", "dtype": rng.choice(["float64", "float32"]), "args": args}


# ---------------------------------------------------------------------------- stream: transform (points / vectors)
def gen_transform(rng: random.Random, tier: str):
    reps = _n(tier, 1, 8)
    N = 3
    for _ in range(reps):
        for d in (2, 3):
            for k in KINDS:
                tleads = [[], [1], [N]] + ([["vec"]] if k == "trans" else [])
                for tl in tleads:
                    pshapes = [[d], [4, d], [1, 4, d], [N, 4, d], [N, 2, 2, d], [1, d], [N, d], [2, 4, d], [N + 1, 2, d],
                               [4, d + 1], [1, 2, 2, d]]
                    for ps in pshapes:
                        for vectors in (False, True):
                            oned = tl == ["vec"]
                            t = rand_operand(rng, d, k, [] if oned else tl, oned=oned)
                            npts = int(np.prod(ps))
                            yield {"d": d, "t": t, "vectors": vectors, "pshape": ps,
                                   "points": [round(rng.uniform(-2, 2), 3) for _ in range(npts)],
                                   "dtype": rng.choice(["float64", "float64", "float32"])}


def impl_transform(c):
    dt = _dt(c["dtype"])
    t = op_tensor(c["t"], dt)
    x = torch.tensor(c["points"], dtype=dt).reshape(c["pshape"])
    fn = rngless_choice(c)
    return res(fn(t, x))


def rngless_choice(c):
    """exercise the aliases in core/affine.py as well (deterministic in the case)."""
    k = (len(c["pshape"]) + c["d"] + (1 if c["vectors"] else 0)) % 3
    if k == 0:
        return lambda t, x: L.homogeneous_transform(t, x, vectors=c["vectors"])
    if k == 1:
        return lambda t, x: U.apply_transform(t, x, vectors=c["vectors"])
    return (lambda t, x: U.transform_vectors(t, x)) if c["vectors"] else (lambda t, x: U.transform_points(t, x))


def line_transform(c):
    dt = _dt(c["dtype"])
    t = op_tensor(c["t"], dt)
    x = torch.tensor(c["points"], dtype=dt).reshape(c["pshape"])
    return f"hbc.transform {c['d']} {enc_tensor(t)} {1 if c['vectors'] else 0} {enc_tensor(x)}"


def cmp_transform(c, r, out):
    return cmp_tensor(r, out, _rtol(c["dtype"]))


# ============================================================================ Euler angles
def enc_str(s: Optional[str]) -> str:
    if s is None:
        return "-"
    if s == "":
        return "e"
    return ",".join(str(ord(ch)) for ch in s)


def dec_str(tok: str) -> str:
    return "" if tok == "e" else "".join(chr(int(v)) for v in tok.split(","))


def spellings(a: str, b: str, c: str) -> List[str]:
    lo = (a + b + c).lower()
    return [a + b + c, lo, a + lo[1] + c, f"R{lo[0]} o R{lo[1]} o R{lo[2]}", f"{a} o {b} o {c}",
            f"R{lo[0]} o {b} o R{lo[2]}"]


ALL_TRIPLES = ["".join(p) for p in itertools.product(AXES, repeat=3)]
PROPER_TAIT_BRYAN = [o for o in ALL_TRIPLES if o[0] != o[1] and o[1] != o[2]]   # the 12 of the quantifier
MALFORMED = ["", "X", "XY", "XYZW", "XYZX", "ABC", "XYA", "xyw", "RX o RY o RZ", "rz o rx o rz", "Rx oRy o Rz",
             "Rx o Ry", "Rx o Ry o Rz o Rx", "X o Y", "Rx  o Ry o Rz", " XYZ", "XYZ ", "XYZ\n", "Rz o Rx o Rz\n", "X\n",
             "Rxo Ry o Rz", "R", "Rw o Rx o Ry", "x o y o z", "Rx o Ry o Rz ", "XY\n", "\n", "X Y Z", "ZXZ\n\n", "Rx",
             "RRx o Ry o Rz", "xRy o z"]


def gen_order(rng: random.Random, tier: str):
    for o in ALL_TRIPLES:
        for s in spellings(*o):
            yield {"arg": s, "ndim": 3}
    for s in MALFORMED:
        yield {"arg": s, "ndim": 3}
    yield {"arg": None, "ndim": 3}
    for nd in (2, 4, 1):
        for s in (None, "XYZ", "bogus", "Rz o Rx o Rz"):
            yield {"arg": s, "ndim": nd}


def impl_order(c):
    return U.euler_rotation_order(c["arg"], ndim=c["ndim"])


def line_order(c):
    return f"euler.order {c['ndim']} {enc_str(c['arg'])}"


def cmp_order(c, r, out):
    if isinstance(r, str) and r.startswith("err:"):
        if proto.is_error(out):
            return None if _errkind(r) == _errkind(out) else f"impl raised {r[:70]} but model says {out}"
        return f"impl raised {r[:90]}, model gave {out}"
    if proto.is_error(out):
        return f"model says {out}, impl returned {r!r}"
    m = dec_str(out.split()[1])
    return None if m == r else f"impl {r!r} vs model {m!r}"


ANGLE_SHAPES = [[3], [1, 3], [2, 3], [2, 2, 3]]


def rand_angle(rng):
    r = rng.random()
    if r < 0.05:
        return math.pi
    if r < 0.1:
        return rng.choice([0.0, math.pi / 2, -math.pi / 2])
    return rng.uniform(-math.pi, math.pi)


def gen_euler(rng: random.Random, tier: str):
    reps = _n(tier, 1, 6)
    for _ in range(reps):
        for o in ALL_TRIPLES:
            for s in spellings(*o)[:4] + ([spellings(*o)[4]] if o in PROPER_TAIT_BRYAN else []):
                for sh in ANGLE_SHAPES:
                    n = int(np.prod(sh[:-1])) if len(sh) > 1 else 1
                    yield {"order": s, "shape": sh, "angles": [rand_angle(rng) for _ in range(3 * n)],
                           "index": rng.randrange(n), "homogeneous": rng.random() < 0.3,
                           "dtype": rng.choice(["float64", "float64", "float32"]), "alias": rng.random() < 0.2}
        for s in [None, "XYZ\n", "bad", "XY"]:
            yield {"order": s, "shape": [1, 3], "angles": [rand_angle(rng) for _ in range(3)], "index": 0,
                   "homogeneous": False, "dtype": "float64", "alias": False}
        # 2-D: scalar, (1,), (N,1), (2,2,1); order ignored
        for sh in ([], [1], [1, 1], [3, 1], [2, 2, 1]):
            n = int(np.prod(sh)) if sh else 1
            yield {"order": rng.choice([None, "XYZ", "Rz o Rx o Rz", "garbage"]), "shape": sh,
                   "angles": [rand_angle(rng) for _ in range(n)], "index": rng.randrange(n),
                   "homogeneous": rng.random() < 0.3, "dtype": rng.choice(["float64", "float32"]), "alias": False}
        for nang in (2, 4):
            yield {"order": None, "shape": [1, nang], "angles": [rand_angle(rng) for _ in range(nang)], "index": 0,
                   "homogeneous": False, "dtype": "float64", "alias": False}


def _angles_tensor(c):
    return torch.tensor(c["angles"], dtype=_dt(c["dtype"])).reshape(c["shape"])


def impl_euler(c):
    a = _angles_tensor(c)
    fn = U.rotation_matrix if c["alias"] else U.euler_rotation_matrix
    m = fn(a, order=c["order"], homogeneous=c["homogeneous"])
    nang = 1 if not c["shape"] else c["shape"][-1]
    d = 2 if nang == 1 else nang
    want_lead = c["shape"][:-1]
    if list(m.shape[:-2]) != want_lead:
        return f"err:shape:{list(m.shape)}"
    flat = m.reshape(-1, *m.shape[-2:])
    return res(flat[c["index"]])


def line_euler(c):
    a = _angles_tensor(c)
    nang = 1 if not c["shape"] else c["shape"][-1]
    if nang not in (1, 3):
        return f"euler.dim {nang}" if nang != 2 else "euler.matrix2 0 " + _cs2(a, 0)
    flat = a.reshape(-1, nang).double()
    row = flat[c["index"]]
    cs, sn = torch.cos(row), torch.sin(row)
    if a.dtype == torch.float32:   # impl computes cos/sin in float32
        r32 = a.reshape(-1, nang)[c["index"]]
        cs, sn = torch.cos(r32).double(), torch.sin(r32).double()
    hg = 1 if c["homogeneous"] else 0
    if nang == 1:
        return f"euler.matrix2 {hg} {proto.fr(cs[0])} {proto.fr(sn[0])}"
    return f"euler.matrix3 {enc_str(c['order'])} {hg} 0 {proto.vec(proto.flat(cs))} {proto.vec(proto.flat(sn))}"


def _cs2(a, i):
    row = a.reshape(-1, a.shape[-1])[i].double()
    return f"{proto.fr(torch.cos(row[0]))} {proto.fr(torch.sin(row[0]))}"


def cmp_euler(c, r, out):
    nang = 1 if not c["shape"] else c["shape"][-1]
    d = 2 if nang == 1 else nang
    if nang == 4:   # euler.dim answers err:notimpl
        if isinstance(r, str) and proto.is_error(out):
            return None if _errkind(r) == _errkind(out) else f"impl raised {r[:70]} but model says {out}"
        return f"impl {str(r)[:60]} vs model {out}"
    if out == "err:uninit" and not isinstance(r, str):
        return None   # order "XYZ\n" slips through `$`: the implementation multiplies by a `new_empty` matrix (garbage)
    return cmp_h(d, r, out, _rtol(c["dtype"]))


# ---------------------------------------------------------------------------- stream: euler_rotation_angles
def np_elem(ax: str, t: float) -> np.ndarray:
    c, s = math.cos(t), math.sin(t)
    if ax == "X":
        return np.array([[1, 0, 0], [0, c, -s], [0, s, c]])
    if ax == "Y":
        return np.array([[c, 0, s], [0, 1, 0], [-s, 0, c]])
    return np.array([[c, -s, 0], [s, c, 0], [0, 0, 1]])


def np_euler(order: str, ang) -> np.ndarray:
    return np_elem(order[0], ang[0]) @ np_elem(order[1], ang[1]) @ np_elem(order[2], ang[2])


def gen_angles(rng: random.Random, tier: str):
    for _ in range(_n(tier, 6, 120)):
        for o in ALL_TRIPLES + [None, "zxz", "Rx o Rz o Rx"] + ["XZX", "ZXZ", None, "xzx"] * 6:
            ang = [rand_angle(rng) for _ in range(3)]
            kind = rng.choice(["rot", "rot", "rot", "hom", "scaled", "reflect"])
            m = np_euler(rng.choice(ALL_TRIPLES), ang)
            if kind == "scaled":
                m = m * rng.choice([1.1, 0.5, 1.00002, 1.000002])
            if kind == "reflect":
                m = m @ np.diag([1.0, -1.0, 1.0])
            yield {"d": 3, "order": o, "matrix": m.tolist(), "hom": kind == "hom", "lead": rng.choice([[], [1], [2]])}
        for _ in range(4):
            t = rand_angle(rng)
            m = np.array([[math.cos(t), -math.sin(t)], [math.sin(t), math.cos(t)]])
            if rng.random() < 0.2:
                m = m * 1.3
            yield {"d": 2, "order": rng.choice([None, "XYZ"]), "matrix": m.tolist(), "hom": rng.random() < 0.3,
                   "lead": rng.choice([[], [1], [2]])}


def _matrix_tensor(c):
    m = torch.tensor(c["matrix"], dtype=torch.float64)
    if c["hom"]:
        m = torch.cat([m, torch.tensor([[0.25]] * c["d"], dtype=torch.float64)], dim=1)
    for n in reversed(c["lead"]):
        m = m.unsqueeze(0).expand(n, *m.shape).clone()
    return m


def impl_angles(c):
    m = _matrix_tensor(c)
    a = U.euler_rotation_angles(m, order=c["order"])
    want = c["lead"] + ([3] if c["d"] == 3 else [1])
    if list(a.shape) != want:
        return f"err:shape:{list(a.shape)}"
    return {"values": proto.flat(a.reshape(-1, 3 if c["d"] == 3 else 1)[0])}


ALLCLOSE_TOL = Fraction(1, 10 ** 8) + Fraction(1, 10 ** 5)   # torch.allclose defaults atol + rtol*|1|


def line_angles(c):
    m = torch.tensor(c["matrix"], dtype=torch.float64)
    if c["d"] == 3:
        return f"euler.angles3 {enc_str(c['order'])} {proto.vec(proto.flat(m))} {ALLCLOSE_TOL}"
    return f"euler.angles2 {proto.vec(proto.flat(m))} {ALLCLOSE_TOL}"


def _angdiff(a, b):
    d = (a - b + math.pi) % (2 * math.pi) - math.pi
    return abs(d)


def cmp_angles(c, r, out):
    if isinstance(r, str):
        if proto.is_error(out):
            return None if _errkind(r) == _errkind(out) else f"impl raised {r[:70]} but model says {out}"
        return f"impl raised {r[:90]}, model gave a result"
    if proto.is_error(out):
        return f"model says {out}, impl returned {r['values']}"
    v = [float(x) for x in proto.parse_vec(out)]
    if c["d"] == 2:
        want = [math.atan2(v[0], v[1])]
    else:
        want = [math.atan2(v[0], v[1]), math.acos(v[2]) if abs(v[2]) <= 1 else float("nan"), math.atan2(v[3], v[4])]
    for k, (a, b) in enumerate(zip(r["values"], want)):
        if math.isnan(a) and math.isnan(b):
            continue
        if c["d"] == 3 and k != 1 and v[2 * k - (1 if k else 0)] == 0 and v[2 * k + (1 if k == 0 else 0)] == 0:
            continue   # atan2(+-0, +-0): decided by the sign of a float zero, which a rational does not have
        if math.isnan(a) != math.isnan(b) or _angdiff(a, b) > 1e-9:
            return f"angle {k}: impl {a!r} vs inverse-trig of model arguments {b!r}"
    return None


# ============================================================================ quaternions / angle-axis
def rand_unit_quat(rng):
    r = rng.random()
    if r < 0.08:   # half-turns: w = 0, exercises the three non-trace branches
        v = [rng.gauss(0, 1) for _ in range(3)]
        if rng.random() < 0.5:
            v = [0.0, 0.0, 0.0]
            v[rng.randrange(3)] = rng.choice([1.0, -1.0])
        n = math.sqrt(sum(x * x for x in v))
        return [0.0] + [x / n for x in v]
    if r < 0.12:
        return [rng.choice([1.0, -1.0]), 0.0, 0.0, 0.0]
    q = [rng.gauss(0, 1) for _ in range(4)]
    n = math.sqrt(sum(x * x for x in q))
    return [x / n for x in q]


def rand_rotvec(rng):
    r = rng.random()
    ax = [rng.gauss(0, 1) for _ in range(3)]
    n = math.sqrt(sum(x * x for x in ax))
    ax = [x / n for x in ax]
    if r < 0.06:
        th = 0.0
    elif r < 0.12:
        th = rng.uniform(0, 2e-3)     # around the Taylor threshold theta^2 <= 1e-6
    elif r < 0.18:
        th = math.pi
    else:
        th = rng.uniform(0, math.pi)
    return [th * x for x in ax]


def np_quat_matrix(q) -> np.ndarray:
    w, x, y, z = q
    return np.array([[1 - 2 * (y * y + z * z), 2 * (x * y - z * w), 2 * (x * z + y * w)],
                     [2 * (x * y + z * w), 1 - 2 * (x * x + z * z), 2 * (y * z - x * w)],
                     [2 * (x * z - y * w), 2 * (y * z + x * w), 1 - 2 * (x * x + y * y)]])


def np_rodrigues(v) -> np.ndarray:
    th = math.sqrt(sum(x * x for x in v))
    if th < 1e-12:
        return np.eye(3)
    k = np.array(v) / th
    K = np.array([[0, -k[2], k[1]], [k[2], 0, -k[0]], [-k[1], k[0], 0]])
    return np.eye(3) + math.sin(th) * K + (1 - math.cos(th)) * (K @ K)


QOPS = ["q2m", "q2m", "m2q", "m2q", "aa2q", "aa2m", "q2aa", "log2exp", "exp2log", "normalize"]


def gen_quat(rng: random.Random, tier: str):
    for _ in range(_n(tier, 600, 20000)):
        op = rng.choice(QOPS)
        c = {"op": op, "lead": rng.choice([[], [1], [2]])}
        if op in ("q2m", "normalize"):
            s = rng.choice([1.0, 1.0, rng.uniform(0.2, 5.0)])
            c["q"] = [s * v for v in rand_unit_quat(rng)]
            if rng.random() < 0.03:
                c["q"] = [0.0, 0.0, 0.0, 0.0]
        elif op in ("q2aa", "exp2log"):
            c["q"] = rand_unit_quat(rng)
        elif op == "m2q":
            c["m"] = np_quat_matrix(rand_unit_quat(rng)).tolist()
        elif op in ("aa2q", "aa2m"):
            c["a"] = rand_rotvec(rng)
        else:
            c["a"] = [0.5 * v for v in rand_rotvec(rng)]
        yield c


def _lead(t, lead):
    for n in reversed(lead):
        t = t.unsqueeze(0).expand(n, *t.shape).clone()
    return t


def impl_quat(c):
    op, lead = c["op"], c["lead"]
    f64 = torch.float64
    if op == "q2m":
        r = L.quaternion_to_rotation_matrix(_lead(torch.tensor(c["q"], dtype=f64), lead))
        return res(r.reshape(-1, 3, 3)[0])
    if op == "normalize":
        return res(L.normalize_quaternion(_lead(torch.tensor(c["q"], dtype=f64), lead)).reshape(-1, 4)[0])
    if op == "m2q":
        return res(L.rotation_matrix_to_quaternion(_lead(torch.tensor(c["m"], dtype=f64), lead)).reshape(-1, 4)[0])
    if op == "aa2q":
        return res(L.angle_axis_to_quaternion(_lead(torch.tensor(c["a"], dtype=f64), lead)).reshape(-1, 4)[0])
    if op == "aa2m":
        ld = lead if lead else [1]          # documented input shape (N, 3)
        return res(L.angle_axis_to_rotation_matrix(_lead(torch.tensor(c["a"], dtype=f64), ld)).reshape(-1, 3, 3)[0])
    if op == "q2aa":
        return res(L.quaternion_to_angle_axis(_lead(torch.tensor(c["q"], dtype=f64), lead)).reshape(-1, 3)[0])
    if op == "log2exp":
        return res(L.quaternion_log_to_exp(_lead(torch.tensor(c["a"], dtype=f64), lead)).reshape(-1, 4)[0])
    return res(L.quaternion_exp_to_log(_lead(torch.tensor(c["q"], dtype=f64), lead)).reshape(-1, 3)[0])


def _t(v):
    return torch.tensor(v, dtype=torch.float64)


def _sqrt0(x):
    return math.sqrt(x) if x > 0 else 0.0


def line_quat(c):
    op = c["op"]
    fr, vec = proto.fr, proto.vec
    if op in ("q2m", "normalize"):
        q = _t(c["q"])
        n = float(torch.linalg.vector_norm(q))
        if op == "q2m":
            return f"quat.to_matrix {vec(c['q'])} {fr(n)} {fr(1e-12)} 0"
        return f"quat.normalize {vec(c['q'])} {fr(n)} {fr(1e-12)}"
    if op == "m2q":
        m = np.array(c["m"])
        eps = 1.0e-8
        tr = (m[0, 0] + m[1, 1]) + m[2, 2]
        r = [_sqrt0(tr + 1.0), _sqrt0(1.0 + m[0, 0] - m[1, 1] - m[2, 2] + eps),
             _sqrt0(1.0 + m[1, 1] - m[0, 0] - m[2, 2] + eps), _sqrt0(1.0 + m[2, 2] - m[0, 0] - m[1, 1] + eps)]
        return f"quat.from_matrix {vec(m.flatten().tolist())} {vec(r)} {fr(TINY64)}"
    if op == "aa2q":
        a = c["a"]
        th = math.sqrt(a[0] * a[0] + a[1] * a[1] + a[2] * a[2])
        return f"quat.from_angle_axis {vec(a)} {fr(th)} {fr(math.sin(th * 0.5))} {fr(math.cos(th * 0.5))}"
    if op == "aa2m":
        a = c["a"]
        th = math.sqrt(a[0] * a[0] + a[1] * a[1] + a[2] * a[2])
        return f"quat.aa_to_matrix {vec(a)} {fr(th)} {fr(math.cos(th))} {fr(math.sin(th))} {fr(1e-6)} {fr(1e-6)}"
    if op == "q2aa":
        q = c["q"]
        st = math.sqrt(q[1] * q[1] + q[2] * q[2] + q[3] * q[3])
        return f"quat.to_angle_axis {vec(q)} {fr(st)} {fr(math.atan2(-st, -q[0]))} {fr(math.atan2(st, q[0]))}"
    if op == "log2exp":
        a = c["a"]
        n = max(float(torch.linalg.vector_norm(_t(a))), 1e-8)
        return f"quat.log_to_exp {vec(a)} {fr(n)} {fr(math.sin(n))} {fr(math.cos(n))} {fr(1e-8)}"
    q = c["q"]
    n = float(torch.linalg.vector_norm(_t(q[1:])))
    return f"quat.exp_to_log {vec(q)} {fr(n)} {fr(math.acos(max(-1.0, min(1.0, q[0]))))} {fr(1e-8)}"


def cmp_quat(c, r, out):
    if isinstance(r, str):
        return f"impl raised {r[:90]}"
    if proto.is_error(out):
        return f"model says {out}"
    m = [float(v) for v in proto.parse_vec(out)]
    op = c["op"]
    if op == "q2m" and max(abs(v) for v in c["q"]) == 0:
        return close(r["values"], proto.parse_vec(out), 1e-9)
    if op == "m2q":
        # compare as MATRICES (robust against the float rounding of a branch condition at trace ~ 0)
        a, b = np_quat_matrix(r["values"]), np_quat_matrix(m)
        e = float(np.abs(a - b).max())
        return None if e <= 1e-9 else f"matrices of the two quaternions differ by {e:.3e}: impl {r['values']} model {m}"
    tol = 1e-9
    if op in ("q2aa", "exp2log"):
        # k = 2*atan2/sin: relative 1e-16 accuracy but the harness-side sqrt/atan2 may differ by 1 ulp from torch
        tol = 1e-8
    return close(r["values"], proto.parse_vec(out), tol)


# ============================================================================ transforms (spatial/linear.py)
TCLASSES = ["EulerRotation", "QuaternionRotation", "IsotropicScaling", "AnisotropicScaling", "Shearing", "Translation"]


def gen_tx(rng: random.Random, tier: str):
    for _ in range(_n(tier, 40, 1200)):
        for cls in TCLASSES:
            d = 3 if cls == "QuaternionRotation" else rng.choice([2, 3])
            groups = rng.choice([1, 2])
            c = {"cls": cls, "d": d, "groups": groups, "invert": rng.random() < 0.4,
                 "as_parameter": rng.random() < 0.6, "index": rng.randrange(groups),
                 # requires_grad history of the Parameter: None = untouched, "after" = frozen after the setter call,
                 # "before" = frozen during the setter call and optimisable again afterwards
                 "freeze": rng.choice([None, None, "after", "before"])}
            if cls == "EulerRotation":
                c["order"] = rng.choice(ALL_TRIPLES + [None, "zxy"]) if d == 3 else None
                n = 3 if d == 3 else 1
                c["values"] = [[rng.uniform(-3.1, 3.1) for _ in range(n)] for _ in range(groups)]
            elif cls == "QuaternionRotation":
                c["values"] = [[rng.uniform(0.3, 3.0) * v for v in rand_unit_quat(rng)] for _ in range(groups)]
            elif cls == "IsotropicScaling":
                lo, hi = (0.4, 2.6) if c["as_parameter"] else (-3.0, 5.0)
                c["values"] = [[rng.uniform(lo, hi)] for _ in range(groups)]
            elif cls == "AnisotropicScaling":
                lo, hi = (0.4, 2.6) if c["as_parameter"] else (-3.0, 5.0)
                c["values"] = [[rng.uniform(lo, hi) for _ in range(d)] for _ in range(groups)]
            elif cls == "Shearing":
                n = 3 if d == 3 else 1
                lim = 0.78 if c["as_parameter"] else 1.4
                c["values"] = [[rng.uniform(-lim, lim) for _ in range(n)] for _ in range(groups)]
            else:
                c["values"] = [[rng.uniform(-2, 2) for _ in range(d)] for _ in range(groups)]
            yield c


def make_tx(c):
    g = Grid(size=(5, 6, 7)[:c["d"]])
    cls = getattr(S, c["cls"])
    kw = {"groups": c["groups"]}
    v = torch.tensor(c["values"], dtype=torch.float32)
    if c["cls"] == "EulerRotation":
        kw["order"] = c["order"]
    if c["as_parameter"]:
        t = cls(g, params=True, **kw)
        setter = {"EulerRotation": "angles_", "QuaternionRotation": "quaternion_", "IsotropicScaling": "scales_",
                  "AnisotropicScaling": "scales_", "Shearing": "angles_", "Translation": "offset_"}[c["cls"]]
        if c.get("freeze") == "before":
            t.requires_grad_(False)
        getattr(t, setter)(v)
        if c.get("freeze"):
            # the stored numbers keep their meaning whether or not the parameters are currently optimised
            t.requires_grad_(c["freeze"] == "before")
    else:
        t = cls(g, params=v, **kw)
    t.invert = c["invert"]
    return t


def impl_tx(c):
    t = make_tx(c)
    with torch.no_grad():
        m = t.tensor()
    return res(m[c["index"]].double())


def line_tx(c):
    t = make_tx(c)
    i, d, inv = c["index"], c["d"], 1 if c["invert"] else 0
    fr, vec = proto.fr, proto.vec
    with torch.no_grad():
        if c["cls"] == "EulerRotation":
            a = t.angles()[i]            # stored float32 angles, cos/sin taken in float32 like the implementation
            cs, sn = torch.cos(a).double(), torch.sin(a).double()
            if d == 2:
                # invert = transpose = (c, -s)
                return f"euler.matrix2 0 {fr(cs[0])} {fr(-sn[0] if c['invert'] else sn[0])}"
            return f"euler.matrix3 {enc_str(c['order'])} 0 {inv} {vec(proto.flat(cs))} {vec(proto.flat(sn))}"
        if c["cls"] == "QuaternionRotation":
            q = t.data()[i]
            n = torch.linalg.vector_norm(q)
            return f"quat.to_matrix {vec(proto.flat(q))} {fr(n)} {fr(np.float32(1e-12))} {inv}"
        if c["cls"] in ("IsotropicScaling", "AnisotropicScaling"):
            s = t.scales()[i]
            if c["invert"]:
                s = 1 / s
            if c["cls"] == "IsotropicScaling":
                s = s.expand(d)
            return f"euler.scaling {d} 0 {vec(proto.flat(s))}"
        if c["cls"] == "Shearing":
            tn = torch.tan(t.angles()[i])
            return f"euler.shear {len(tn)} 0 {vec(proto.flat(tn))}"
        off = t.offset()[i]
        if c["invert"]:
            off = -off
        return f"euler.translation {d} 0 {vec(proto.flat(off))}"


def cmp_tx(c, r, out):
    if c["cls"] == "Shearing" and c["invert"] and not isinstance(r, str) and not proto.is_error(out):
        # tensor() = torch.inverse(shear): compare S * S^-1 = I against the model's S
        d = c["d"]
        _, A, _ = proto.parse_h(out, d)
        Sm = np.array([[float(v) for v in row] for row in A])
        Si = np.array(r["values"]).reshape(d, d)
        e = float(np.abs(Sm @ Si - np.eye(d)).max())
        return None if e <= 5e-4 else f"shear * tensor(invert) differs from identity by {e:.3e}"
    if c["cls"] == "QuaternionRotation" and not proto.is_error(out):
        out = "aff " + out
    return cmp_h(c["d"], r, out, RTOL32)


STREAMS = [
    Stream("forms", gen_forms, impl_forms, line_forms, cmp_forms, exhaustive=True,
           doc="homogeneous_matmul / hmm / as_homogeneous_matrix on whole batches: D x 9 form pairs x leading shapes "
               "{none,(1),(N),(2,3),(D,) vector, mismatching} on either side; result shape, values and raised errors"),
    Stream("elem", gen_elem, impl_elem, line_elem, cmp_elem, exhaustive=True,
           doc="element-wise meaning through the un-batched ops h.matmul/h.hmm/h.apply/h.as_matrix/h.hom_matrix: "
               "result[i] = a[i or 0] o b[i or 0] for all 9 form pairs x batch shapes"),
    Stream("nary", gen_nary, impl_forms, line_forms, cmp_forms,
           doc="homogeneous_matmul(*args) with 1..5 operands of random forms and leading shapes"),
    Stream("transform", gen_transform, impl_transform, line_transform, cmp_transform, exhaustive=True,
           doc="homogeneous_transform / apply_transform / transform_points / transform_vectors: 3 forms x transform "
               "batch {none,(1),(N),(D,)} x 11 point shapes x vectors flag; output shape, values, errors"),
    Stream("order", gen_order, impl_order, line_order, cmp_order, exhaustive=True,
           doc="euler_rotation_order on 27 triples x 6 spellings, 32 malformed strings, None, ndim 1..4"),
    Stream("euler", gen_euler, impl_euler, line_euler, cmp_euler, exhaustive=True,
           nontrivial=lambda c: any(abs(a) > 1e-9 for a in c["angles"]),
           doc="euler_rotation_matrix for every order string (both notations) x angle shapes (3,),(1,3),(N,3),(2,2,3), "
               "2-D scalar/(1,)/(N,1), homogeneous flag, float32/64"),
    Stream("angles", gen_angles, impl_angles, line_angles, cmp_angles,
           doc="euler_rotation_angles: atan2/acos of the model's argument pairs for every order, determinant check, 2-D"),
    Stream("quat", gen_quat, impl_quat, line_quat, cmp_quat,
           doc="all _kornia conversions (quaternion_to_rotation_matrix, rotation_matrix_to_quaternion as matrices, "
               "angle_axis_to_quaternion/_rotation_matrix, quaternion_to_angle_axis, log/exp, normalize)"),
    Stream("transforms", gen_tx, impl_tx, line_tx, cmp_tx,
           doc="EulerRotation/QuaternionRotation/Iso/AnisotropicScaling/Shearing/Translation: x_() then tensor() against "
               "the model evaluated at the stored parameters, invert flag, groups 1/2, Parameter or tensor params"),
]


# ============================================================================ property oracles (implementation only)
def _tol(*ts):
    return 1e-9 * max([1.0] + [float(t.abs().max()) for t in ts if t.numel()])


def gen_compose(rng: random.Random, tier: str):
    reps = _n(tier, 1, 4, 2)
    for _ in range(reps):
        for d in (2, 3):
            for ka, kb in itertools.product(KINDS, KINDS):
                for la in LEADS:
                    for lb in LEADS:
                        yield {"d": d, "args": [rand_operand(rng, d, ka, la, oned=rng.random() < 0.3),
                                                rand_operand(rng, d, kb, lb, oned=rng.random() < 0.3)],
                               "x": [round(rng.uniform(-2, 2), 3) for _ in range(d)],
                               "v": [round(rng.uniform(-1, 1), 3) for _ in range(d)]}
    for _ in range(_n(tier, 40, 600, 200)):
        d = rng.choice([2, 3])
        n = rng.choice([3, 4, 5])
        N = rng.choice([2, 3])
        yield {"d": d, "args": [rand_operand(rng, d, rng.choice(KINDS), rng.choice([[], [1], [N]]),
                                             oned=rng.random() < 0.3) for _ in range(n)],
               "x": [round(rng.uniform(-2, 2), 3) for _ in range(d)],
               "v": [round(rng.uniform(-1, 1), 3) for _ in range(d)]}


def _kinds_key(args):
    return "x".join(a["kind"] for a in args)


def _is_batched_trans(o):
    return o["kind"] == "trans" and len(o["shape"]) >= 3


def _apply_seq(ts, x, vectors):
    """apply the transforms one after the other (last argument first)."""
    y = x
    for t in reversed(ts):
        y = L.homogeneous_transform(t, y, vectors=vectors)
    return y


def check_compose(c):
    d = c["d"]
    ts = [op_tensor(o, torch.float64) for o in c["args"]]
    x = torch.tensor(c["x"], dtype=torch.float64)
    v = torch.tensor(c["v"], dtype=torch.float64)
    kk = _kinds_key(c["args"])
    try:
        m = L.homogeneous_matmul(*ts)
    except Exception as e:
        return (f"C08:homogeneous_matmul:raises:{kk}", f"{type(e).__name__}: {str(e)[:120]}")
    flat = lambda t: t.reshape(-1, *t.shape[-2:]) if t.ndim >= 2 else t   # noqa: E731  (N, D, C) as the API documents
    fts = [flat(t) for t in ts]
    for vectors in (False, True):
        p = v if vectors else x
        got = L.homogeneous_transform(flat(m), p, vectors=vectors)
        want = _apply_seq(fts, p, vectors)
        if got.shape != want.shape or (got - want).abs().max() > _tol(got, want):
            return (f"C08:homogeneous_matmul:compose:{kk}" + (":vectors" if vectors else ""),
                    f"transform by the composite gives {got.tolist()} but one after the other gives {want.tolist()}")
    # vectors ignore exactly the translation
    for t in fts + [flat(m)]:
        a = L.homogeneous_transform(t, v, vectors=True)
        b = L.homogeneous_transform(t, x + v) - L.homogeneous_transform(t, x)
        if (a - b).abs().max() > _tol(a, b):
            return ("C08:homogeneous_transform:vectors", f"vectors=True gives {a.tolist()}, T(x+v)-T(x) = {b.tolist()}")
    if len(ts) == 2:
        try:
            h = L.hmm(*ts)
        except Exception as e:
            if all(o["kind"] == "trans" for o in c["args"]) and m.ndim >= 3:
                return ("C08:hmm:batched-translation-pair",
                        f"hmm of translations with shapes {[o['shape'] for o in c['args']]} raises "
                        f"{type(e).__name__}: {str(e)[:80]}")
            return (f"C08:hmm:raises:{kk}", f"{type(e).__name__}: {str(e)[:120]}")
        a = L.homogeneous_transform(flat(h), x)
        b = _apply_seq(fts, x, False)
        if list(h.shape[-2:]) != [d, d + 1] or (a - b).abs().max() > _tol(a, b):
            return (f"C08:hmm:compose:{kk}", f"{a.tolist()} vs {b.tolist()}")
    # conversion to a full matrix keeps the map (every operand and the composite); hmm = matmul as full matrix
    for o, t in list(zip(c["args"], ts)) + [({"kind": "composite", "shape": list(m.shape)}, m)]:
        try:
            h = L.as_homogeneous_matrix(t)
        except Exception as e:
            if o["kind"] in ("trans", "composite") and t.ndim >= 3 and t.shape[-1] == 1:
                return ("C08:as_homogeneous_matrix:batched-translation",
                        f"as_homogeneous_matrix(tensor of shape {list(t.shape)}) raises {type(e).__name__}: {str(e)[:80]}")
            return (f"C08:as_homogeneous_matrix:raises:{o['kind']}", f"{type(e).__name__}: {str(e)[:120]}")
        if list(h.shape[-2:]) != [d, d + 1]:
            return (f"C08:as_homogeneous_matrix:shape:{o['kind']}", f"shape {list(h.shape)}")
        a = L.homogeneous_transform(flat(h), x)
        b = L.homogeneous_transform(flat(t), x)
        if (a - b).abs().max() > _tol(a, b):
            return (f"C08:as_homogeneous_matrix:map:{o['kind']}", f"{a.tolist()} vs {b.tolist()}")
        # homogeneous_matrix(t, offset=o): the same map followed by the translation o (vector and scalar offset); the
        # operand itself is left alone (a copy is returned even for a D x (D+1) operand)
        for off in (v, torch.tensor(c["v"][0], dtype=torch.float64)):
            before = t.clone()
            try:
                h = L.homogeneous_matrix(t, offset=off)
            except Exception as e:
                if o["kind"] in ("trans", "composite") and t.ndim >= 3 and t.shape[-1] == 1:
                    break    # same limitation as as_homogeneous_matrix above (reported there)
                return (f"C08:homogeneous_matrix:offset:raises:{o['kind']}", f"{type(e).__name__}: {str(e)[:120]}")
            a = L.homogeneous_transform(flat(h), x)
            b = L.homogeneous_transform(flat(t), x) + off
            if list(h.shape[-2:]) != [d, d + 1] or (a - b).abs().max() > _tol(a, b):
                return (f"C08:homogeneous_matrix:offset:{o['kind']}",
                        f"homogeneous_matrix(T, offset=o)(x) = {a.tolist()} but T(x) + o = {b.tolist()}")
            if not torch.equal(t, before):
                return (f"C08:homogeneous_matrix:offset:writes-operand:{o['kind']}", "the operand was modified")
    return None


def gen_tbatch(rng: random.Random, tier: str):
    reps = _n(tier, 2, 20, 6)
    for _ in range(reps):
        for d in (2, 3):
            for k in KINDS:
                for tl in ([], [1], [3]):
                    n = tl[0] if tl else 1
                    # (M, D) points with M != N are documented to be rejected for N > 1 transforms
                    for ps in ([d], [1, 4, d], [n, 4, d], [n, 2, 2, d]) + (([4, d],) if n == 1 else ()):
                        yield {"d": d, "t": rand_operand(rng, d, k, tl), "pshape": ps,
                               "points": [round(rng.uniform(-2, 2), 3) for _ in range(int(np.prod(ps)))]}


def check_tbatch(c):
    """documented broadcasting of homogeneous_transform: result[n, ...] = transform[n] applied to points[n or 0, ...]"""
    d = c["d"]
    t = op_tensor(c["t"], torch.float64)
    p = torch.tensor(c["points"], dtype=torch.float64).reshape(c["pshape"])
    n = t.shape[0] if t.ndim == 3 else 1
    tt = t.reshape(-1, *t.shape[-2:])
    key = f"C08:homogeneous_transform:batch:{c['t']['kind']}:N{n}:points-ndim-{p.ndim}"
    for vectors in (False, True):
        try:
            y = L.homogeneous_transform(t, p, vectors=vectors)
        except Exception as e:
            return (key + ":raises", f"transform {list(t.shape)} points {list(p.shape)}: {type(e).__name__}: {str(e)[:90]}")
        if p.ndim == 1:
            want_shape = [n, d] if n > 1 else [d]
        elif n == 1:
            want_shape = list(p.shape)
        else:
            want_shape = [n] + list(p.shape[1:])
        if list(y.shape) != want_shape:
            return (key + ":shape", f"result shape {list(y.shape)}, expected {want_shape}")
        yy = y.reshape(n, -1, d) if n > 1 else y.reshape(1, -1, d)
        for i in range(n):
            if p.ndim == 1:
                src = p.reshape(1, d)
            elif n == 1 or p.shape[0] == 1:
                src = p.reshape(-1, d)
            else:
                src = p[i].reshape(-1, d)
            A = tt[i]
            if A.shape[1] == 1:
                w = src if vectors else src + A[:, 0]
            else:
                w = src @ A[:, :d].T
                if not vectors and A.shape[1] == d + 1:
                    w = w + A[:, d]
            if (yy[i] - w).abs().max() > _tol(w):
                return (key + (":vectors" if vectors else ":points"), f"batch item {i}: {yy[i].tolist()} vs {w.tolist()}")
    return None


def gen_euler_product(rng: random.Random, tier: str):
    reps = _n(tier, 1, 4, 2)
    for _ in range(reps):
        for o in ALL_TRIPLES:
            sp = spellings(*o)
            for s in [sp[0], sp[1], sp[3]] + ([sp[4]] if o in PROPER_TAIT_BRYAN else []):
                for sh in ANGLE_SHAPES:
                    n = int(np.prod(sh[:-1])) if len(sh) > 1 else 1
                    yield {"triple": o, "order": s, "shape": sh, "angles": [rand_angle(rng) for _ in range(3 * n)],
                           "homogeneous": s == sp[0] and sh == [2, 3]}
        for sh in ([], [1], [3, 1]):
            n = int(np.prod(sh)) if sh else 1
            yield {"triple": "Z", "order": None, "shape": sh, "angles": [rand_angle(rng) for _ in range(n)]}


def check_euler_product(c):
    a = torch.tensor(c["angles"], dtype=torch.float64).reshape(c["shape"])
    o, s = c["triple"], c["order"]
    notation = s is not None and " o " in s
    hg = bool(c.get("homogeneous"))
    try:
        m = U.euler_rotation_matrix(a, order=s, homogeneous=hg)
        if hg:
            if list(m.shape[-2:]) != [3, 4] or float(m[..., 3].abs().max()) != 0.0:
                return (f"C08:euler_rotation_matrix:homogeneous:{o}", f"shape {list(m.shape)} / non-zero translation")
            m = m[..., :3]
    except AttributeError as e:
        if notation:
            return ("C08:euler_rotation_order:composition-notation",
                    f"order={s!r}: {type(e).__name__}: {str(e)[:80]}")
        return (f"C08:euler_rotation_matrix:raises:{o}", f"{type(e).__name__}: {str(e)[:100]}")
    except RuntimeError as e:
        if hg and len(c["shape"]) == 2 and o not in ("XYZ", "ZYX", "ZXY", "XZX", "ZXZ"):
            return ("C08:euler_rotation_matrix:generic-order:homogeneous",
                    f"order={s!r}, homogeneous=True: {type(e).__name__}: {str(e)[:80]}")
        if len(c["shape"]) != 2 and o not in ("XYZ", "ZYX", "ZXY", "XZX", "ZXZ"):
            return (f"C08:euler_rotation_matrix:generic-order:angles-ndim-{len(c['shape'])}",
                    f"order={s!r}, angles shape {c['shape']}: {type(e).__name__}: {str(e)[:80]}")
        return (f"C08:euler_rotation_matrix:raises:{o}", f"{type(e).__name__}: {str(e)[:100]}")
    except Exception as e:
        return (f"C08:euler_rotation_matrix:raises:{o}", f"order={s!r}: {type(e).__name__}: {str(e)[:100]}")
    if o == "Z":
        flat = a.reshape(-1)
        for k in range(flat.numel()):
            t = float(flat[k])
            want = np.array([[math.cos(t), -math.sin(t)], [math.sin(t), math.cos(t)]])
            got = m.reshape(-1, 2, 2)[k].numpy()
            if np.abs(got - want).max() > 1e-12:
                return ("C08:euler_rotation_matrix:2d", f"angle {t}: {got.tolist()}")
        return None
    if list(m.shape) != c["shape"][:-1] + [3, 3]:
        return (f"C08:euler_rotation_matrix:shape:{o}", f"angles {c['shape']} -> matrix {list(m.shape)}")
    mm = m.reshape(-1, 3, 3).numpy()
    aa = a.reshape(-1, 3).numpy()
    for k in range(mm.shape[0]):
        want = np_euler(o, aa[k])
        if np.abs(mm[k] - want).max() > 1e-12:
            return (f"C08:euler_rotation_matrix:product:{o}",
                    f"order={s!r} angles={aa[k].tolist()}: max diff {np.abs(mm[k] - want).max():.3e} from "
                    f"R{o[0].lower()}(a0) R{o[1].lower()}(a1) R{o[2].lower()}(a2)")
        if np.abs(mm[k] @ mm[k].T - np.eye(3)).max() > 1e-12 or abs(np.linalg.det(mm[k]) - 1) > 1e-12:
            return (f"C08:euler_rotation_matrix:proper:{o}", "not a proper rotation")
    return None


def gen_euler_roundtrip(rng: random.Random, tier: str):
    # witnesses of C08_euler_angles_roundtrip_refuted / C08_euler_angles_2d_refuted (Props/C08.lean)
    yield {"order": "ZXZ", "d": 3, "angles": [math.atan2(0.8, 0.6), math.pi / 2, 0.0]}
    yield {"order": None, "d": 2, "angles": [-math.atan2(0.8, 0.6)]}
    for _ in range(_n(tier, 30, 800, 200)):
        for o in ("XZX", "ZXZ", None, "Z"):
            if o == "Z":
                yield {"order": None, "d": 2, "angles": [rng.uniform(-3.1, 3.1)]}
            else:
                # middle angle away from the gimbal lock sin = 0
                b = rng.choice([1, -1]) * rng.uniform(0.05, math.pi - 0.05)
                yield {"order": o, "d": 3, "angles": [rng.uniform(-3.1, 3.1), b, rng.uniform(-3.1, 3.1)]}


def check_euler_roundtrip(c):
    a = torch.tensor([c["angles"]], dtype=torch.float64)
    o = c["order"]
    R = U.euler_rotation_matrix(a, order=o)
    name = "2d" if c["d"] == 2 else (o or "ZXZ")
    try:
        b = U.euler_rotation_angles(R, order=o)
        if list(b.shape) != list(a.shape):
            return (f"C08:euler_rotation_angles:shape:{name}", f"angles of shape {list(b.shape)} for {list(a.shape)} expected")
        R2 = U.euler_rotation_matrix(b, order=o)
    except Exception as e:
        return (f"C08:euler_rotation_angles:raises:{name}", f"{type(e).__name__}: {str(e)[:100]}")
    err = float((R - R2).abs().max())
    if err > 1e-6:
        if c["d"] == 2:
            return ("C08:euler_rotation_angles:2d-sign",
                    f"angle {c['angles'][0]:.4f} -> {b.flatten().tolist()} (matrix differs by {err:.3f})")
        rev = float((U.euler_rotation_matrix(b.flip(-1), order=o) - R).abs().max())
        if rev <= 1e-6:
            return (f"C08:euler_rotation_angles:reversed:{name}",
                    f"angles {c['angles']} -> matrix -> angles {b.flatten().tolist()} (reversed order; matrix error {err:.3f})")
        return (f"C08:euler_rotation_angles:roundtrip:{name}", f"matrix error {err:.3e}")
    return None


def gen_conv(rng: random.Random, tier: str):
    for _ in range(_n(tier, 300, 8000, 2000)):
        yield {"q": rand_unit_quat(rng), "a": rand_rotvec(rng)}


def check_conv(c):
    f64 = torch.float64
    q = torch.tensor([c["q"]], dtype=f64)
    a = torch.tensor([c["a"]], dtype=f64)
    th = float(a.norm())
    # tolerance: angle_axis_to_rotation_matrix divides by (theta + 1e-6) [kornia], first-order Taylor below theta^2 <= 1e-6
    tol_aa = 4e-6
    Rq = torch.tensor(np_quat_matrix(c["q"]))
    Ra = torch.tensor(np_rodrigues(c["a"]))

    def bad(name, X, Y, tol):
        e = float((X.reshape(3, 3) - Y.reshape(3, 3)).abs().max())
        return (f"C08:conversion:{name}", f"max matrix difference {e:.3e} (q={c['q']}, a={c['a']})") if e > tol else None

    R1 = L.quaternion_to_rotation_matrix(q)
    steps = [
        ("quaternion_to_rotation_matrix", R1, Rq, 1e-12),
        ("quaternion_to_rotation_matrix:proper", R1.reshape(3, 3) @ R1.reshape(3, 3).T, torch.eye(3, dtype=f64), 1e-12),
        ("rotation_matrix_to_quaternion", L.quaternion_to_rotation_matrix(L.rotation_matrix_to_quaternion(R1)), R1, 1e-6),
        ("quaternion_to_angle_axis", torch.tensor(np_rodrigues(L.quaternion_to_angle_axis(q)[0].tolist())), Rq, 1e-9),
        ("rotation_matrix_to_angle_axis",
         torch.tensor(np_rodrigues(L.rotation_matrix_to_angle_axis(R1)[0].tolist())), Rq, 1e-6),
        ("angle_axis_to_quaternion", L.quaternion_to_rotation_matrix(L.angle_axis_to_quaternion(a)), Ra, 1e-9),
        ("angle_axis_to_rotation_matrix", L.angle_axis_to_rotation_matrix(a), Ra, tol_aa),
        ("angle_axis:quaternion-vs-matrix-route", L.angle_axis_to_rotation_matrix(a),
         L.quaternion_to_rotation_matrix(L.angle_axis_to_quaternion(a)), tol_aa),
        ("quaternion_log_exp", L.quaternion_to_rotation_matrix(L.quaternion_log_to_exp(0.5 * a)), Ra, 1e-7),
    ]
    if th > 1e-3 and th < math.pi - 1e-3:
        steps.append(("quaternion_exp_log",
                      torch.tensor(np_rodrigues((2 * L.quaternion_exp_to_log(L.quaternion_log_to_exp(0.5 * a)))[0].tolist())),
                      Ra, 1e-6))
    for name, X, Y, tol in steps:
        r = bad(name, X, Y, tol)
        if r:
            return r
    if abs(float(torch.det(R1.reshape(3, 3))) - 1) > 1e-12:
        return ("C08:conversion:quaternion_to_rotation_matrix:det", "determinant != 1")
    # batches: every conversion acts item by item — f(stack of inputs)[k] = f(input k) for N = 3 distinct items
    qs = torch.cat([q, torch.nn.functional.normalize(q + torch.tensor([[0.3, -0.2, 0.1, 0.25]], dtype=f64), dim=-1),
                    torch.nn.functional.normalize(q.flip(-1) + 0.1, dim=-1)], 0)
    as_ = torch.cat([a, 0.5 * a, -a.flip(-1) + 0.2], 0)
    Rs = L.quaternion_to_rotation_matrix(qs)
    for name, fn, xs in (("quaternion_to_rotation_matrix", L.quaternion_to_rotation_matrix, qs),
                         ("quaternion_to_angle_axis", L.quaternion_to_angle_axis, qs),
                         ("angle_axis_to_quaternion", L.angle_axis_to_quaternion, as_),
                         ("angle_axis_to_rotation_matrix", L.angle_axis_to_rotation_matrix, as_),
                         ("rotation_matrix_to_quaternion", L.rotation_matrix_to_quaternion, Rs),
                         ("rotation_matrix_to_angle_axis", L.rotation_matrix_to_angle_axis, Rs),
                         ("quaternion_log_to_exp", L.quaternion_log_to_exp, 0.5 * as_),
                         ("quaternion_exp_to_log", L.quaternion_exp_to_log, qs)):
        try:
            whole = fn(xs)
            single = torch.cat([fn(xs[k:k + 1]) for k in range(xs.shape[0])], 0)
        except Exception as e:
            return (f"C08:conversion:{name}:batch:raises", f"{type(e).__name__}: {str(e)[:100]}")
        if whole.shape != single.shape or float((whole - single).abs().max()) > 1e-9:
            return (f"C08:conversion:{name}:batch", f"{name} of a batch of {xs.shape[0]} differs from the item-by-item results by "
                    f"{float((whole - single).abs().max()) if whole.shape == single.shape else 'shape'}")
    return None


def gen_txrt(rng: random.Random, tier: str):
    for c in gen_tx(rng, "quick" if tier == "quick" else "thorough" if tier == "thorough" else "quick"):
        c["invert"] = False
        yield c


def check_txrt(c):
    cls, d = c["cls"], c["d"]
    v = torch.tensor(c["values"], dtype=torch.float32)
    t = make_tx(c)
    tol = 2e-4
    with torch.no_grad():
        getter = {"EulerRotation": "angles", "QuaternionRotation": "quaternion", "IsotropicScaling": "scales",
                  "AnisotropicScaling": "scales", "Shearing": "angles", "Translation": "offset"}[cls]
        got = getattr(t, getter)()
        want = torch.nn.functional.normalize(v, dim=-1) if cls == "QuaternionRotation" else v
        if got.shape != want.shape or (got - want).abs().max() > tol * max(1.0, float(want.abs().max())):
            return (f"C08:{cls}.{getter}:roundtrip", f"{getter}_({want.tolist()}).{getter}() = {got.tolist()}")
        T = t.tensor()
        # matrix() = full homogeneous matrix of the same map
        try:
            M = t.matrix()
        except Exception as e:
            if cls == "Translation":
                return ("C08:Translation.matrix:raises", f"{type(e).__name__}: {str(e)[:80]}")
            return (f"C08:{cls}.matrix:raises", f"{type(e).__name__}: {str(e)[:80]}")
        x = torch.tensor([0.3, -0.7, 0.5][:d])
        if (L.homogeneous_transform(M, x) - L.homogeneous_transform(T, x)).abs().max() > tol:
            return (f"C08:{cls}.matrix:map", "matrix() is a different map than tensor()")
        # matrix_(R) then tensor() gives R back (rotations)
        if cls in ("EulerRotation", "QuaternionRotation"):
            order = c.get("order")
            name = "2d" if d == 2 else ((order or "ZXZ").upper() if cls == "EulerRotation" else "q")
            try:
                t2 = getattr(S, cls)(Grid(size=(5, 6, 7)[:d]), groups=c["groups"],
                                     **({"order": order} if cls == "EulerRotation" else {}))
                T2 = t2.matrix_(T.detach().clone()).tensor()
            except NotImplementedError:
                return None    # euler_rotation_angles implements XZX / ZXZ only (observation, see NOTES_C08.md)
            except Exception as e:
                return (f"C08:{cls}.matrix_:raises:{name}", f"{type(e).__name__}: {str(e)[:90]}")
            if cls == "EulerRotation" and d == 3 and abs(math.sin(float(t.angles()[0, 1]))) < 0.05:
                return None    # near gimbal lock the Euler angles are not unique / ill-conditioned
            e = float((T2 - T).abs().max())
            if e > 1e-3:
                return (f"C08:{cls}.matrix_:roundtrip:{name}", f"matrix_(R).tensor() differs from R by {e:.3f}")
    return None


ORACLES = [
    Oracle("compose", gen_compose, check_compose,
           doc="composite applied = one after the other (points and vectors), vectors ignore translation, "
               "as_homogeneous_matrix / hmm keep the map, homogeneous_matrix(T, offset=o) = T followed by o; 9 form pairs x "
               "batch shapes x D, n-ary"),
    Oracle("transform_batch", gen_tbatch, check_tbatch,
           doc="homogeneous_transform batch semantics against plain matrix arithmetic: N transforms x points "
               "(D,), (M,D), (1,M,D), (N,M,D), (N,2,2,D); points and vectors"),
    Oracle("euler_product", gen_euler_product, check_euler_product,
           nontrivial=lambda c: any(abs(a) > 1e-9 for a in c["angles"]),
           doc="euler_rotation_matrix = product of elementary rotations (independent numpy reference), proper rotation; "
               "27 orders x letter/lower/composition notation x angle batch shapes; 2-D"),
    Oracle("euler_roundtrip", gen_euler_roundtrip, check_euler_roundtrip,
           doc="euler_rotation_matrix(euler_rotation_angles(R)) = R for the implemented orders and 2-D"),
    Oracle("conversions", gen_conv, check_conv,
           doc="quaternion / angle-axis / matrix conversions agree as matrices with independent numpy references; batches of "
               "three distinct items convert item by item"),
    Oracle("transform_params", gen_txrt, check_txrt,
           doc="x_() -> x() round trips (also when requires_grad of the Parameter is switched off or on between setter and getter), matrix() = tensor() as a map, matrix_(R).tensor() = R"),
]


def search_cases(disagreements: List[dict]):
    extra = {"compose": [], "transform_batch": [], "euler_product": [], "euler_roundtrip": [], "conversions": [], "transform_params": []}
    for dsg in disagreements[:60]:
        c = dsg["case"]
        st = dsg["stream"]
        if st in ("forms", "elem", "nary") and c.get("args"):
            d = c["d"]
            extra["compose"].append({"d": d, "args": c["args"], "x": [0.3, -0.7, 0.5][:d], "v": [0.1, 0.2, -0.1][:d]})
        elif st == "transform":
            d = c["d"]
            ident = {"kind": "aff", "shape": [d, d], "values": [1.0 if i == j else 0.0 for i in range(d) for j in range(d)]}
            extra["compose"].append({"d": d, "args": [c["t"], ident], "x": [0.3, -0.7, 0.5][:d], "v": [0.1, 0.2, -0.1][:d]})
            if len(c["t"]["shape"]) <= 3 and c["pshape"] and c["pshape"][-1] == d and len(c["t"]["shape"]) >= 2:
                n = c["t"]["shape"][0] if len(c["t"]["shape"]) == 3 else 1
                if len(c["pshape"]) == 1 or n == 1 or c["pshape"][0] in (1, n):
                    extra["transform_batch"].append({"d": d, "t": c["t"], "pshape": c["pshape"], "points": c["points"]})
        elif st in ("euler", "order"):
            s = c.get("order", c.get("arg"))
            if isinstance(s, str):
                letters = [ch.upper() for ch in s if ch.upper() in AXES and ch != "R"]
                if len(letters) == 3 and s in spellings(*letters):
                    for sh in ANGLE_SHAPES:
                        n = int(np.prod(sh[:-1])) if len(sh) > 1 else 1
                        extra["euler_product"].append({"triple": "".join(letters), "order": s, "shape": sh,
                                                       "angles": [0.3 + 0.2 * k for k in range(3 * n)]})
        elif st == "angles" and c.get("d") == 3:
            extra["euler_roundtrip"].append({"order": c["order"] if c["order"] in ("XZX", "ZXZ", None) else "ZXZ",
                                             "d": 3, "angles": [0.3, 0.9, -1.1]})
        elif st == "quat":
            extra["conversions"].append({"q": c.get("q") if c.get("q") and abs(sum(v * v for v in c["q"]) - 1) < 1e-6
                                         else [0.5, 0.5, -0.5, 0.5], "a": c.get("a") or [0.3, -0.4, 1.2]})
        elif st == "transforms":
            cc = dict(c)
            cc["invert"] = False
            extra["transform_params"].append(cc)
    return extra
