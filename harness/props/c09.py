"""C09 — a transform evaluates its current parameters and grid, never a stale snapshot
(also hosts the `C07_shared_params` clause of C07: forward and inverse read the same parameters).

Correspondence: a history of operations is executed on real deepali transforms and replayed by the
Lean state machine (`tstate.run`, Model/TransformState.lean). "Versions" are made observable:

* parameter tensors hold version-coded constants (x-component `code·D`, y-component `-2·code·D`,
  D = 2^-12): literal version v -> code v (0..63), callable f on condition c -> 64 + 16(f-1) + c;
* grids are the family G(k): size 4·2^k+1 on ONE fixed domain (spacing 8/(n-1): version-coded spacing
  and size), so the grid an evaluation used is read off the shape of the buffer it used;
* conditioning arguments are tensors holding the version c;
* an inverted SVF/SVFFD negates the constant field: the inversion flag is the sign.

`transform(x) - x` (resp. `disp()`) therefore decodes to the versions used; integers are compared
exactly, and so is which operation raises which exception class.
"""
from __future__ import annotations

import copy as pycopy
import inspect
import itertools
import math
import os
import random
from typing import Dict, List, Optional, Tuple

import torch
from torch.nn import Module, Parameter

import deepali.spatial as S
from deepali.core.grid import Axes, Grid
from deepali.spatial.base import ReadOnlyParameters, SpatialTransform

from lib.core import Oracle, Stream

PROP = "C09"
torch.set_num_threads(1)    # tiny tensors: one thread is fastest and insensitive to machine load
D = 2.0 ** -12
DECODE_TOL = 0.02      # in units of D; float32 evaluation error of a constant field is < 1e-3·D (measured ~1e-4)

ASSUMPTIONS = [
    "versions are observed through version-coded constant fields on the grid family G(k) = size 4·2^k+1 on one fixed "
    "domain (align_corners=True, as B-spline transforms require); decode tolerance 0.02·D with D = 2^-12 "
    "(float32 error of evaluating a constant field measured ≈ 1e-4·D); integers compared exactly",
    "model abstraction: re-gridding a tensor-held parameter keeps its content version (clause "
    "C09_regrid_preserves_world is assumed by the state machine; it is covered by oracle `regrid_world` as "
    "exploration with a stated tolerance, not by a theorem)",
    "a B-spline transform's coefficient tensor is never coarser than its own grid requires (a linked B-spline transform "
    "is re-gridded together with its source; generators reject histories that reach such a state)",
    "a transform is not linked to a transform whose params are None (the placeholder buffer `p` registered by link_ "
    "then lacks the groups dimension and cannot be evaluated through a further link)",
    "arguments of data_/data(arg) are plain tensors (never nn.Parameter); composites have leaf members only; callables "
    "are plain functions or nn.Modules returning a tensor of the calling transform's data_shape",
    "I-7: disp()/tensor() after an in-place edit without call/update may be stale (documented); freshness is required "
    "of calls and of disp() right after data_/grid_/condition_/reset_parameters only",
    "I-10: a linked transform reads the buffered parameters of the transform it is linked to (what that transform last "
    "evaluated); `current` in the model is defined that way",
    "I-1: exceptions are compared between code and model but are not C09 violations, except a TypeError of "
    "inverse(link=True)/.inv (the former F-07, repaired by 20bab42), which is keyed here because this check hosts the "
    "C07_shared_params clause (linked inverses are in C09's quantifier)",
    "re-base on the repair of the C15 findings F-15f/g: CompositeTransform.__copy__ gives a shallow copy of a composite "
    "shallow copies of its children (so composite.condition(c) / .grid(g) / copy.copy no longer touch the original's "
    "children); the model numbers the composite copy first and its child copies next, as Machine.add_with_members does",
    "the model follows /repo after the repairs 1ce28a8 (B-spline grid_ clears buffers), 3110eb9 (__copy__ copies the "
    "_parameters container), 20bab42 (link_ deletes a registered parameter 'params' first); 4597ff0 (has_parameters of a "
    "linked transform) concerns parameter squashing of linear transforms and has no counterpart in this state machine",
    "torch.nn.Module attribute semantics (__setattr__/__getattr__/__delattr__/register_buffer/register_parameter) are "
    "modelled as documented (typed slots, lookup order __dict__ → _parameters → _buffers → _modules)",
]
TRUSTED = ["Model/TransformState.lean hand transcription of spatial/{base,parametric,nonrigid,bspline,composite}.py "
           "state handling and of torch.nn.Module attribute slots; tied to /repo by the history streams on every run"]
RULE = ("histories over {dvf(stride 1|2), svf(stride 1|2), ffd, svffd} x params kinds {none, Parameter, buffer, function, "
        "nn.Module, linked} x composites {Sequential, MultiLevel}; pattern streams (replace→disp, hook, sharing) are "
        "enumerated exhaustively on every run; random histories (quick ≤ 6, thorough ≤ 12 operations after set-up) are "
        "drawn from one PRNG seeded by VERIF_SEED; distinct after JSON canonicalisation; non-trivial = the history "
        "contains a state-changing operation followed by an evaluation")

LEAF = ["dvf1", "dvf0", "svf1", "svf0", "ffd", "svffd"]
KINDS = ["none", "param", "buffer", "fn:1", "mod:2"]
MAXG = 3


def _n(tier, quick, thorough, search=None):
    return {"quick": quick, "thorough": thorough, "search": search or quick * 3}[tier]


# ----------------------------------------------------------------------------- version coding
_GRIDS: Dict[int, Grid] = {}


def G(k: int) -> Grid:
    if k not in _GRIDS:
        n = 4 * 2 ** k + 1
        _GRIDS[k] = Grid(size=(n, n), spacing=(8.0 / (n - 1),) * 2, align_corners=True)
    return _GRIDS[k]


def grid_version(n: int) -> str:
    k = math.log2((n - 1) / 4) if n > 4 else -1
    return f"g{int(k)}" if k >= 0 and abs(k - round(k)) < 1e-9 else f"g?{n}"


def lit_code(v: int) -> int:
    return v


def pred_code(f: int, c: int) -> int:
    return 64 + 16 * (f - 1) + c


def content_of(code: int) -> str:
    code = abs(code)
    if code < 64:
        return f"L{code}"
    return f"P{(code - 64) // 16 + 1}.{(code - 64) % 16}"


def smooth(shape, seed: int) -> torch.Tensor:
    """deterministic smooth (low-frequency) 2-vector field of the given spatial shape, amplitude ≤ 1"""
    g = torch.Generator().manual_seed(seed)
    a = torch.rand(2, 4, generator=g) * 2 - 1
    ys = torch.linspace(-1, 1, shape[-2]).reshape(-1, 1)
    xs = torch.linspace(-1, 1, shape[-1]).reshape(1, -1)
    out = torch.zeros((1, 2) + tuple(shape[-2:]))
    for c in range(2):
        out[0, c] = (a[c, 0] * torch.sin(1.3 * xs + a[c, 1]) * torch.cos(0.9 * ys + a[c, 2]) + 0.3 * a[c, 3] * xs * ys) / 1.3
    return out


class Mode:
    """how version codes are written into tensors: exact constants (correspondence) or constants plus a
    smooth perturbation (oracles, so that evaluation/regridding is exercised on non-constant fields)"""

    def __init__(self, amp: float = 0.0):
        self.amp = amp

    def field(self, shape, code: int) -> torch.Tensor:
        t = torch.zeros((1,) + tuple(shape), dtype=torch.float32)
        t[:, 0] = code * D
        t[:, 1] = -2 * code * D
        if self.amp:
            t = t + self.amp * smooth(shape, 1000 + code)
        return t


def _calling_transform():
    """the SpatialTransform whose `_data()` is invoking the callable (a network would predict for that
    transform's grid; `params(*args)` gets no other handle on the expected shape)"""
    fr = inspect.currentframe()
    for _ in range(12):
        fr = fr.f_back
        if fr is None:
            break
        s = fr.f_locals.get("self")
        if isinstance(s, SpatialTransform) and fr.f_code.co_name == "_data":
            return s
    raise RuntimeError("callable invoked outside SpatialTransform._data")


def _cond_version(args) -> int:
    return 0 if not args else int(round(float(args[0].flatten()[0])))


def make_fn(f: int, mode: Mode):
    def fn(*args):
        t = _calling_transform()
        return mode.field(t.data_shape, pred_code(f, _cond_version(args)))
    fn.fid = f
    return fn


class Net(Module):
    def __init__(self, f: int, mode: Mode):
        super().__init__()
        self.fid, self.mode = f, mode

    def forward(self, *args):
        t = _calling_transform()
        return self.mode.field(t.data_shape, pred_code(self.fid, _cond_version(args)))


CTOR = {
    "dvf1": (S.DisplacementFieldTransform, {"stride": 1}),
    "dvf0": (S.DisplacementFieldTransform, {"stride": 2}),
    "svf1": (S.StationaryVelocityFieldTransform, {"stride": 1}),
    "svf0": (S.StationaryVelocityFieldTransform, {"stride": 2}),
    "ffd": (S.FreeFormDeformation, {"stride": 2}),
    "svffd": (S.StationaryVelocityFreeFormDeformation, {"stride": 2}),
}
COMP = {"seq": S.SequentialTransform, "multi": S.MultiLevelTransform}

PROBE = torch.tensor([[[0.0, 0.0], [0.123, -0.31], [-0.4, 0.27]]])


def err_token(e: Exception) -> str:
    if isinstance(e, AssertionError):
        return "err:assert"
    if isinstance(e, ReadOnlyParameters):
        return "err:readonly"
    if isinstance(e, NotImplementedError):
        return "err:notimpl"
    if isinstance(e, ValueError):
        return "err:value"
    if isinstance(e, TypeError):
        return "err:type"
    if isinstance(e, AttributeError):
        return "err:attr"
    if isinstance(e, KeyError):
        return "err:key"
    if isinstance(e, RuntimeError):
        return "err:runtime"
    return f"err:other:{type(e).__name__}"


# ----------------------------------------------------------------------------- the implementation side
def decode_const(vals: torch.Tensor) -> Optional[int]:
    """vals: (..., 2) displacement vectors in cube units → the integer code, or None when the field is not the
    version-coded constant (x = code·D, y = -2·code·D at every sample)."""
    v = vals.reshape(-1, 2).double() / D
    cx = v[:, 0].mean().item()
    code = round(cx)
    if (v[:, 0] - code).abs().max().item() > DECODE_TOL or (v[:, 1] + 2 * code).abs().max().item() > 2 * DECODE_TOL:
        return None
    return int(code)


def obs_token(code: Optional[int], n: int) -> str:
    if code is None:
        return "undecodable"
    inv = "i?" if code == 0 else ("i1" if code < 0 else "i0")
    return f"{content_of(code)},{grid_version(n)},{inv}"


class Machine:
    """executes a history on real deepali objects; object ids = creation order (as in the model)"""

    def __init__(self, mode: Optional[Mode] = None):
        self.mode = mode or Mode()
        self.objs: List[SpatialTransform] = []
        self.cls: List[str] = []

    # -- construction
    def mk(self, cls: str, kind: str, v: int, g: int, boolinit: bool = False):
        ctor, kw = CTOR[cls]
        grid = G(g)
        shape = ctor(grid, params=None, **kw).data_shape
        if kind == "none":
            params = None
        elif kind == "param":
            params = True if (boolinit and v == 0) else Parameter(self.mode.field(shape, lit_code(v)))
        elif kind == "buffer":
            params = False if (boolinit and v == 0) else self.mode.field(shape, lit_code(v))
        elif kind.startswith("fn:"):
            params = make_fn(int(kind[3:]), self.mode)
        elif kind.startswith("mod:"):
            params = Net(int(kind[4:]), self.mode)
        else:
            raise ValueError(kind)
        return ctor(grid, params=params, **kw)

    def add(self, t, cls: str) -> str:
        self.objs.append(t)
        self.cls.append(cls)
        return f"new:{len(self.objs) - 1}"

    # -- observation
    def leaf_obs(self, t) -> str:
        """decode the buffer `u` that the evaluation just used (tensor() returns the registered buffer)"""
        u = t.tensor()
        return obs_token(decode_const(u.movedim(1, -1)), u.shape[-1])

    def observe(self, t, cls: str, call: bool) -> str:
        if cls in COMP:
            if call:
                d = (t(PROBE) - PROBE)[:, :1]
            else:
                dd = t.disp()
                d = dd.movedim(1, -1)[:, dd.shape[2] // 2, dd.shape[3] // 2].reshape(1, 1, 2)
            toks, total = [], 0
            for m in t.transforms():
                u = m.tensor()
                code = decode_const(u.movedim(1, -1))
                toks.append(obs_token(code, u.shape[-1]))
                total += code if code is not None else 10 ** 6
            got = decode_const(d)
            if got is None or got != total:
                return "obs:!sum"
            return "obs:" + "+".join(toks)
        if call:
            y = t(PROBE)
            code = decode_const(y - PROBE)
            n = t.tensor().shape[-1]
        else:
            dd = t.disp()
            code = decode_const(dd.movedim(1, -1))
            n = t.tensor().shape[-1]
        # the buffer the evaluation used must hold the same values as the result
        if code != decode_const(t.tensor().movedim(1, -1)):
            return "obs:!buffer"
        return "obs:" + obs_token(code, n)

    # -- one operation
    def step(self, op: list) -> str:
        name = op[0]
        try:
            if name == "mk":
                return self.add(self.mk(op[1], op[2], op[3], op[4], bool(op[5]) if len(op) > 5 else False), op[1])
            if name == "mkcomp":
                ms = [self.objs[i] for i in op[3]]
                return self.add(COMP[op[1]](G(op[2]), *ms), op[1])
            o = op[1]
            if o >= len(self.objs) or (name in ("link_", "link") and op[2] >= len(self.objs)):
                return "err:noobj"
            t, cls = self.objs[o], self.cls[o]
            if name == "copy":
                return self.add_with_members(pycopy.copy(t), cls)
            if name == "inverse":
                inv = t.inverse(link=bool(op[2]), update_buffers=bool(op[3]))
                return self.add_with_members(inv, cls)
            if name == "link_":
                t.link_(self.objs[op[2]])
                return "ok"
            if name == "link":
                return self.add(t.link(self.objs[op[2]]), cls)
            if name == "unlink_":
                t.unlink_()
                return "ok"
            if name == "unlink":
                return self.add(t.unlink(), cls)
            if name == "data_":
                t.data_(self.mode.field(t.data_shape, lit_code(op[2])))
                return "ok"
            if name == "datacopy":
                return self.add(t.data(self.mode.field(t.data_shape, lit_code(op[2]))), cls)
            if name == "dataget":
                code = decode_const(t.data().movedim(1, -1))
                return "val:" + (content_of(code) if code is not None else "undecodable")
            if name == "inplace":
                p = getattr(t, "params", None)
                if not isinstance(p, torch.Tensor):
                    return "err:inplace"
                with torch.no_grad():
                    p.copy_(self.mode.field(p.shape[1:], lit_code(op[2])))
                return "ok"
            if name == "grid_":
                t.grid_(G(op[2]))
                return "ok"
            if name == "gridcopy":
                return self.add_with_members(t.grid(G(op[2])), cls)
            if name == "condition_":
                t.condition_(torch.tensor([float(op[2])]))
                return "ok"
            if name == "condcopy":
                return self.add_with_members(t.condition(torch.tensor([float(op[2])])), cls)
            if name == "reset":
                t.reset_parameters()
                return "ok"
            if name == "update":
                t.update()
                return "ok"
            if name == "call":
                return self.observe(t, cls, True)
            if name == "disp":
                return self.observe(t, cls, False)
            if name == "clear":
                t.clear_buffers()
                return "ok"
            raise ValueError(f"unknown op {name}")
        except Exception as e:  # mapped to the model's error enum; anything unmapped propagates
            return err_token(e)

    def add_with_members(self, t, cls: str) -> str:
        """register a new transform; for a composite also its children, in order: a shallow copy of a composite owns
        shallow copies of its children (CompositeTransform.__copy__, repair of F-15f/g), `inverse` owns the inverses —
        the model numbers them right after the composite"""
        tok = self.add(t, cls)
        if cls in COMP:
            for m in t.transforms():
                self.add(m, self._member_cls(m))
        return tok

    def _member_cls(self, m) -> str:
        for i, t in enumerate(self.objs):
            if type(t) is type(m) and getattr(t, "stride", None) == getattr(m, "stride", None):
                return self.cls[i]
        raise RuntimeError("member class not found")

    def run(self, hist: List[list]) -> List[str]:
        """outputs per operation; stops with a `skip:` token once a state outside the modelled domain is reached"""
        outs = []
        for op in hist:
            outs.append(self.step(op))
            if undersized(self):      # (a refreshed `p` of a link source can make its linked transforms undersized)
                outs[-1] = "skip:undersized"
                break
        return outs


def op_tokens(op: list) -> str:
    name = op[0]
    if name == "mk":
        return f"mk {op[1]} {op[2]} {op[3]} {op[4]}"
    if name == "mkcomp":
        return f"mkcomp {op[1]} {op[2]} {len(op[3])} " + " ".join(str(m) for m in op[3])
    return " ".join(str(int(a)) if not isinstance(a, str) else a for a in op)


def line_hist(c) -> str:
    return "tstate.run " + " ".join(op_tokens(op) for op in c["hist"])


def impl_hist(c) -> List[str]:
    return Machine().run(c["hist"])


def _norm(tok: str) -> str:
    """the sign of a zero field carries no inversion information: compare `L0,gK,i*` modulo the flag"""
    if tok.startswith("obs:"):
        parts = []
        for p in tok[4:].split("+"):
            f = p.split(",")
            if len(f) == 3 and f[0] == "L0":
                f[2] = "i?"
            parts.append(",".join(f))
        return "obs:" + "+".join(parts)
    return tok


def cmp_hist(c, r, out) -> Optional[str]:
    if isinstance(r, str):
        return f"impl {r}"
    if out.startswith("bad-op"):
        return f"model {out}"
    m = out.split(" ") if out else []
    if r and r[-1].startswith("skip:"):      # outside the modelled domain from here on (see ASSUMPTIONS)
        r, m = r[:-1], m[:len(r) - 1]
    if len(m) != len(r):
        return f"model answered {len(m)} operations, implementation {len(r)}"
    for i, (a, b) in enumerate(zip(r, m)):
        if _norm(a) != _norm(b):
            return f"op {i} {c['hist'][i]}: implementation {a} vs model {b}"
    return None


EVAL = {"call", "disp", "dataget"}
CHANGE = {"data_", "datacopy", "inplace", "grid_", "gridcopy", "condition_", "condcopy", "reset", "link_", "link",
          "unlink_", "unlink", "inverse", "clear"}


def nontrivial(c) -> bool:
    seen = False
    for op in c["hist"]:
        if op[0] in CHANGE:
            seen = True
        elif op[0] in EVAL and seen:
            return True
    return False


# ----------------------------------------------------------------------------- pattern streams (exhaustive)
def setup_kind(cls: str, kind: str, g: int = 0) -> Tuple[List[list], int]:
    """ops creating one object of class `cls` whose params are of `kind` (incl. linked kinds) → (ops, target id)"""
    if kind.startswith("paramlinked:"):      # a Parameter-held transform that gets linked (link_ deletes the parameter)
        src = kind[len("paramlinked:"):]
        return [["mk", cls, src, 5, g], ["mk", cls, "param", 6, g], ["link_", 1, 0]], 1
    if kind.startswith("linked:"):
        src = kind[len("linked:"):]
        return [["mk", cls, src, 5, g], ["mk", cls, "buffer", 6, g], ["link_", 1, 0]], 1
    return [["mk", cls, kind, 5, g]], 0


ALLKINDS = KINDS + ["linked:buffer", "linked:fn:1", "linked:param", "paramlinked:buffer", "paramlinked:param"]


def gen_replace_disp(rng, tier):
    """exhaustive: every class × params kind × replacing operation, with and without a preceding evaluation:
    … [call] ; replace ; disp ; call"""
    for cls, kind in itertools.product(LEAF, ALLKINDS):
        pre, t = setup_kind(cls, kind)
        for rep in (["data_", t, 9], ["grid_", t, 1], ["grid_", t, 0], ["grid_", t, 2], ["condition_", t, 3],
                    ["reset", t]):
            if rep[0] == "grid_" and rep[2] > 0 and "linked:" in kind and cls in ("ffd", "svffd"):
                continue    # a linked B-spline transform is re-gridded together with its source (ASSUMPTIONS)
            for warm in ([], [["call", t]], [["update", t]], [["call", t], ["inplace", t, 7]]):
                yield {"hist": pre + warm + [rep, ["disp", t], ["call", t], ["dataget", t]]}


def gen_hook(rng, tier):
    """exhaustive: in-place edits / source changes between evaluations (pre-hook, I-7, I-10 behaviour)"""
    for cls, kind in itertools.product(LEAF, ALLKINDS):
        pre, t = setup_kind(cls, kind)
        src = 0
        for mid in ([["inplace", t, 7]], [["inplace", src, 7]], [["data_", src, 8]], [["condition_", src, 2]],
                    [["condition_", src, 2], ["call", src]], [["clear", t]], [["reset", src]],
                    [["inplace", src, 7], ["update", t]], [["copy", t], ["inplace", t, 4], ["call", len(pre)]]):
            yield {"hist": pre + [["call", t]] + mid + [["disp", t], ["call", t], ["disp", t], ["update", t], ["disp", t]]}


SHARE_EDITS = [[], [["inplace", 0, 7]], [["inplace", 1, 7]], [["data_", 0, 8]], [["data_", 1, 8]],
               [["call", 0], ["inplace", 0, 7]], [["call", 1], ["call", 0], ["inplace", 1, 7], ["inplace", 0, 9]],
               [["data_", 0, 8], ["inplace", 0, 9]], [["condition_", 0, 2]], [["reset", 0]], [["reset", 1]],
               [["grid_", 0, 1]], [["unlink_", 1]], [["data_", 0, 8], ["data_", 0, 9], ["update", 1]]]


def gen_sharing(rng, tier):
    """exhaustive (C07_shared_params): invertible class × kind × link × update_buffers × edit pattern, then
    forward and inverse are called (forward first) and `disp` of the inverse is taken"""
    for cls, kind in itertools.product(["svf1", "svf0", "svffd", "dvf1", "ffd"], KINDS):
        for link, ub in itertools.product([0, 1], [0, 1]):
            for warm in ([], [["call", 0]]):
                if warm and tier == "quick" and not ub:
                    continue      # the warm-up only matters for update_buffers=True; all four in thorough
                for edits in SHARE_EDITS:
                    yield {"hist": [["mk", cls, kind, 5, 0]] + warm + [["inverse", 0, link, ub]] + edits
                           + [["call", 0], ["call", 1], ["disp", 1], ["dataget", 1]]}


def gen_accessors(rng, tier):
    """exhaustive: the non-in-place accessors (copy / data(arg) / grid(g) / condition(c) / link / unlink) followed by
    evaluations of the original and of the copy (shared `_parameters`, copied `_buffers`/`_modules`)"""
    for cls, kind in itertools.product(LEAF, ALLKINDS):
        pre, t = setup_kind(cls, kind)
        n = sum(1 for op in pre if op[0] == "mk")     # id of the `other` object created next
        other = [["mk", cls, "buffer", 11, 0]]
        for acc in (["copy", t], ["datacopy", t, 9], ["gridcopy", t, 1], ["condcopy", t, 3], ["unlink", t],
                    ["link", t, n], ["inverse", t, 0, 0], ["inverse", t, 1, 1]):
            for warm in ([], [["call", t]]):
                tail = [["call", t], ["call", n + 1], ["inplace", n + 1, 12], ["disp", t], ["call", t], ["disp", n + 1],
                        ["data_", n + 1, 13], ["call", t], ["call", n + 1]]
                yield {"hist": pre + other + warm + [acc] + tail}


def gen_composite(rng, tier):
    """exhaustive small patterns on Sequential / MultiLevel composites of two leaves"""
    pairs = [("svf0", "param", "svffd", "buffer"), ("dvf1", "buffer", "ffd", "fn:1"), ("svf1", "fn:1", "svf1", "mod:2"),
             ("svffd", "buffer", "svf0", "buffer"), ("dvf0", "param", "dvf1", "none")]
    for comp, (c0, k0, c1, k1) in itertools.product(["seq", "multi"], pairs):
        pre = [["mk", c0, k0, 3, 0], ["mk", c1, k1, 4, 0], ["mkcomp", comp, 0, [0, 1]]]
        for mid in ([], [["inplace", 0, 7]], [["data_", 1, 8]], [["condition_", 2, 3]], [["grid_", 2, 1]],
                    [["grid_", 1, 1]], [["condcopy", 2, 4]], [["gridcopy", 2, 1]], [["clear", 2]], [["copy", 2]],
                    [["inverse", 2, 0, 0]], [["inverse", 2, 1, 1]], [["inverse", 2, 0, 1]], [["reset", 0]],
                    [["update", 2], ["inplace", 1, 9]],
                    # a shallow copy of a composite owns copies of its children (3 = copy, 4 and 5 = child copies)
                    [["copy", 2], ["condition_", 3, 5]], [["copy", 2], ["grid_", 3, 1]], [["copy", 2], ["inplace", 4, 9]],
                    [["copy", 2], ["data_", 4, 9]], [["condcopy", 2, 4], ["condition_", 2, 6]],
                    [["gridcopy", 2, 1], ["clear", 3]]):
            for warm in ([], [["call", 2]]):
                tail = [["disp", 2], ["call", 2], ["call", 3], ["disp", 3], ["call", 0], ["call", 1], ["disp", 4],
                        ["call", 5]]
                yield {"hist": pre + warm + mid + tail}


# ----------------------------------------------------------------------------- random histories
def undersized(m: "Machine") -> bool:
    """a B-spline transform whose coefficient tensor is coarser than its own grid needs (possible only by re-gridding
    or replacing data through a linked / `_parameters`-sharing sibling with a different grid): excluded, ASSUMPTIONS"""
    for t, cls in zip(m.objs, m.cls):
        if cls in COMP:
            continue
        pb = t._buffers.get("p")
        if pb is not None and pb.ndim != 4:
            # link_ to a transform whose params are None registers `p = torch.empty(self.data_shape)` WITHOUT the leading
            # groups dimension (parametric.py @268); evaluating it through a second link raises ValueError. Excluded:
            # "a transform is not linked to a transform without parameters" (ASSUMPTIONS; noted in FINDINGS).
            return True
        if cls not in ("ffd", "svffd"):
            continue
        p = getattr(t, "params", None)
        if isinstance(p, SpatialTransform):
            pp = getattr(p, "params", None)
            p = pp if isinstance(pp, torch.Tensor) else getattr(p, "p", None)
        elif not isinstance(p, torch.Tensor):
            p = None       # own callable: `p` is re-predicted for the current grid by the next update()
        if isinstance(p, torch.Tensor) and tuple(p.shape[2:]) < tuple(t.data_shape[1:]):
            return True
    return False


def random_history(rng: random.Random, nops: int, composites: bool) -> List[list]:
    for _ in range(50):
        h = _random_history(rng, nops, composites)
        if h is not None:
            return h
    raise RuntimeError("no admissible history generated")


def _random_history(rng: random.Random, nops: int, composites: bool) -> Optional[List[list]]:
    """generated by executing the implementation alongside (object ids depend on which creating ops succeed);
    the resulting case is an explicit op list and replays without the generator"""
    m = Machine()
    hist: List[list] = []

    def emit(op):
        hist.append(op)
        return m.step(op)

    nleaf = rng.choice([1, 2, 2, 3])
    cls0 = rng.choice(LEAF)
    for i in range(nleaf):
        cls = cls0 if rng.random() < 0.7 else rng.choice(LEAF)
        kind = rng.choice(KINDS + ["param", "buffer", "fn:1", "fn:3"])
        emit(["mk", cls, kind, rng.randint(0, 6), rng.choice([0, 0, 1]), int(rng.random() < 0.3)])
    if composites and rng.random() < 0.5:
        ms = [rng.randrange(nleaf) for _ in range(rng.choice([1, 2, 2, 3]))]
        emit(["mkcomp", rng.choice(["seq", "multi"]), 0, ms])
    ver = 10
    for _ in range(nops):
        n = len(m.objs)
        o = rng.randrange(n)
        r = rng.random()
        ver += 1
        if r < 0.16:
            op = ["call", o]
        elif r < 0.30:
            op = ["disp", o]
        elif r < 0.38:
            op = ["inplace", o, ver]
        elif r < 0.46:
            op = ["data_", o, ver]
        elif r < 0.54:
            g = G_of(m.objs[o])
            op = ["grid_", o, min(MAXG, max(0, g + rng.choice([1, 1, 0, -1, 2])))]
        elif r < 0.60:
            op = ["condition_", o, rng.randint(1, 9)]
        elif r < 0.64:
            op = ["reset", o]
        elif r < 0.68:
            op = ["update", o]
        elif r < 0.71:
            op = ["clear", o]
        elif r < 0.76:
            op = ["inverse", o, rng.randint(0, 1), rng.randint(0, 1)]
        elif r < 0.80:
            op = ["copy", o]
        elif r < 0.84:
            op = [rng.choice(["link_", "link"]), o, rng.randrange(n)]
        elif r < 0.87:
            op = [rng.choice(["unlink_", "unlink"]), o]
        elif r < 0.91:
            op = ["datacopy", o, ver]
        elif r < 0.94:
            op = ["gridcopy", o, min(MAXG, G_of(m.objs[o]) + 1)]
        elif r < 0.97:
            op = ["condcopy", o, rng.randint(1, 9)]
        else:
            op = ["dataget", o]
        emit(op)
        if undersized(m):
            return None
    # close every history with evaluations of (up to four of) the objects
    ids = list(range(len(m.objs)))
    rng.shuffle(ids)
    for o in ids[:4]:
        emit([rng.choice(["call", "call", "disp"]), o])
        if undersized(m):
            return None
    return hist


def G_of(t) -> int:
    n = t.grid().shape[-1]
    return int(round(math.log2((n - 1) / 4)))


def gen_random(rng, tier):
    for i in range(_n(tier, 250, 6000, 800)):
        nops = rng.randint(2, 6) if tier == "quick" else rng.randint(3, 12)
        yield {"hist": random_history(rng, nops, composites=(i % 3 == 0))}


STREAMS = [
    Stream("replace_disp", gen_replace_disp, impl_hist, line_hist, cmp_hist, nontrivial, exhaustive=True,
           doc="class × params kind × {data_, grid_, condition_, reset} then disp()/call/data(): exact versions + errors"),
    Stream("hook", gen_hook, impl_hist, line_hist, cmp_hist, nontrivial, exhaustive=True,
           doc="in-place edits and source changes between evaluations: call (pre-hook) vs disp (buffered), I-7 / I-10"),
    Stream("sharing", gen_sharing, impl_hist, line_hist, cmp_hist, nontrivial, exhaustive=True,
           doc="C07_shared_params: kind × link × update_buffers × edit pattern; forward and inverse called"),
    Stream("accessors", gen_accessors, impl_hist, line_hist, cmp_hist, nontrivial, exhaustive=True,
           doc="copy / data(arg) / grid(g) / condition(c) / link / unlink / inverse: shared _parameters vs copied buffers"),
    Stream("composite", gen_composite, impl_hist, line_hist, cmp_hist, nontrivial, exhaustive=True,
           doc="Sequential / MultiLevel composites of two leaves: update/clear/condition propagate, inverse reverses"),
    Stream("random", gen_random, impl_hist, line_hist, cmp_hist, nontrivial,
           doc="random histories over all operations (quick ≤ 6, thorough ≤ 12 operations after set-up)"),
]


# ----------------------------------------------------------------------------- oracles (implementation only)
ORACLE_MODE_AMP = 0.01


def kind_name(t) -> str:
    try:
        p = t.params
    except AttributeError:
        return "composite"
    if p is None:
        return "none"
    if isinstance(p, Parameter):
        return "Parameter"
    if isinstance(p, torch.Tensor):
        return "buffer"
    if isinstance(p, SpatialTransform):
        return "linked"
    if isinstance(p, Module):
        return "Module"
    return "callable"


def fresh_like(t, cls: str):
    """a newly constructed transform holding what `t` holds now (params / grid / condition / inversion);
    None when no comparable fresh transform exists (no params; parameter shape not of t's own grid)"""
    ctor, kw = CTOR[cls]
    p = getattr(t, "params", None)
    if p is None:
        return None
    if isinstance(p, SpatialTransform):     # I-10: what the linked-to transform's data() returns now
        if getattr(p, "params", None) is None:
            return None
        p = p.data()
    if isinstance(p, torch.Tensor):
        if tuple(p.shape[1:]) != tuple(ctor(t.grid(), params=None, **kw).data_shape):
            return None
        f = ctor(t.grid(), params=p.detach().clone(), **kw)
    else:
        f = ctor(t.grid(), params=p, **kw)
    args, _ = t.condition()
    if args:
        f.condition_(*args)
    if hasattr(t, "exp") and t.exp.scale < 0:
        f.exp = f.exp.inverse()
    return f


def check_fresh(c):
    """freshness stated directly: every `call` equals a freshly constructed transform with the same current
    params/grid/condition; `disp()` right after a successful data_/grid_/condition_/reset equals the fresh one"""
    m = Machine(Mode(ORACLE_MODE_AMP))
    prev = None
    for i, op in enumerate(c["hist"]):
        name = op[0]
        if name in ("call", "disp") and op[1] < len(m.objs) and m.cls[op[1]] not in COMP:
            t, cls = m.objs[op[1]], m.cls[op[1]]
            after = prev if (name == "disp" and prev and prev[1] == op[1]) else None
            if name == "call" or after:
                try:
                    f = fresh_like(t, cls)
                    got = t(PROBE) if name == "call" else t.disp()
                    shape = tuple(t.tensor().shape)
                except Exception as e:
                    err_token(e)
                    f = None
                if f is not None:
                    want = f(PROBE) if name == "call" else f.disp()
                    wshape = tuple(f.tensor().shape)
                    k = kind_name(t)
                    kk = "callable" if k in ("callable", "Module") else k
                    bs = "BSpline" if cls in ("ffd", "svffd") else "Dense"
                    if shape != wshape:
                        return (f"C09:{name}{'-after-' + after[0] if after else ''}:{bs}:params={kk}:stale-buffer",
                                f"op {i} {op}: buffer `u` has shape {shape[2:]}, a fresh {type(t).__name__} on the current grid "
                                f"{wshape[2:]} (history {c['hist'][:i + 1]})")
                    err = (got - want).abs().max().item() / D
                    if err > 0.05:
                        return (f"C09:{name}{'-after-' + after[0] if after else ''}:{bs}:params={kk}:stale-values",
                                f"op {i} {op}: result differs from a freshly constructed transform with the same current "
                                f"params/grid/condition by {err:.3f}·D (history {c['hist'][:i + 1]})")
                prev = None
                continue
        # a `grid_` with the grid the transform already has replaces nothing (base.py @133: returns early)
        replaces = name in ("data_", "condition_", "reset") or (
            name == "grid_" and op[1] < len(m.objs) and G_of(m.objs[op[1]]) != op[2])
        tok = m.step(op)
        prev = (name, op[1]) if (replaces and tok == "ok") else None
    return None


def gen_fresh(rng, tier):
    for g in (gen_replace_disp, gen_hook):
        for c in g(rng, tier):
            yield c
    for i in range(_n(tier, 120, 3000, 500)):
        yield {"hist": random_history(rng, rng.randint(3, 8 if tier == "quick" else 12), composites=False)}


def gen_shared(rng, tier):
    for cls, kind in itertools.product(["svf1", "svf0", "svffd"], ["param", "buffer", "fn:1", "mod:2"]):
        for link, ub, inv_prop in [(0, 0, 0), (0, 1, 0), (1, 0, 0), (1, 1, 0), (1, 1, 1)]:
            for k in range(_n(tier, 2, 12, 4)):
                edits = []
                for _ in range(rng.randint(0, 4)):
                    r = rng.random()
                    if r < 0.45:
                        edits.append(["inplace", rng.randint(0, 1), rng.randint(10, 60)])
                    elif r < 0.7 and link:
                        edits.append(["data_", 0, rng.randint(10, 60)])
                    elif r < 0.85:
                        edits.append(["call", rng.randint(0, 1)])
                    else:
                        edits.append(["disp", rng.randint(0, 1)])
                yield {"cls": cls, "kind": kind, "link": link, "ub": ub, "inv_property": inv_prop, "edits": edits}


def check_shared(c):
    """C07_shared_params on the implementation: after in-place edits (either side) and data_ on the forward
    when linked, forward and inverse evaluate the same parameter tensor (inverse = negated field for the
    version-coded constants) — for every kind × link × update_buffers, incl. the `.inv` shortcut"""
    m = Machine(Mode(0.0))
    m.step(["mk", c["cls"], c["kind"], 5, 0])
    fwd = m.objs[0]
    kn = kind_name(fwd)
    try:
        inv = fwd.inv if c["inv_property"] else fwd.inverse(link=bool(c["link"]), update_buffers=bool(c["ub"]))
    except TypeError as e:
        return (f"C09:inverse:link={bool(c['link'])}:params={kn}:TypeError",
                f"{type(fwd).__name__}(params={kn}).{'inv' if c['inv_property'] else 'inverse(link=True)'} raises TypeError: {str(e)[:120]}")
    m.add(inv, c["cls"])
    for op in c["edits"]:
        m.step(op)
    a = m.step(["call", 0])
    b = m.step(["call", 1])
    if a.startswith("err") or b.startswith("err") or "undecodable" in a + b:
        return (f"C09:shared_params:{c['cls']}:params={kn}:link={bool(c['link'])}:eval", f"forward {a}, inverse {b}")
    fa, fb = a[4:].split(","), b[4:].split(",")
    if fa[0] != fb[0] or (fa[0] != "L0" and {fa[2], fb[2]} != {"i0", "i1"}):
        return (f"C09:shared_params:{c['cls']}:params={kn}:link={bool(c['link'])}:differ",
                f"after {c['edits']}: forward used {a}, inverse used {b}")
    return None


def gen_accessor_oracle(rng, tier):
    for cls, kind in itertools.product(LEAF, ["param", "buffer", "fn:1", "mod:2"]):
        for acc in ("data(arg)", "unlink()", "grid(g)", "condition(c)", "copy"):
            for warm in (0, 1):
                yield {"cls": cls, "kind": kind, "acc": acc, "warm": warm}


def check_accessor(c):
    """a non-in-place accessor returns a shallow copy; the ORIGINAL must keep evaluating what it held
    (former F-15a, repaired by 3110eb9: `data(arg)` / `unlink()` / `grid(g)` wrote through the shared `_parameters` container)"""
    m = Machine(Mode(ORACLE_MODE_AMP))
    m.step(["mk", c["cls"], c["kind"], 5, 0])
    t = m.objs[0]
    kn = kind_name(t)
    if c["warm"]:
        t(PROBE)
    before = t(PROBE).clone()
    try:
        if c["acc"] == "data(arg)":
            t.data(m.mode.field(t.data_shape, 9))
        elif c["acc"] == "unlink()":
            t.unlink()
        elif c["acc"] == "grid(g)":
            t.grid(G(1))
        elif c["acc"] == "condition(c)":
            t.condition(torch.tensor([3.0]))
        else:
            pycopy.copy(t)
    except Exception as e:
        err_token(e)
        return None          # I-1: an exception of the accessor is not a C09 violation (listed in FINDINGS)
    try:
        after = t(PROBE)
    except AssertionError as e:
        return (f"C09:{c['acc']}:params={kn}:original-cleared",
                f"after `t.{c['acc']}` the ORIGINAL {type(t).__name__} raises: {str(e)[:100]}")
    err = (after - before).abs().max().item() / D
    if err > 0.05:
        return (f"C09:{c['acc']}:params={kn}:original-replaced",
                f"after `t.{c['acc']}` the ORIGINAL {type(t).__name__} evaluates different parameters (Δ = {err:.2f}·D)")
    return None


def gen_regrid(rng, tier):
    for i in range(_n(tier, 40, 400, 80)):
        cls = rng.choice(["dvf1", "dvf0", "svf1", "svf0", "ffd", "svffd"])
        n0 = rng.choice([9, 13, 17, 21])
        if cls in ("ffd", "svffd"):
            n1 = [2 * n0 - 1, 2 * n0 - 1]
            same_domain = True
        else:
            n1 = [rng.choice([9, 12, 17, 25, 33]), rng.choice([9, 12, 17, 25, 33])]
            same_domain = rng.random() < 0.5
        dense = cls not in ("ffd", "svffd")
        flag_only = dense and rng.random() < 0.25
        if flag_only:
            # the new grid is the old one with the OTHER align_corners flag only (Grid.__eq__ calls them equal): the vectors
            # still have to be re-expressed in the other cube convention
            n1, same_domain = None, True
        yield {"cls": cls, "kind": rng.choice(["param", "buffer"]), "n0": [n0, rng.choice([n0, n0 + 4])], "n1": n1,
               "same_domain": same_domain, "seed": rng.randrange(1 << 30), "shrink": round(rng.uniform(0.6, 0.95), 2),
               # sampling convention of the old / new grid (dense models; B-spline control grids keep corners aligned)
               "ac0": (rng.random() < 0.6) if dense else True, "ac1": (rng.random() < 0.6) if dense else True,
               # a field that is linear in the coordinates is reproduced exactly by linear resampling
               "linear": dense and rng.random() < 0.5, "flag_only": flag_only}


def regrid_tol(fam: str, nmin: int) -> float:
    """tolerances relative to the field amplitude. B-spline subdivision is exact: 2e-4 (float32) on the coarse
    lattice. Dense fields are re-sampled by linear interpolation: per interpolation the error of the smooth test field
    (|f''| ≤ 2.5 in cube units) is ≤ h²/8·2.5 with h = 2/(nmin−1); up to four interpolations are involved (resample,
    evaluate before/after, resize) → 4·h²/8·2.5 (+ 1 % for the SVF exponential recomputed on the new grid)."""
    if fam == "bspline":
        return 2e-4
    h = 2.0 / (nmin - 1)
    return 4 * h * h / 8 * 2.5 + (0.01 if fam == "svf" else 0.0)


def check_regrid(c):
    """exploration: `grid_` re-expresses dense-field / B-spline parameters so that the WORLD deformation is preserved.
    Smooth fields of amplitude A = 0.05 (cube units). Dense: world displacement at interior world points before vs
    after. B-spline: the displacement (FFD) resp. velocity (SVFFD) on the coarse lattice before vs the same lattice
    points (every second sample) after subdivision, same domain. Tolerances: `regrid_tol`."""
    ctor, kw = CTOR[c["cls"]]
    n0 = c["n0"] if c["cls"] not in ("ffd", "svffd") else [c["n0"][0], c["n0"][0]]
    ac0, ac1 = bool(c.get("ac0", True)), bool(c.get("ac1", True))
    if c.get("flag_only"):
        c = dict(c, n1=list(n0))
        ac1 = not ac0
    g0 = Grid(size=tuple(n0), spacing=tuple(8.0 / (n - 1) for n in n0), align_corners=ac0)
    if c["same_domain"]:
        g1 = Grid(size=tuple(c["n1"]), spacing=tuple(8.0 / (n - 1) for n in c["n1"]), align_corners=ac1)
    else:  # a smaller, shifted domain inside the old one
        s = c["shrink"]
        g1 = Grid(size=tuple(c["n1"]), spacing=tuple(8.0 * s / (n - 1) for n in c["n1"]), center=(0.2, -0.1), align_corners=ac1)
    A = 0.05
    shape = ctor(g0, params=None, **kw).data_shape
    field = A * smooth(shape, c["seed"])
    if c.get("linear"):
        gen = torch.Generator().manual_seed(c["seed"])
        co = torch.rand(2, 3, generator=gen) * 2 - 1
        ys = torch.linspace(-1, 1, shape[-2]).reshape(-1, 1)
        xs = torch.linspace(-1, 1, shape[-1]).reshape(1, -1)
        field = A * torch.stack([co[k, 0] + co[k, 1] * xs + co[k, 2] * ys for k in range(2)]).unsqueeze(0) / 2
    t = ctor(g0, params=Parameter(field) if c["kind"] == "param" else field, **kw)
    X = torch.tensor([[[-1.1, 0.7], [0.4, 0.3], [1.3, -1.2], [0.0, 0.0], [-0.6, -0.9]]])    # world points inside both

    def world_disp(tr):
        g = tr.grid()
        x = g.transform_points(X, axes=Axes.WORLD, to_axes=tr.axes(), decimals=None)
        y = tr(x)
        return g.transform_points(y, axes=tr.axes(), to_axes=Axes.WORLD, decimals=None) - X

    fam = "bspline" if c["cls"] in ("ffd", "svffd") else ("svf" if c["cls"].startswith("svf") else "dense")
    if fam == "bspline":
        lattice = (lambda tr: tr.update().v) if c["cls"] == "svffd" else (lambda tr: tr.update().u)
        before = lattice(t).clone()
        t.grid_(g1)
        after = lattice(t)[..., ::2, ::2]
        err = (after - before).abs().max().item() / A
    else:
        before = world_disp(t)
        # out-of-place twin first: `t.grid(g1)` re-grids a shallow COPY; the original keeps evaluating its own (unchanged)
        # parameters on its own grid with its own convention — nothing the copy does may reach it (seeded change C09-10: the
        # exponential module shared between original and copy got the copy's align_corners)
        t2 = t.grid(g1)
        again = world_disp(t)
        if t.grid() is not g0 and t.grid() != g0:
            return (f"C09:regrid:{fam}:out-of-place-grid-rebinds-original", f"{type(t).__name__}.grid(g): the original's grid changed")
        drift = (again - before).abs().max().item() / (4.0 * A)
        if drift > 1e-5:
            return (f"C09:regrid:{fam}:out-of-place-grid-changes-original",
                    f"{type(t).__name__}.grid(g) (out of place): the ORIGINAL's world deformation changed by {drift:.3e} of the amplitude")
        copy_err = (world_disp(t2) - before).abs().max().item() / (4.0 * A)
        t.grid_(g1)
        after = world_disp(t)
        if abs(copy_err - (after - before).abs().max().item() / (4.0 * A)) > 1e-5:
            return (f"C09:regrid:{fam}:out-of-place-differs-from-in-place",
                    f"{type(t).__name__}: grid(g) and grid_(g) give different deformations ({copy_err:.3e} vs in-place)")
        err = (after - before).abs().max().item() / (4.0 * A)     # world amplitude: half extent 4 × A
    tol = regrid_tol(fam, min(list(n0) + list(c["n1"])))
    if c.get("linear"):
        # linear interpolation reproduces a linear field (and the affine flow of a linear velocity field, theorem
        # C10_exp_affine_invariant) at interior points: only float32 rounding remains for dense fields (measured
        # ≤ 3e-6 over 3 seeds). For SVF the scaling-and-squaring composes with border clamping, which on the coarsest
        # velocity grids (stride 2 of 9 samples, align_corners False → True) leaks up to 1.1e-3 of the amplitude into
        # the probe points (measured maximum over 3 thorough seeds); exploration tolerance 5e-3 there.
        tol = 5e-3 if fam == "svf" else 1e-3
    if os.environ.get("VERIF_DEBUG_REGRID"):
        print("regrid", c["cls"], c.get("linear"), c.get("ac0"), c.get("ac1"), c["same_domain"], f"{err:.2e} tol {tol:.2e}")
    if err > tol:
        return (f"C09:regrid:{fam}:world-deformation-changed",
                f"{type(t).__name__}.grid_: world deformation changed by {err:.3e} of the amplitude (tolerance {tol:.2e})")
    return None


# ----------------------------------------------------------------------------- keyword conditioning
class _Recorder:
    """callable parameters that record the (args, kwargs) they are invoked with"""

    def __init__(self):
        self.last = None

    def __call__(self, *args, **kwargs):
        t = _calling_transform()
        self.last = (tuple(_cond_version((a,)) for a in args), tuple(sorted((k, _cond_version((v,))) for k, v in kwargs.items())))
        code = sum(self.last[0]) + sum(3 * v for _, v in self.last[1])
        return Mode().field(t.data_shape, code)


KWNAMES = ["a", "b"]


def gen_condkw(rng, tier):
    for i in range(_n(tier, 60, 1500, 150)):
        ops = []
        nobj = 1
        for _ in range(rng.randint(2, 6)):
            r = rng.random()
            o = rng.randrange(nobj)
            if r < 0.6:
                pos = [rng.randint(1, 9) for _ in range(rng.choice([0, 1, 1, 2]))]
                kw = {k: rng.randint(1, 9) for k in KWNAMES if rng.random() < 0.5}
                if not pos and not kw:
                    pos = [rng.randint(1, 9)]
                ops.append(["cond_", o, pos, kw])
            elif r < 0.8:
                ops.append(["copy", o]); nobj += 1
            else:
                ops.append(["condcopy", o, [rng.randint(1, 9)]]); nobj += 1
        yield {"cls": rng.choice(["dvf1", "svf0", "ffd", "seq"]), "ops": ops}


def check_condkw(c):
    """after any sequence of condition_(*args, **kwargs) calls and shallow copies, every object invokes its callable
    parameters with exactly the positional and keyword arguments of its own last conditioning (a copy starts with the
    conditioning of its source at the time of copying), and `condition()` reports them."""
    rec = _Recorder()

    def leaf(cls):
        ctor, kw = CTOR[cls]
        return ctor(G(1), params=rec, **kw)

    comp = c["cls"] == "seq"
    t0 = S.SequentialTransform(G(1), leaf("dvf1")) if comp else leaf(c["cls"])
    objs, want = [t0], [((), ())]
    tens = lambda v: torch.tensor([float(v)])
    for k, op in enumerate(c["ops"]):
        if op[0] == "cond_":
            objs[op[1]].condition_(*[tens(v) for v in op[2]], **{n: tens(v) for n, v in op[3].items()})
            new = (tuple(op[2]), tuple(sorted(op[3].items())))
            # a composite conditions its OWN children; a shallow copy of a composite owns copies of the children
            # (CompositeTransform.__copy__, repair of F-15f/g), so — like a leaf — only the conditioned object follows
            want[op[1]] = new
        elif op[0] == "copy":
            objs.append(pycopy.copy(objs[op[1]])); want.append(want[op[1]])
        elif op[0] == "condcopy":
            objs.append(objs[op[1]].condition(*[tens(v) for v in op[2]]))
            new = (tuple(op[2]), ())
            want.append(new)
        for j, t in enumerate(objs):
            if comp and want[j] == ((), ()):
                continue
            rec.last = None
            t(PROBE)
            if rec.last != want[j]:
                return ("C09:condition:kwargs:stale-or-shared",
                        f"after op {k} {op}: object {j} invoked its callable with {rec.last}, conditioned on {want[j]}")
            if not comp:
                a, kw = t.condition()
                got = (tuple(_cond_version((x,)) for x in a), tuple(sorted((n, _cond_version((v,))) for n, v in kw.items())))
                if got != want[j]:
                    return ("C09:condition:getter", f"after op {k} {op}: object {j}.condition() = {got}, want {want[j]}")
    return None


ORACLES = [
    Oracle("cond_kwargs", gen_condkw, check_condkw,
           doc="keyword and positional conditioning: the callable is invoked with exactly the last condition_ of that "
               "object; copies do not share conditioning"),
    Oracle("fresh", gen_fresh, check_fresh, nontrivial,
           doc="call == freshly constructed transform with the same current params/grid/condition; disp() right after "
               "data_/grid_/condition_/reset == fresh (smooth non-constant fields)"),
    Oracle("shared_params", gen_shared, check_shared,
           doc="C07_shared_params on the implementation incl. `.inv`: forward and inverse evaluate the same parameters"),
    Oracle("accessors", gen_accessor_oracle, check_accessor,
           doc="non-in-place accessors leave the original's evaluation unchanged (former F-15a)"),
    Oracle("regrid_world", gen_regrid, check_regrid,
           doc="exploration: grid_ preserves the world deformation of smooth fields within the stated tolerance"),
]


def search_cases(disagreements: List[dict]):
    extra = {"fresh": []}
    for dsg in disagreements[:40]:
        c = dsg["case"]
        if "hist" in c:
            extra["fresh"].append({"hist": c["hist"]})
    return extra
