"""C10 — flow fields mean the same displacement in every vector representation."""
from __future__ import annotations

import itertools
import random
from typing import List

import torch

from deepali.core import functional as U
from deepali.core.grid import Axes, Grid
from deepali.data.flow import FlowField, FlowFields
from deepali.data.image import Image, ImageBatch

from lib import gen, proto
from lib.core import Oracle, Stream, close
from props.prim import PRIM_STREAMS
from props.c11 import random_field

PROP = "C10"
AX = list(proto.AXES)
ASSUMPTIONS = [
    "F.grid_sample semantics are modelled (Model/TorchPrim.lean) and validated against torch by the prim.* streams",
    "theorems need grids with >= 2 samples per axis and orthonormal directions; floats are exact rationals, float32 grid "
    "attributes limit accuracy (rtol 5e-4)",
    "FlowFields.exp is modelled as repaired by the fix: commit in /repo (known_findings.json, fixed entry)",
]
TRUSTED = ["Model/FlowOps.lean hand transcription of data/flow.py FlowFields.axes/exp/warp_image and core/flow.py",
           "Model/Regularizers.lean normalizeFlow / denormalizeFlow: hand transcription of core/flow.py normalize_flow / "
           "denormalize_flow (also re-translated from the source on every run, harness/gen/C10.lean.in)"]
RTOL = 5e-4


def _n(tier, quick, thorough, search=None):
    return {"quick": quick, "thorough": thorough, "search": search or quick * 3}[tier]


def small_grid(rng, d, lo=2, hi=5):
    return gen.grid_spec(rng, d, min_size=lo, max_size=hi)


def field_for(g: Grid, seed: int, amp: float = 0.5):
    return random_field(seed, g.ndim, list(g.shape), amp)       # (D, …, X) float64


# ---------------------------------------------------------------- stream: FlowFields.axes, all 16 pairs
def gen_axes(rng: random.Random, tier: str):
    for _ in range(_n(tier, 5, 120)):
        d = rng.choice([2, 3])
        g = small_grid(rng, d, 2, 4)
        g2 = small_grid(rng, d, 2, 4)
        g2["size"] = g["size"]
        seed = rng.randrange(1 << 30)
        for a, b in itertools.product(AX, AX):
            yield {"grid": g, "grid2": g2, "a": a, "b": b, "seed": seed, "item": rng.choice([0, 1])}


def impl_axes(c):
    g, g2 = gen.make_grid(c["grid"]), gen.make_grid(c["grid2"])
    grids = [g2, g] if c["item"] == 1 else [g, g2]
    data = torch.stack([field_for(gr, c["seed"] + (0 if gr is g else 5)) for gr in grids]).float()
    ff = FlowFields(data, grids, Axes(c["a"]))
    out = ff.axes(Axes(c["b"]))
    if out.axes() is not Axes(c["b"]) or len(out.grids()) != 2:
        return "err:axes-label"
    return proto.flat(out.tensor()[c["item"]])


def line_axes(c):
    g = gen.make_grid(c["grid"])
    data = field_for(g, c["seed"]).float()
    return f"flow.axes {g.ndim} {proto.grid(g)} {c['a']} {c['b']} {proto.vec(proto.flat(data))}"


def cmp_values(tol):
    def cmp(c, r, out):
        if isinstance(r, str):
            return f"impl {r}; model {out[:60]}"
        if proto.is_error(out):
            return f"model error {out}"
        return close(r, proto.parse_vec(out), tol)
    return cmp


# ---------------------------------------------------------------- stream: FlowFields.exp in every representation
def gen_exp(rng: random.Random, tier: str):
    for _ in range(_n(tier, 16, 400)):
        d = rng.choice([2, 2, 3])
        g = small_grid(rng, d, 2, 4 if d == 3 else 5)
        yield {"grid": g, "a": rng.choice(AX), "steps": rng.choice([0, 1, 2, 3]), "scale": rng.choice([None, 0.5, -1.0]),
               "seed": rng.randrange(1 << 30), "api": rng.choice(["FlowFields", "FlowField"])}


def _exp_input(c):
    g = gen.make_grid(c["grid"])
    cube = field_for(g, c["seed"], 0.4).float().unsqueeze(0)
    ff = FlowFields(cube, g, Axes.CUBE).axes(Axes(c["a"]))       # a field of sensible size in representation a
    return g, ff


def impl_exp(c):
    g, ff = _exp_input(c)
    if c["api"] == "FlowField":
        out = ff[0].exp(scale=c["scale"], steps=c["steps"])
        if out.axes() is not Axes(c["a"]):
            return "err:axes-label"
        return proto.flat(out.tensor())
    out = ff.exp(scale=c["scale"], steps=c["steps"])
    if out.axes() is not Axes(c["a"]):
        return "err:axes-label"
    return proto.flat(out.tensor()[0])


def line_exp(c):
    g, ff = _exp_input(c)
    scale = 1.0 if c["scale"] is None else c["scale"]
    return (f"flow.exp {g.ndim} {proto.grid(g)} {c['a']} {proto.fr(scale)} {c['steps']} 1 "
            f"{proto.vec(proto.flat(ff.tensor()[0]))}")


# ---------------------------------------------------------------- stream: core warp_image on own lattice
def gen_warp(rng: random.Random, tier: str):
    for _ in range(_n(tier, 20, 500)):
        d = rng.choice([2, 3])
        shape = [rng.randint(2, 4 if d == 3 else 6) for _ in range(d)]
        yield {"d": d, "shape": shape, "ac": rng.random() < 0.5, "pad": rng.choice(["zeros", "border"]),
               "seed": rng.randrange(1 << 30)}


def impl_warp(c):
    g = torch.Generator().manual_seed(c["seed"])
    img = torch.randint(-9, 10, (1, 1) + tuple(c["shape"]), generator=g).double()
    flow = random_field(c["seed"] + 1, c["d"], c["shape"], 0.6).unsqueeze(0)
    grid = Grid(shape=c["shape"], align_corners=c["ac"]).coords(dtype=torch.float64)
    out = U.warp_image(img, grid, flow=flow.movedim(1, -1), padding=c["pad"], align_corners=c["ac"])
    return proto.flat(out)


def line_warp(c):
    g = torch.Generator().manual_seed(c["seed"])
    img = torch.randint(-9, 10, (1, 1) + tuple(c["shape"]), generator=g).double()
    flow = random_field(c["seed"] + 1, c["d"], c["shape"], 0.6)
    size = " ".join(str(n) for n in reversed(c["shape"]))
    return (f"flow.warp_image {c['d']} {1 if c['ac'] else 0} {c['pad']} {size} {proto.vec(proto.flat(img))} "
            f"{proto.vec(proto.flat(flow))}")


# ---------------------------------------------------------------- stream: core normalize_flow / denormalize_flow
def gen_normalize(rng: random.Random, tier: str):
    for _ in range(_n(tier, 40, 1000)):
        d = rng.choice([2, 3])
        shape = [rng.choice([1, 2, 2, 3, 4, 5]) if rng.random() < 0.25 else rng.randint(2, 5) for _ in range(d)]
        yield {"d": d, "shape": shape, "ac": rng.random() < 0.5, "denorm": rng.random() < 0.5,
               "side": rng.choice([None, 2, 1, 1, 0.5, 3]), "size_arg": rng.choice(["none", "tuple", "tensor", "grid"]),
               "channels_last": rng.random() < 0.4, "dtype": rng.choice(["float32", "float64", "float64"]),
               "seed": rng.randrange(1 << 30)}


def _normalize_data(c):
    return random_field(c["seed"], c["d"], c["shape"], 1.5).unsqueeze(0).to(getattr(torch, c["dtype"]))    # (1, D, …, X)


def impl_normalize(c):
    data = _normalize_data(c)
    kw = {"align_corners": c["ac"]}
    size = tuple(reversed(c["shape"]))
    if c["size_arg"] == "tuple":
        kw["size"] = torch.Size(size)
    elif c["size_arg"] == "tensor":
        kw["size"] = torch.tensor(size)
    elif c["size_arg"] == "grid":
        kw["size"] = Grid(shape=c["shape"]).size()
    if c["side"] is not None:
        kw["side_length"] = c["side"]
    fn = U.denormalize_flow if c["denorm"] else U.normalize_flow
    before = data.clone()
    if c["channels_last"]:
        if c["size_arg"] == "none":
            kw["size"] = torch.Size(size)      # the default size is only defined for channels-first data
        out = fn(data.movedim(1, -1), channels_last=True, **kw).movedim(-1, 1)
    else:
        out = fn(data, **kw)
    if not torch.equal(before, data):
        return "err:input-mutated"
    if out.shape != data.shape or out.dtype != data.dtype:
        return f"err:shape-or-dtype {tuple(out.shape)} {out.dtype}"
    return proto.flat(out[0].movedim(0, -1))        # channels last: one vector per lattice point


def line_normalize(c):
    data = _normalize_data(c)
    side = 2 if c["side"] is None else c["side"]
    size = " ".join(str(n) for n in reversed(c["shape"]))
    vals = proto.flat(data[0].movedim(0, -1))
    return (f"flow.normalize {c['d']} {1 if c['ac'] else 0} {1 if c['denorm'] else 0} {proto.fr(side)} {size} "
            f"{len(vals) // c['d']} {proto.vec(vals)}")


STREAMS = PRIM_STREAMS + [
    Stream("flow.axes", gen_axes, impl_axes, line_axes, cmp_values(RTOL),
           nontrivial=lambda c: gen.grid_nontrivial(c["grid"]) and c["a"] != c["b"],
           doc="FlowFields.axes for all 16 ordered representation pairs on batches with per-field grids"),
    Stream("flow.exp", gen_exp, impl_exp, line_exp, cmp_values(RTOL),
           nontrivial=lambda c: c["steps"] > 0,
           doc="FlowFields/FlowField.exp (steps 0..3, scales) for inputs in each of the 4 representations vs the model"),
    Stream("flow.warp_image", gen_warp, impl_warp, line_warp, cmp_values(1e-9),
           doc="core.flow.warp_image(data, grid, flow) on the own lattice, both conventions and paddings"),
    Stream("flow.normalize", gen_normalize, impl_normalize, line_normalize, cmp_values(1e-5),
           nontrivial=lambda c: min(c["shape"]) >= 2,
           doc="core.flow.normalize_flow / denormalize_flow: both conventions, side lengths, size given as Size / tensor / "
               "grid.size() / derived from the data, channels first or last, axes with a single sample"),
]


# ---------------------------------------------------------------- oracles
def _tol(*ts):
    return RTOL * max([1.0] + [float(t.abs().max()) for t in ts])


def gen_repr(rng: random.Random, tier: str):
    for _ in range(_n(tier, 25, 600, 100)):
        d = rng.choice([2, 3])
        n = rng.choice([1, 2])
        grids = [small_grid(rng, d, 3, 7) for _ in range(n)]
        pos = grids[0].pop("origin", None) or grids[0].pop("center")
        grids[0]["center"] = pos
        for gs in grids[1:]:
            gs["size"] = grids[0]["size"]
            # the fields of one batch cover a common region (same centre, own spacing / orientation / convention), so that a
            # target grid placed there samples VALUES of every field, not padding
            gs.pop("origin", None)
            gs["center"] = pos
        if n == 1 and rng.random() < 0.35:
            # a pyramid level of an odd-sized grid: the stored size is fractional (9 -> 4.5, five samples)
            grids = [dict(small_grid(rng, d, 7, 11), derive="downsample", derive_factor=1.0)]
        tgt = small_grid(rng, d, 3, 7)
        yield {"grids": grids, "tgt": tgt, "seed": rng.randrange(1 << 30), "steps": rng.choice([0, 2, 4]),
               "pair": [rng.choice(AX), rng.choice(AX)]}


def _target_inside(spec, grids):
    """the target grid of the case (its size, orientation, anisotropy, convention) scaled and moved into the region every
    source grid of the batch covers: centred near the first grid's centre, circumscribed radius 0.4 x the smallest source
    extent. (A target at its own random position almost never overlaps the sources, and resampled padding is all zero.)"""
    d = grids[0].ndim
    rmin = min(float(g.extent().min()) for g in grids)
    t0 = gen.make_grid(spec)
    ext = t0.extent().double()
    scale = 0.8 * rmin / float(ext.norm()) if float(ext.norm()) > 0 else 1.0
    centers = torch.stack([g.center().double() for g in grids])
    if float((centers - centers[0]).abs().max()) > 1e-3 * rmin:
        return t0            # sources at different places (cases built by search_cases): keep the target as given
    return Grid(size=t0.size(), spacing=(t0.spacing().double() * scale).tolist(), direction=t0.direction(),
                center=(grids[0].center().double() + 0.05 * rmin).tolist(), align_corners=t0.align_corners())


def check_repr(c):
    grids = [gen.make_grid(s) for s in c["grids"]]
    n = len(grids)
    cube = torch.stack([field_for(g, c["seed"] + i, 0.3).float() for i, g in enumerate(grids)])
    base = FlowFields(cube, grids, Axes.CUBE)
    a, b = Axes(c["pair"][0]), Axes(c["pair"][1])
    fa = base.axes(a)
    # invertible, path independent, equals the grid's vector map
    back = fa.axes(b).axes(a)
    if (back.tensor() - fa.tensor()).abs().max() > _tol(fa.tensor()):
        return (f"C10:axes:invertible:{a.value}->{b.value}", "a->b->a changes the vectors")
    via = fa.axes(b).axes(Axes.WORLD).tensor()
    direct = fa.axes(Axes.WORLD).tensor()
    if (via - direct).abs().max() > _tol(direct):
        return (f"C10:axes:path:{a.value}->{b.value}->world", "a->b->world differs from a->world")
    for i, g in enumerate(grids):
        want = g.transform_vectors(fa.tensor()[i].movedim(0, -1), a, b).movedim(-1, 0)
        if (fa.axes(b).tensor()[i] - want).abs().max() > _tol(want):
            return (f"C10:axes:grid-vector-map:{a.value}->{b.value}", f"item {i} is not converted with its own grid")
    # exp: same world-space result from both representations
    ea = fa.exp(steps=c["steps"]).axes(Axes.WORLD).tensor()
    eb = fa.axes(b).exp(steps=c["steps"]).axes(Axes.WORLD).tensor()
    if (ea - eb).abs().max() > _tol(ea):
        return (f"C10:exp:repr:{a.value}-vs-{b.value}", f"exp differs by {(ea - eb).abs().max():.3e} (max |exp| {ea.abs().max():.3e})")
    # warp_image: same image from both representations
    img = ImageBatch(torch.stack([torch.arange(g.numel(), dtype=torch.float32).reshape((1,) + tuple(g.shape)) for g in grids]), grids)
    wa = fa.warp_image(img).tensor()
    wb = fa.axes(b).warp_image(img).tensor()
    if (wa - wb).abs().max() > 2e-3 * float(img.tensor().abs().max()):
        return (f"C10:warp_image:repr:{a.value}-vs-{b.value}", f"warped images differ by {(wa - wb).abs().max():.3e}")
    # sample on another grid: world-space vectors agree between representations
    tgt = _target_inside(c["tgt"], grids)
    tgts = [tgt] * n
    sa = fa.sample(tgts)
    sb = fa.axes(b).sample(tgts)
    if len(sa.grids()) != n or len(sb.grids()) != n:
        return ("C10:sample:grids", "resampled batch does not carry one grid per field")
    wa, wb = sa.axes(Axes.WORLD).tensor(), sb.axes(Axes.WORLD).tensor()
    if (wa - wb).abs().max() > _tol(wa):
        return (f"C10:sample:repr:{a.value}-vs-{b.value}", f"resampled world vectors differ by {(wa - wb).abs().max():.3e}")
    # one shared target `Grid` for the whole batch is the same as that grid listed once per field (every field is
    # re-expressed from ITS OWN source grid; seeded change C10-10)
    for nm, f_, s_ in ((a.value, fa, sa), (b.value, fa.axes(b), sb)):
        one = f_.sample(tgt)
        if not isinstance(one, FlowFields) or len(one.grids()) != n or one.axes() is not s_.axes():
            return ("C10:sample:single-grid:batch", "sample(Grid) does not return one field per input field in the same axes")
        if (one.tensor() - s_.tensor()).abs().max() > _tol(s_.tensor()):
            return (f"C10:sample:single-grid:{nm}",
                    f"sample(Grid) differs from sample([Grid] * N) by {(one.tensor() - s_.tensor()).abs().max():.3e}")
    # and resampling a world-affine field returns the same world-affine field inside the source domain (values kept)
    return None


def gen_world_affine(rng: random.Random, tier: str):
    # same-domain targets (grid.resize) for every representation x both conventions of the source grid, on every run
    for a in AX:
        for ac in (True, False):
            d = rng.choice([2, 3])
            src = small_grid(rng, d, 5, 9)
            src["align_corners"] = ac
            yield {"src": src, "tgt": small_grid(rng, d, 3, 6), "a": a, "seed": rng.randrange(1 << 30),
                   "A": [[round(rng.uniform(-0.05, 0.05), 4) for _ in range(d)] for _ in range(d)],
                   "t": [round(rng.uniform(-0.3, 0.3), 3) for _ in range(d)], "shrink": 0.5, "same_frame": False,
                   "same_domain": [rng.choice([-2, -1, 1, 2, 3]) for _ in range(d)]}
    for _ in range(_n(tier, 30, 600, 90)):
        d = rng.choice([2, 3])
        src = small_grid(rng, d, 5, 9)
        if rng.random() < 0.3:
            src = dict(small_grid(rng, d, 9, 13), derive="downsample", derive_factor=1.0)   # fractional stored size
        tgt = small_grid(rng, d, 3, 6)          # independent rotation and anisotropy
        yield {"src": src, "tgt": tgt, "a": rng.choice(AX), "seed": rng.randrange(1 << 30),
               "A": [[round(rng.uniform(-0.05, 0.05), 4) for _ in range(d)] for _ in range(d)],
               "t": [round(rng.uniform(-0.3, 0.3), 3) for _ in range(d)], "shrink": round(rng.uniform(0.3, 0.6), 2),
               "same_frame": rng.random() < 0.3,
               "same_domain": [rng.choice([-2, -1, 1, 2, 3]) for _ in range(d)] if rng.random() < 0.25 else None}


def check_world_affine(c):
    """a world-affine field resampled on ANY grid inside the source domain (other rotation, anisotropy, convention)
    is the same world-affine field, whatever representation it is stored in"""
    gs = gen.make_grid(c["src"])
    d = gs.ndim
    A = torch.tensor(c["A"], dtype=torch.float64)
    t = torch.tensor(c["t"], dtype=torch.float64)
    xw = gs.points(Axes.WORLD, dtype=torch.float64)
    u = (xw @ A.T + t).movedim(-1, 0).float().unsqueeze(0)
    f = FlowFields(u, gs, Axes.WORLD).axes(Axes(c["a"]))
    if c.get("same_domain"):
        # the target covers exactly the source's domain with another number of samples (grid.resize): a "nothing to do" shortcut
        # is only right for the cube convention that matches the grids' flag
        gt = gs.resize([max(2, int(n) + k) for n, k in zip(gs.size(), c["same_domain"])])
    elif c["same_frame"]:
        gt = Grid(size=gs.size(), center=gs.center(), spacing=gs.spacing() * c["shrink"], direction=gs.direction(),
                  align_corners=not gs.align_corners())
    else:
        g0 = gen.make_grid(c["tgt"])
        ext_src = float((gs.spacing() * torch.tensor([float(n) for n in gs.size()])).min())
        ext_tgt = float((g0.spacing() * torch.tensor([float(n) for n in g0.size()])).max())
        gt = Grid(size=g0.size(), center=gs.center(), spacing=g0.spacing() * (c["shrink"] * ext_src / ext_tgt / d ** 0.5),
                  direction=g0.direction(), align_corners=g0.align_corners())
    res = f.sample(gt)
    if res.axes() is not Axes(c["a"]):
        return ("C10:sample:axes-label", f"resampled field has axes {res.axes()}")
    out = res.axes(Axes.WORLD).tensor()[0]
    yw = gt.points(Axes.WORLD, dtype=torch.float64)
    want = (yw @ A.T + t).movedim(-1, 0)
    idx = gs.world_to_index(yw, decimals=None).double()
    n0 = torch.tensor([float(v) for v in gs.size()], dtype=torch.float64)
    inside = ((idx >= 0) & (idx <= n0 - 1)).all(-1)
    if inside.sum() == 0:
        return None
    scale = max(1.0, float(xw.abs().max()))
    err = (out.double() - want).abs()[:, inside].max().item()
    if err > 5e-4 * scale:
        return (f"C10:sample:world-affine:{c['a']}", f"resampled field off by {err:.3e} (max |u| {float(want.abs().max()):.3e})")
    return None


def gen_twins(rng: random.Random, tier: str):
    for _ in range(_n(tier, 30, 600, 100)):
        d = rng.choice([2, 3])
        yield {"grid": small_grid(rng, d, 2, 6), "seed": rng.randrange(1 << 30), "ac": rng.random() < 0.5,
               "side": rng.choice([2, 2, 1, 0.5, 4]), "dtype": rng.choice(["float32", "float64"])}


def check_twins(c):
    """core.flow.normalize_flow / denormalize_flow are the GRID <-> cube conversion of the property: invertible, equal to the
    grid's own vector map (Grid.transform_vectors) for the matching convention, and the same for every way of passing the
    size and the channel layout"""
    g = gen.make_grid(c["grid"])
    ac, side = c["ac"], c["side"]
    cube = Axes.CUBE_CORNERS if ac else Axes.CUBE
    v = field_for(g, c["seed"], 1.2).to(getattr(torch, c["dtype"])).unsqueeze(0)       # (1, D, …, X), GRID units
    tol = 1e-5 * max(1.0, float(v.abs().max())) * (1 if c["dtype"] == "float64" else 20)
    nv = U.normalize_flow(v, size=g.size(), side_length=side, align_corners=ac)
    back = U.denormalize_flow(nv, size=g.size(), side_length=side, align_corners=ac)
    if (back - v).abs().max() > tol:
        return (f"C10:normalize_flow:invertible:ac={ac}", f"denormalize(normalize(v)) differs by {(back - v).abs().max():.3e}")
    fwd = U.normalize_flow(U.denormalize_flow(v, size=g.size(), side_length=side, align_corners=ac), size=g.size(),
                           side_length=side, align_corners=ac)
    if (fwd - v).abs().max() > tol:
        return (f"C10:normalize_flow:invertible-rev:ac={ac}", f"normalize(denormalize(v)) differs by {(fwd - v).abs().max():.3e}")
    want = g.transform_vectors(v[0].movedim(0, -1).double(), Axes.GRID, cube).movedim(-1, 0) * (side / 2)
    if (nv[0].double() - want).abs().max() > tol:
        return (f"C10:normalize_flow:grid-vector-map:ac={ac}",
                f"normalize_flow differs from Grid.transform_vectors(GRID->{cube.value}) by {(nv[0].double() - want).abs().max():.3e}")
    want = g.transform_vectors(v[0].movedim(0, -1).double(), cube, Axes.GRID).movedim(-1, 0) / (side / 2)
    dv = U.denormalize_flow(v, size=g.size(), side_length=side, align_corners=ac)
    if (dv[0].double() - want).abs().max() > tol * max(g.size()):
        return (f"C10:denormalize_flow:grid-vector-map:ac={ac}",
                f"denormalize_flow differs from Grid.transform_vectors({cube.value}->GRID) by {(dv[0].double() - want).abs().max():.3e}")
    # the FlowFields method and the functional twin agree
    ff = FlowFields(v.float(), g, Axes.GRID).axes(cube).tensor()
    if (ff.double() * (side / 2) - nv.double()).abs().max() > max(tol, RTOL * float(nv.abs().max())):
        return (f"C10:normalize_flow:method-twin:ac={ac}", "FlowFields.axes(GRID->cube) differs from normalize_flow")
    # every documented way of calling it gives the same vectors
    for fn, ref, nm in ((U.normalize_flow, nv, "normalize_flow"), (U.denormalize_flow, dv, "denormalize_flow")):
        forms = {
            "size=None": fn(v, side_length=side, align_corners=ac),
            "size=tensor": fn(v, size=torch.tensor(g.size()), side_length=side, align_corners=ac),
            "channels_last": fn(v.movedim(1, -1), size=g.size(), side_length=side, align_corners=ac, channels_last=True).movedim(-1, 1),
        }
        for form, out in forms.items():
            if out.shape != ref.shape or (out - ref).abs().max() > tol * max(g.size()):
                return (f"C10:{nm}:call-form:{form}", f"differs from the size=grid.size() call by {(out - ref).abs().max():.3e}")
    return None


ORACLES = [
    Oracle("repr", gen_repr, check_repr, nontrivial=lambda c: gen.grid_nontrivial(c["grids"][0]),
           doc="axes invertible / path independent / grid vector map; exp, warp_image, sample agree in world space "
               "between any two representations; batches with shared or per-field grids"),
    Oracle("world_affine", gen_world_affine, check_world_affine,
           doc="a world-affine field resampled on another grid stays the same world-affine field, any representation"),
    Oracle("normalize_twins", gen_twins, check_twins, nontrivial=lambda c: gen.grid_nontrivial(c["grid"]),
           doc="core.flow.normalize_flow / denormalize_flow: mutually inverse, equal to Grid.transform_vectors GRID<->cube of the "
               "matching convention and to FlowFields.axes, same result for every size / channel-layout call form"),
]


def search_cases(disagreements: List[dict]):
    extra = {"repr": []}
    for dsg in disagreements[:30]:
        c = dsg["case"]
        if "grid" in c and isinstance(c["grid"], dict) and min(c["grid"]["size"]) >= 2:
            for pair in (["grid", "cube"], ["world", "cube_corners"], [c.get("a", "grid"), c.get("b", "world")]):
                extra["repr"].append({"grids": [c["grid"]], "tgt": c["grid"], "seed": c.get("seed", 1), "steps": 2,
                                      "pair": pair})
    return extra
