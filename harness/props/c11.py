"""C11 — scaling and squaring equals the closed form for affine velocity fields."""
from __future__ import annotations

import math
import random
from fractions import Fraction
from typing import List

import numpy as np
import torch

from deepali.core import functional as U
from deepali.core.grid import Grid
from deepali.modules.flow import ExpFlow

from lib import proto
from lib.core import Oracle, Stream, close
from props.prim import PRIM_STREAMS

PROP = "C11"
ASSUMPTIONS = [
    "F.grid_sample semantics are modelled (Model/TorchPrim.lean) and validated against torch by the prim.* streams",
    "the closed form is proved for affine generators whose first-order map keeps the sample hull invariant; "
    "the correspondence additionally ties the literal recursion (including border clamping) on random fields",
    "floats are exact rationals; float64 recursion compared with rtol 1e-8, float32 with 2e-4",
    "convergence to the matrix exponential and the second-order bound exp(v)∘exp(−v) ≈ id for smooth fields are "
    "explored numerically only (reported under exploration)",
]
TRUSTED = ["Model/FlowOps.lean hand transcription of core/flow.py expv/warp_image"]


def _n(tier, quick, thorough, search=None):
    return {"quick": quick, "thorough": thorough, "search": search or quick * 3}[tier]


def lattice(shape, ac, dtype=torch.float64):
    """normalised coordinates (…, X, D), x first, as Grid.coords gives them"""
    return Grid(shape=shape, align_corners=ac).coords(dtype=dtype)


def field_tokens(t: torch.Tensor) -> str:
    """(D, …, Y, X) tensor -> `size(x first) values`"""
    return " ".join(str(n) for n in reversed(t.shape[1:])) + " " + proto.vec(proto.flat(t))


def random_field(seed, d, shape, amp, denom=64):
    g = torch.Generator().manual_seed(seed)
    q = torch.randint(-denom, denom + 1, (d,) + tuple(shape), generator=g).double() / denom
    return q * amp


def invariant_generator(rng: random.Random, d: int, shape, ac: bool):
    """(H, h) in normalised coordinates such that x -> x + s(Hx + h) keeps the hull invariant for s in (0, 1]:
    negative diagonal, weighted diagonal dominance (weights = hull radii)."""
    r = [1.0 if ac else 1.0 - 1.0 / n for n in reversed(shape)]   # x first
    H = [[0.0] * d for _ in range(d)]
    h = [0.0] * d
    for i in range(d):
        diag = -round(rng.uniform(0.2, 0.9), 3)
        budget = -diag * r[i] * 0.95
        parts = [rng.random() for _ in range(d)]   # d-1 off-diagonals + translation
        tot = sum(parts) or 1.0
        k = 0
        for j in range(d):
            if j == i:
                continue
            H[i][j] = round(rng.choice([-1, 1]) * budget * parts[k] / tot / r[j], 4)
            k += 1
        h[i] = round(rng.choice([-1, 1]) * budget * parts[k] / tot, 4)
        H[i][i] = diag
    return H, h


def affine_field(H, h, shape, ac, dtype=torch.float64):
    x = lattice(shape, ac, dtype)                       # (…, X, D)
    Ht = torch.tensor(H, dtype=dtype)
    v = x @ Ht.T + torch.tensor(h, dtype=dtype)
    return v.movedim(-1, 0)                              # (D, …, X)


# ---------------------------------------------------------------- stream: literal recursion on small fields
def gen_literal(rng: random.Random, tier: str):
    for _ in range(_n(tier, 24, 400)):
        d = rng.choice([2, 2, 3])
        shape = [rng.randint(2, 4 if d == 3 else 5) for _ in range(d)]
        kind = rng.choice(["random", "random", "affine"])
        ac = rng.random() < 0.5
        c = {"d": d, "shape": shape, "ac": ac, "steps": rng.choice([0, 1, 2, 3]), "kind": kind,
             "scale": rng.choice([None, 1.0, 0.5, -1.0, 2.0]), "inverse": rng.random() < 0.3,
             "pad": rng.choice(["border", "border", "zeros"]), "seed": rng.randrange(1 << 30),
             "amp": rng.choice([0.25, 0.5, 1.0])}
        if kind == "affine":
            c["H"], c["h"] = invariant_generator(rng, d, shape, ac)
        yield c


def _flow(c):
    if c["kind"] == "affine":
        return affine_field(c["H"], c["h"], c["shape"], c["ac"])
    return random_field(c["seed"], c["d"], c["shape"], c["amp"])


def impl_literal(c):
    flow = _flow(c)
    out = U.expv(flow.unsqueeze(0), scale=c["scale"], steps=c["steps"], padding=c["pad"], align_corners=c["ac"],
                 inverse=c["inverse"])
    return proto.flat(out[0])


def line_literal(c):
    flow = _flow(c)
    scale = 1.0 if c["scale"] is None else c["scale"]
    return (f"flow.expv {c['d']} {1 if c['ac'] else 0} {c['pad']} {field_tokens(flow)[:0]}"
            f"{' '.join(str(n) for n in reversed(c['shape']))} {proto.fr(scale)} {1 if c['inverse'] else 0} "
            f"{c['steps']} {proto.vec(proto.flat(flow))}")


def cmp_values(tol):
    def cmp(c, r, out):
        if isinstance(r, str):
            return f"impl {r}; model {out[:60]}"
        if proto.is_error(out):
            return f"model error {out}"
        return close(r, proto.parse_vec(out), tol)
    return cmp


STREAMS = PRIM_STREAMS + [
    Stream("expv.literal", gen_literal, impl_literal, line_literal, cmp_values(1e-8),
           nontrivial=lambda c: c["steps"] > 0,
           doc="core.flow.expv (scale, steps 0..3, inverse, padding, align_corners) on small random and affine fields vs the "
               "model's literal recursion over Q"),
]


# ---------------------------------------------------------------- oracles
def closed_form(H, h, s, steps, x):
    """displacement of x -> (I + sH)x + s h iterated 2^steps times, at points x (…, D), float64"""
    d = len(h)
    A = np.eye(d + 1)
    A[:d, :d] += s * np.array(H)
    A[:d, d] = s * np.array(h)
    P = np.linalg.matrix_power(A, 2 ** steps)
    xn = x.numpy()
    y = xn @ P[:d, :d].T + P[:d, d]
    return torch.from_numpy(y - xn)


def gen_closed(rng: random.Random, tier: str):
    for _ in range(_n(tier, 40, 1500, 200)):
        d = rng.choice([2, 3])
        shape = [rng.randint(2, 9) for _ in range(d)]
        ac = rng.random() < 0.5
        H, h = invariant_generator(rng, d, shape, ac)
        yield {"d": d, "shape": shape, "ac": ac, "H": H, "h": h, "steps": rng.randint(0, 8),
               "scale": rng.choice([1.0, 1.0, 0.5, 0.25]), "dtype": rng.choice(["float32", "float64"]),
               "batch": rng.choice([1, 1, 2, 3]), "api": rng.choice(["expv", "expv", "ExpFlow"])}


def check_closed(c):
    dt = torch.float32 if c["dtype"] == "float32" else torch.float64
    flow = affine_field(c["H"], c["h"], c["shape"], c["ac"], dt)
    batch = torch.stack([flow * (1.0 if b == 0 else 0.5) for b in range(c["batch"])])
    if c["api"] == "ExpFlow":
        out = ExpFlow(scale=c["scale"], steps=c["steps"], align_corners=c["ac"])(batch)
    else:
        out = U.expv(batch, scale=c["scale"], steps=c["steps"], align_corners=c["ac"])
    if out.dtype != dt or out.shape != batch.shape:
        return ("C11:expv:dtype-shape", f"{out.dtype} {list(out.shape)}")
    x = lattice(c["shape"], c["ac"])
    tol = 5e-5 if c["dtype"] == "float32" else 1e-10
    for b in range(c["batch"]):
        f = 1.0 if b == 0 else 0.5
        s = c["scale"] * f / 2 ** c["steps"]
        want = closed_form(c["H"], c["h"], s, c["steps"], x).movedim(-1, 0)
        err = (out[b].double() - want).abs().max().item()
        if err > tol * max(1.0, 2 ** c["steps"] * 0.05):
            return (f"C11:closed-form:{'ac' if c['ac'] else 'no-ac'}",
                    f"steps={c['steps']} scale={c['scale']} item {b}: max |expv - closed form| = {err:.3e}")
    return None


def gen_flags(rng: random.Random, tier: str):
    for _ in range(_n(tier, 30, 600, 100)):
        d = rng.choice([2, 3])
        shape = [rng.randint(2, 7) for _ in range(d)]
        yield {"d": d, "shape": shape, "ac": rng.random() < 0.5, "seed": rng.randrange(1 << 30),
               "steps": rng.randint(0, 6), "scale": rng.choice([1.0, 0.5, 2.0])}


def check_flags(c):
    flow = random_field(c["seed"], c["d"], c["shape"], 0.3).unsqueeze(0)
    kw = dict(steps=c["steps"], align_corners=c["ac"])
    a = U.expv(flow, scale=c["scale"], inverse=True, **kw)
    b = U.expv(flow, scale=-c["scale"], **kw)
    e = U.expv(-flow, scale=c["scale"], **kw)
    if (a - b).abs().max() > 1e-12:
        return ("C11:inverse-flag:scale", "inverse=True differs from negated scale")
    if (a - e).abs().max() > 1e-12:
        return ("C11:inverse-flag:field", "inverse=True differs from negated field")
    z = U.expv(flow, scale=c["scale"], steps=0, align_corners=c["ac"])
    if (z - flow * c["scale"]).abs().max() > 1e-15:
        return ("C11:zero-steps", "steps=0 does not return the scaled input")
    m = ExpFlow(scale=c["scale"], steps=c["steps"], align_corners=c["ac"])
    if (m(flow, inverse=True) - a).abs().max() > 1e-12 or (m.inv(flow) - a).abs().max() > 1e-12:
        return ("C11:ExpFlow:inverse", "ExpFlow inverse / .inv differ from expv(inverse=True)")
    # the transform class that owns an ExpFlow: the exponential it evaluates keeps scale and steps (and follows the grid's
    # align_corners) through inverse() and through re-gridding onto a grid of the other convention
    if c["steps"] > 0 and min(c["shape"]) >= 3:
        from deepali.core.grid import Grid
        import deepali.spatial as S
        g = Grid(shape=c["shape"], align_corners=c["ac"])
        t = S.StationaryVelocityFieldTransform(g, params=flow.float(), scale=c["scale"], steps=c["steps"])
        g2 = Grid(shape=c["shape"], align_corners=not c["ac"])
        for name, u in (("grid", t.grid(g2)), ("inverse.grid", t.inverse().grid(g2)), ("grid.inverse", t.grid(g2).inverse())):
            want_scale = c["scale"] * (-1 if "inverse" in name else 1)
            ex = u.exp
            if ex.scale != want_scale or ex.steps != c["steps"] or ex.align_corners != g2.align_corners():
                return (f"C11:SVF:regrid:{name}", f"StationaryVelocityFieldTransform(scale={c['scale']}, steps={c['steps']}).{name}() "
                        f"evaluates ExpFlow(scale={ex.scale}, steps={ex.steps}, align_corners={ex.align_corners}) on a grid with "
                        f"align_corners={g2.align_corners()}")
            u.update()
            ref = U.expv(u.v, scale=want_scale, steps=c["steps"], align_corners=g2.align_corners())
            if (u.u - ref).abs().max() > 1e-5:
                return (f"C11:SVF:regrid:{name}", f"buffer u differs from expv(v, scale={want_scale}) by {float((u.u - ref).abs().max()):.3e}")
    return None


def gen_converge(rng: random.Random, tier: str):
    for _ in range(_n(tier, 10, 200, 30)):
        d = rng.choice([2, 3])
        shape = [rng.randint(3, 8) for _ in range(d)]
        ac = rng.random() < 0.5
        H, h = invariant_generator(rng, d, shape, ac)
        yield {"d": d, "shape": shape, "ac": ac, "H": H, "h": h}


def _expm(A, terms=40):
    out = np.eye(A.shape[0])
    term = np.eye(A.shape[0])
    for k in range(1, terms):
        term = term @ A / k
        out = out + term
    return out


def check_converge(c):
    """exploration: expv(k) approaches the displacement of the matrix exponential as k grows (error roughly halves)"""
    d = c["d"]
    flow = affine_field(c["H"], c["h"], c["shape"], c["ac"]).unsqueeze(0)
    A = np.zeros((d + 1, d + 1))
    A[:d, :d] = np.array(c["H"])
    A[:d, d] = np.array(c["h"])
    E = _expm(A)
    x = lattice(c["shape"], c["ac"]).numpy()
    want = torch.from_numpy(x @ E[:d, :d].T + E[:d, d] - x).movedim(-1, 0)
    errs = []
    for k in (2, 4, 6, 8):
        out = U.expv(flow, steps=k, align_corners=c["ac"])[0]
        errs.append((out - want).abs().max().item())
    if not (errs[3] <= errs[0] * 0.25 + 1e-12 and errs[3] < 2e-2):
        return ("C11:convergence", f"errors vs exp(H) for k=2,4,6,8: {errs}")
    return None


def gen_smooth(rng: random.Random, tier: str):
    for _ in range(_n(tier, 8, 150, 24)):
        d = rng.choice([2, 3])
        n = rng.choice([16, 24]) if d == 2 else 12
        yield {"d": d, "n": n, "ac": rng.random() < 0.5, "freq": rng.choice([1, 2]), "seed": rng.randrange(1 << 30)}


def smooth_field(d, n, ac, freq, seed, amp_samples):
    """band-limited field vanishing at the boundary, amplitude given in samples"""
    x = lattice([n] * d, ac)                     # (…, d) in [-1, 1]
    g = torch.Generator().manual_seed(seed)
    coef = torch.rand(d, d, generator=g, dtype=torch.float64) * 2 - 1
    v = torch.zeros((d,) + (n,) * d, dtype=torch.float64)
    window = torch.ones((n,) * d, dtype=torch.float64)
    for j in range(d):
        window = window * torch.cos(0.5 * math.pi * x[..., j]) ** 2
    for i in range(d):
        s = torch.zeros((n,) * d, dtype=torch.float64)
        for j in range(d):
            s = s + coef[i, j] * torch.sin(freq * math.pi * x[..., j] + 0.3 * i)
        v[i] = s * window
    v = v / v.abs().max()
    cube_per_sample = 2.0 / (n - 1 if ac else n)
    return v * amp_samples * cube_per_sample


def check_smooth(c):
    """exploration: exp(v)∘exp(−v) = id up to interpolation error, second order in the amplitude (in samples)"""
    errs = []
    for amp in (1.0, 0.5):
        v = smooth_field(c["d"], c["n"], c["ac"], c["freq"], c["seed"], amp).unsqueeze(0)
        a = U.expv(v, steps=6, align_corners=c["ac"])
        b = U.expv(v, steps=6, align_corners=c["ac"], inverse=True)
        w = U.compose_flows(a, b, align_corners=c["ac"])
        per_sample = 2.0 / (c["n"] - 1 if c["ac"] else c["n"])
        errs.append((w.abs().max() / per_sample).item())
    # second order with an explicit constant: err(a) <= 0.6 a^2 + 0.01 samples for a in {1, 1/2}
    if errs[0] > 0.6 + 0.01 or errs[1] > 0.6 * 0.25 + 0.01:
        return ("C11:smooth-second-order", f"|exp(v)∘exp(−v)| in samples for amplitude 1, 0.5: {errs}")
    return None


ORACLES = [
    Oracle("closed_form", gen_closed, check_closed, doc="expv / ExpFlow on invariant affine generators vs (I+sH)^(2^k), "
           "steps 0..8, scales, float32/64, batch sizes, both conventions"),
    Oracle("flags", gen_flags, check_flags, doc="zero steps, inverse flag = negated scale = negated field, ExpFlow.inv; "
           "StationaryVelocityFieldTransform keeps scale / steps of its exponential through inverse() and re-gridding to the other convention"),
    Oracle("converge", gen_converge, check_converge, doc="exploration: convergence to the matrix exponential in k"),
    Oracle("smooth", gen_smooth, check_smooth, doc="exploration: exp(v)∘exp(−v) ≈ id, second order in amplitude"),
]


def search_cases(disagreements: List[dict]):
    extra = {"closed_form": [], "flags": []}
    for dsg in disagreements[:30]:
        c = dsg["case"]
        if "shape" in c and "ac" in c and c.get("kind") == "affine":
            extra["closed_form"].append({"d": c["d"], "shape": c["shape"], "ac": c["ac"], "H": c["H"], "h": c["h"],
                                         "steps": c["steps"], "scale": abs(c["scale"] or 1.0), "dtype": "float64",
                                         "batch": 1, "api": "expv"})
        if "shape" in c and "seed" in c and "steps" in c:
            extra["flags"].append({"d": c["d"], "shape": c["shape"], "ac": c["ac"], "seed": c["seed"],
                                   "steps": c["steps"], "scale": 1.0})
    return extra
