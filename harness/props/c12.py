"""C12 — spatial derivatives of flow fields are exact on polynomial fields."""
from __future__ import annotations

import itertools
import math
import random
from fractions import Fraction
from typing import Dict, List, Optional

import torch

from deepali.core import flow as U
from deepali.core.bspline import cubic_bspline_interpolation_weights
from deepali.core.enum import FlowDerivativeKeys as FK
from deepali.core.enum import SpatialDerivativeKeys as SK
from deepali.core.image import finite_differences, spatial_derivatives

from lib import proto
from lib.core import Oracle, Stream, close

PROP = "C12"
# float64 paths: a derivative value is (sum of <= 27 products) / spacing**order, i.e. < 100 flops;
# 100 x 1.1e-16 x |data|/h^2 is < 1e-11 on the generated inputs; 1e-9 leaves two orders of margin and
# is seven orders below any modelled defect (a wrong stencil offset / column / sign changes values by >= 1e-2).
RTOL64 = 1e-9
RTOL32 = 2e-4          # float32 data (eps 6e-8 x cancellation |data|/h^2 <= 2e3)
RTOL_SP32 = 2e-6       # float64 data but a spacing that deepali stores as float32 *after* Python computed it
FD_MODES = ["forward", "backward", "central", "forward_central_backward", "prewitt", "sobel"]
FD4 = FD_MODES[:4]
DYADIC = [0.25, 0.5, 0.75, 1.0, 1.25, 1.5, 2.0, 3.0, 4.0]

ASSUMPTIONS = [
    "floats are the exact rationals they denote; IEEE rounding is covered by the correspondence tolerance "
    f"(rtol {RTOL64} float64 / {RTOL32} float32 relative to max(1, |data|/h_min^order, |result|)), never by a theorem",
    "spatial_derivatives stores `spacing` as float32; the model receives the float32 value (harness performs the same cast)",
    "'interior' for the replicate-/zero-padded schemes = points whose (composed) stencil does not touch the padding: "
    "margin 1 for first derivatives with forward/backward/central (forward_central_backward, prewitt and sobel — with the "
    "replicate-padded averaging of the F-17d repair — are exact on affine fields at EVERY point), margin 2 for second "
    "derivatives (the quantifier's 'grid shapes >= 5' leaves at least one such point); DESIGN 5.0 I-3",
    "F.pad(replicate), F.conv1d(padding=1), F.conv{1,2,3}d(groups=C), slicing, torch.cat behave as documented",
    "mode='bspline': the cubic B-spline weights are taken from cubic_bspline_interpolation_weights as given (C14)",
    "the Lie bracket sign convention is the one of the code: lie_bracket(v, u) = Jac(v) u - Jac(u) v",
    "data types: the model's scalars are exact rationals, so integer-dtype inputs (cast to float32 by the code) and the "
    "modules.Curl entry point are covered by the `entry_points` oracle only; the default spacing FlowFields.curl / FlowField.curl derive from the axes is a theorem (C12_curl_default_spacing_is_axes_step, C12_flowfields_curl_affine) and a generated obligation",
]
TRUSTED = ["model files Deepali/Model/{FD,FlowCalc}.lean are hand transcriptions of core/image.py "
           "(finite_differences, spatial_derivatives, conv1d), core/enum.py (SpatialDerivativeKeys, FlowDerivativeKeys), "
           "core/flow.py (flow_derivatives, jacobian_*, divergence, curl, lie_bracket), core/bspline.py "
           "(evaluate_cubic_bspline, non-transposed branch); tied to /repo by the streams below on every run"]
RULE = ("cases drawn from one PRNG: D in {2,3}; shapes 5..8 (2-D) / 5..6 (3-D) per axis; N in 1..3; modes enumerated; "
        "spacing forms none/scalar/(1,)/(D,)/(1,1)/(1,D)/(N,1)/(N,D) with dyadic and float32-rounded values; key subsets of "
        "all keys of order <= 2 (all 2-D subsets enumerated in thorough); data = affine / quadratic / random dyadic fields; "
        "key strings: every key of order <= 2 over x,y,z,t x channel prefixes of length <= 2 x D x order filter plus a "
        "malformed list, enumerated; non-trivial = data not constant and (anisotropic or non-unit spacing or order 2 or "
        "more than one key); distinct after JSON canonicalisation")


def _n(tier, quick, thorough, search=None):
    return {"quick": quick, "thorough": thorough, "search": search or max(quick, thorough // 4)}[tier]


def hx(s: str) -> str:
    return "h" + s.encode().hex()


# ------------------------------------------------------------------ data and spacing
def index_coords(shape) -> torch.Tensor:
    """(D, *shape) float64 index coordinates, component 0 = x (last tensor axis)."""
    g = torch.meshgrid(*[torch.arange(n, dtype=torch.float64) for n in shape], indexing="ij")
    return torch.stack(g, 0).flip(0)


def make_data(spec: dict, shape, N: int, C: int) -> torch.Tensor:
    """Deterministic dyadic test fields (exact in float32 and float64)."""
    rng = random.Random(spec["seed"])
    D = len(shape)
    idx = index_coords(shape)
    out = torch.empty((N, C) + tuple(shape), dtype=torch.float64)
    numel = int(torch.tensor(shape).prod())
    for b in range(N):
        for c in range(C):
            kind = spec["kind"]
            if kind == "random":
                out[b, c] = torch.tensor([rng.randint(-64, 64) / 8 for _ in range(numel)], dtype=torch.float64).reshape(shape)
                continue
            f = torch.full(tuple(shape), rng.randint(-40, 40) / 8, dtype=torch.float64)
            for j in range(D):
                f = f + (rng.randint(-32, 32) / 8) * idx[j]
            if kind == "quadratic":
                for i in range(D):
                    for j in range(i, D):
                        f = f + (rng.randint(-16, 16) / 8) * idx[i] * idx[j]
            out[b, c] = f
    return out.to(torch.float32 if spec.get("dtype") == "float32" else torch.float64)


def gen_spacing(rng: random.Random, N: int, D: int, allow_none=True, dyadic_only=False) -> dict:
    def val():
        if dyadic_only or rng.random() < 0.7:
            return rng.choice(DYADIC)
        return round(rng.uniform(0.2, 4.0), 3)
    form = rng.choice((["none"] if allow_none else []) + ["scalar", "vec1", "vecD", "mat11", "mat1D", "matN1", "matND", "matND"])
    if form == "none":
        v = None
    elif form == "scalar":
        v = val()
    elif form == "vec1":
        v = [val()]
    elif form == "vecD":
        v = [val() for _ in range(D)]
    else:
        r = 1 if form[3] == "1" else N
        cc = 1 if form[4] == "1" else D
        v = [[val() for _ in range(cc)] for _ in range(r)]
    return {"form": form, "value": v, "tensor": rng.random() < 0.5}


def spacing_arg(sp: dict):
    v = sp["value"]
    if v is None:
        return None
    if sp.get("tensor") and not isinstance(v, float):
        return torch.tensor(v, dtype=torch.float64)
    return v


def f32(x: float) -> float:
    return float(torch.tensor(x, dtype=torch.float32))


def spacing_line(sp: dict) -> str:
    """what spatial_derivatives holds after `as_tensor(spacing, dtype=torch.float)`"""
    v = sp["value"]
    if v is None:
        return "none"
    if isinstance(v, (int, float)):
        return f"scalar {proto.fr(f32(v))}"
    if v and isinstance(v[0], list):
        flat = [proto.fr(f32(x)) for row in v for x in row]
        return f"mat {len(v)} {len(v[0])} " + " ".join(flat)
    return f"vec {len(v)} " + " ".join(proto.fr(f32(x)) for x in v)


def spacing_matrix(sp: dict, N: int, D: int, shape=None, flow=False) -> List[List[float]]:
    """(N, D) spacing in float32 precision, as deepali uses it (x first)."""
    v = sp["value"]
    if v is None:
        if flow:
            row = [f32(2 / (n - 1)) for n in reversed(shape)]
            return [row for _ in range(N)]
        return [[1.0] * D for _ in range(N)]
    t = torch.atleast_1d(torch.tensor(v, dtype=torch.float32))
    if t.ndim == 1:
        t = t.unsqueeze(0)
    return t.expand(N, D).double().tolist()


def which_line(which, order) -> str:
    if which is None:
        w = "none"
    else:
        ks = [which] if isinstance(which, str) else list(which)
        w = f"keys {len(ks)} " + " ".join(hx(k) for k in ks)
    return w.strip() + " " + ("none" if order is None else str(order))


def data_line(t: torch.Tensor) -> str:
    return " ".join(proto.fr(v) for v in t.double().flatten().tolist())


def min_h(sp: dict, shape=None, flow=False) -> float:
    N = 1 if sp["value"] is None or not isinstance(sp["value"], list) else 3
    m = spacing_matrix(sp, 1 if sp["form"] in ("none", "scalar", "vec1", "vecD", "mat11", "mat1D") else len(sp["value"]),
                       len(shape), shape, flow) if shape else [[1.0]]
    return min(min(r) for r in m)


def scale_of(c: dict, data: torch.Tensor, order: int = 2) -> float:
    h = min_h(c["spacing"], c["shape"], c.get("flow", False))
    return float(data.abs().max()) * max(1.0, (1.0 / h) ** order)


def rtol_of(c: dict) -> float:
    if c["data"].get("dtype") == "float32":
        return RTOL32
    if c.get("flow") and c["spacing"]["value"] is None:
        return RTOL_SP32   # 2/(n-1) is rounded to float32 by the code; the model uses the exact quotient
    if c.get("mode") == "bspline":
        return RTOL_SP32   # the code forms prod spacing**order in float32 (`denom`), the model exactly
    return RTOL64


def unhx(t: str) -> str:
    assert t.startswith("h"), t
    return bytes.fromhex(t[1:]).decode()


def parse_dict(out: str) -> Optional[List]:
    if out == "-":
        return []
    res = []
    for part in out.split("|"):
        k, _, vals = part.partition(":")
        k = unhx(k)
        if vals == "missing":
            res.append((k, None))
        else:
            res.append((k, [Fraction(t) for t in vals.split()]))
    return res


def cmp_err(r, out) -> Optional[str]:
    """impl raised: the model must report the same kind."""
    kind = r.split(":")[1]
    if not out.startswith("err:"):
        return f"impl raised {r[:70]}, model gave {out[:60]}"
    if out.split(":")[1] != kind:
        return f"impl raised {r[:70]}, model says {out}"
    return None


def cmp_dict(c, r, out, unordered=False):
    if isinstance(r, str):
        return cmp_err(r, out)
    if proto.is_error(out):
        return f"model error {out}, impl returned keys {[k for k, _ in r['items']]}"
    m = parse_dict(out)
    items = r["items"]
    if unordered:
        m = sorted(m, key=lambda kv: kv[0])
        items = sorted(items, key=lambda kv: kv[0])
    if [k for k, _ in m] != [k for k, _ in items]:
        return f"keys differ: impl {[k for k, _ in items]} vs model {[k for k, _ in m]}"
    for (k, mv), (_, iv) in zip(m, items):
        if mv is None:
            return f"model has no value for {k}"
        why = close(iv, mv, rtol_of(c), r["scale"])
        if why:
            return f"{k}: {why}"
    return None


def cmp_flat(c, r, out):
    if isinstance(r, str):
        return cmp_err(r, out)
    if proto.is_error(out):
        return f"model error {out}"
    return close(r["values"], proto.parse_vec(out), rtol_of(c), r["scale"])


def sizes_x_first(shape) -> str:
    return " ".join(str(n) for n in reversed(shape))


def gen_shape(rng: random.Random, D: int) -> List[int]:
    return [rng.randint(5, 8) for _ in range(2)] if D == 2 else [rng.randint(5, 6) for _ in range(3)]


def gen_dataspec(rng: random.Random, kinds=("affine", "quadratic", "random", "random")) -> dict:
    return {"kind": rng.choice(kinds), "seed": rng.randrange(1 << 30),
            "dtype": "float32" if rng.random() < 0.15 else "float64"}


# ------------------------------------------------------------------ stream: finite_differences
def gen_fd(rng: random.Random, tier: str):
    for mode in FD4:
        for D in (2, 3):
            for sdim in range(D):
                for dil in (1, 2):
                    for _ in range(_n(tier, 1, 12)):
                        shape = gen_shape(rng, D)
                        if rng.random() < 0.15:
                            shape[D - 1 - sdim] = rng.choice([2, 3, 4])   # incl. n < 2*dilation (fcb rejects)
                        N = rng.randint(1, 3)
                        yield {"mode": mode, "D": D, "shape": shape, "sdim": sdim, "dil": dil, "N": N, "C": rng.randint(1, 2),
                               "b": rng.randrange(N), "hs": [rng.choice(DYADIC + [0.3, 1.7]) for _ in range(N)],
                               "per_item": rng.random() < 0.6, "sdim_as": rng.choice(["int", "str"]),
                               "data": gen_dataspec(rng), "spacing": {"form": "scalar", "value": 1.0}}


def _fd_h(c):
    return c["hs"] if c["per_item"] else c["hs"][0]


def impl_fd(c):
    data = make_data(c["data"], c["shape"], c["N"], c["C"])
    sdim = c["sdim"] if c["sdim_as"] == "int" else "xyz"[c["sdim"]]
    r = finite_differences(data, sdim, mode=c["mode"], dilation=c["dil"], spacing=_fd_h(c))
    ch = c["data"]["seed"] % c["C"]
    hmin = min(c["hs"])
    return {"values": proto.flat(r[c["b"], ch]), "scale": float(data.abs().max()) / min(1.0, hmin)}


def line_fd(c):
    data = make_data(c["data"], c["shape"], c["N"], c["C"])
    ch = c["data"]["seed"] % c["C"]
    h = c["hs"][c["b"]] if c["per_item"] else c["hs"][0]
    # finite_differences converts the spacing to the dtype of the data
    h = f32(h) if c["data"].get("dtype") == "float32" else h
    return (f"fd.fd {c['mode']} {c['D']} {sizes_x_first(c['shape'])} {c['sdim']} {c['dil']} {proto.fr(h)} "
            + data_line(data[c["b"], ch]))


# ------------------------------------------------------------------ stream: spatial_derivatives
def spatial_keys(D: int, max_order: int = 2) -> List[str]:
    letters = "xyz"[:D]
    ks = list(letters)
    if max_order >= 2:
        ks += [a + b for a in letters for b in letters]
    return ks


def gen_which(rng: random.Random, D: int):
    ks = spatial_keys(D)
    r = rng.random()
    if r < 0.12:
        return None
    if r < 0.22:
        return rng.choice(ks)
    k = rng.choice([1, 2, 2, 3, 4, len(ks)])
    sel = rng.sample(ks, min(k, len(ks)))
    if rng.random() < 0.2:
        sel.append(rng.choice(sel))     # duplicate
    if rng.random() < 0.08:
        sel.append(rng.choice(["xz" if D == 2 else "xt", "t", "a", "xyx", "X"]))
    return sel


def _sd_case(rng, mode, D, which, order, tier_small=False):
    shape = gen_shape(rng, D)
    N = rng.randint(1, 3)
    C = rng.randint(1, 2)
    return {"mode": mode, "D": D, "shape": shape, "N": N, "C": C, "b": rng.randrange(N),
            "spacing": gen_spacing(rng, N, D), "which": which, "order": order, "data": gen_dataspec(rng)}


def gen_sd(rng: random.Random, tier: str):
    for mode in FD_MODES:
        for D in (2, 3):
            for _ in range(_n(tier, 7 if D == 2 else 3, 160 if D == 2 else 40)):
                yield _sd_case(rng, mode, D, gen_which(rng, D), rng.choice([None, None, None, 1, 2, 0]))
    if tier != "quick":
        # every subset of the six 2-D keys of order <= 2, default mode and one rotating other mode
        ks = spatial_keys(2)
        for i, bits in enumerate(itertools.product([0, 1], repeat=len(ks))):
            sel = [k for k, bit in zip(ks, bits) if bit]
            for mode in ("forward_central_backward", FD_MODES[i % len(FD_MODES)]):
                yield _sd_case(rng, mode, 2, sel, None)
    # malformed spacing shapes
    for _ in range(_n(tier, 6, 60)):
        D = rng.choice([2, 3])
        c = _sd_case(rng, rng.choice(FD_MODES), D, ["x"], None)
        N = c["N"]
        bad = rng.choice([[1.0] * (D + 1), [[1.0] * D] * (N + 1), [[1.0] * (D + 1)] * N, [[[1.0] * D] * N], [1.0, 2.0, 3.0, 4.0, 5.0]])
        c["spacing"] = {"form": "bad", "value": bad, "tensor": False}
        yield c


def _sd_kw(c):
    kw = dict(which=c["which"], order=c["order"], mode=c["mode"], spacing=spacing_arg(c["spacing"]))
    return kw


def impl_sd(c):
    data = make_data(c["data"], c["shape"], c["N"], c["C"])
    try:
        res = spatial_derivatives(data, **_sd_kw(c))
    except KeyError as e:
        return f"err:key:{e}"
    ch = c["data"]["seed"] % c["C"]
    return {"items": [(k, proto.flat(v[c["b"], ch])) for k, v in res.items()], "scale": scale_of(c, data)}


def _spacing_line_any(sp):
    v = sp["value"]
    if sp["form"] == "bad":
        # encode the raw shape; the model applies the same shape rule
        t = torch.tensor(v)
        if t.ndim == 1:
            return f"vec {t.shape[0]} " + " ".join(proto.fr(x) for x in t.flatten().tolist())
        if t.ndim == 2:
            return f"mat {t.shape[0]} {t.shape[1]} " + " ".join(proto.fr(x) for x in t.flatten().tolist())
        return "mat 0 0"       # ndim 3: rejected (the model rejects an empty matrix likewise)
    return spacing_line(sp)


def line_sd(c):
    data = make_data(c["data"], c["shape"], c["N"], c["C"])
    ch = c["data"]["seed"] % c["C"]
    return (f"fd.sd {c['mode']} {c['D']} {sizes_x_first(c['shape'])} {c['N']} {c['b']} {_spacing_line_any(c['spacing'])} "
            f"{which_line(c['which'], c['order'])} " + data_line(data[c["b"], ch]))


# ------------------------------------------------------------------ stream: spatial_derivatives, mode='bspline'
def weights_line(strides_x_first) -> str:
    toks = []
    for s in strides_x_first:
        for o in range(3):
            w = cubic_bspline_interpolation_weights(s, o, dtype=torch.float64)
            toks += [proto.fr(v) for v in w.flatten().tolist()]
    return " ".join(toks)


def gen_sdb(rng: random.Random, tier: str):
    for D in (2, 3):
        for _ in range(_n(tier, 8 if D == 2 else 3, 150 if D == 2 else 40)):
            c = _sd_case(rng, "bspline", D, gen_which(rng, D), rng.choice([None, None, 1, 2]))
            c["data"]["dtype"] = "float64"
            st = rng.choice([None, 1, 2, 3, "tuple"])
            c["stride"] = [rng.randint(1, 3) for _ in range(D)] if st == "tuple" else st
            yield c


def _strides(c):
    st = c.get("stride")
    if st is None:
        st = 1
    return [st] * c["D"] if isinstance(st, int) else list(st)


def impl_sdb(c):
    data = make_data(c["data"], c["shape"], c["N"], c["C"])
    st = c.get("stride")
    res = spatial_derivatives(data, stride=tuple(st) if isinstance(st, list) else st, **_sd_kw(c))
    ch = c["data"]["seed"] % c["C"]
    return {"items": [(k, proto.flat(v[c["b"], ch])) for k, v in res.items()], "scale": scale_of(c, data)}


def line_sdb(c):
    data = make_data(c["data"], c["shape"], c["N"], c["C"])
    ch = c["data"]["seed"] % c["C"]
    st = _strides(c)
    return (f"fd.sdb {c['D']} {sizes_x_first(c['shape'])} {c['N']} {c['b']} {_spacing_line_any(c['spacing'])} "
            f"{which_line(c['which'], c['order'])} {' '.join(map(str, st))} {weights_line(st)} "
            + data_line(data[c["b"], ch]))


# ------------------------------------------------------------------ stream: flow_derivatives
def flow_key_universe(D: int) -> List[str]:
    ch = "uvw"[:D]
    ks = spatial_keys(D)
    out = list(ks)
    out += [f"d{c}/d{k}" for c in ch for k in ks]
    out += [f"d{a}{b}/d{k}" for a in ch for b in ch if a != b for k in ks[:D + 2]]
    return out


def gen_flow_which(rng: random.Random, D: int):
    uni = flow_key_universe(D)
    r = rng.random()
    if r < 0.12:
        return None
    if r < 0.2:
        return rng.choice(uni)
    sel = rng.sample(uni, rng.choice([1, 2, 3, 5, 8]))
    if rng.random() < 0.2:
        sel.append(rng.choice(sel))
    if rng.random() < 0.1:
        sel.append(rng.choice(["dw/dx" if D == 2 else "du/dt", "du/dX", "dU/dx", "du/dxz" if D == 2 else "du/dxt", "u/x", "", "du/d"]))
    return sel


def _flow_case(rng, mode, D, which, order):
    shape = gen_shape(rng, D)
    N = rng.randint(1, 3)
    return {"mode": mode, "D": D, "shape": shape, "N": N, "b": rng.randrange(N), "flow": True,
            "spacing": gen_spacing(rng, N, D), "which": which, "order": order, "data": gen_dataspec(rng)}


def gen_fderivs(rng: random.Random, tier: str):
    for mode in FD_MODES:
        for D in (2, 3):
            for _ in range(_n(tier, 5 if D == 2 else 2, 120 if D == 2 else 30)):
                yield _flow_case(rng, mode, D, gen_flow_which(rng, D), rng.choice([None, None, None, 1, 2, 0]))


def impl_fderivs(c):
    flow = make_data(c["data"], c["shape"], c["N"], c["D"])
    kw = _sd_kw(c)
    if c["mode"] == "bspline":
        st = c.get("stride")
        kw["stride"] = tuple(st) if isinstance(st, list) else st
    try:
        res = U.flow_derivatives(flow, **kw)
    except KeyError as e:
        return f"err:key:{e}"
    return {"items": [(k, proto.flat(v[c["b"], 0])) for k, v in res.items()], "scale": scale_of(c, flow)}


def line_fderivs(c):
    flow = make_data(c["data"], c["shape"], c["N"], c["D"])
    head = f"{c['D']} {sizes_x_first(c['shape'])} {c['N']} {c['b']} {_spacing_line_any(c['spacing'])} {which_line(c['which'], c['order'])}"
    if c["mode"] == "bspline":
        st = _strides(c)
        return f"flowcalc.derivs_b {head} {' '.join(map(str, st))} {weights_line(st)} " + data_line(flow[c["b"]])
    return f"flowcalc.derivs {c['mode']} {head} " + data_line(flow[c["b"]])


def gen_fderivs_b(rng: random.Random, tier: str):
    for D in (2, 3):
        for _ in range(_n(tier, 5 if D == 2 else 2, 100 if D == 2 else 30)):
            c = _flow_case(rng, "bspline", D, gen_flow_which(rng, D), rng.choice([None, None, 1, 2]))
            c["data"]["dtype"] = "float64"
            st = rng.choice([None, 1, 2, "tuple"])
            c["stride"] = [rng.randint(1, 3) for _ in range(D)] if st == "tuple" else st
            yield c


# ------------------------------------------------------------------ stream: jacobian_det / matrix / div / curl / lie
FLOW_OPS = ["jacdet1", "jacdet0", "jacmat0", "jacmat1", "div", "curl", "lie"]


def gen_flowcalc(rng: random.Random, tier: str):
    for op in FLOW_OPS:
        for mode in FD_MODES + [None]:
            for D in (2, 3):
                for _ in range(_n(tier, 1, 14 if D == 2 else 5)):
                    c = _flow_case(rng, mode, D, None, None)
                    c["op"] = op
                    c["data2"] = gen_dataspec(rng)
                    c["data2"]["dtype"] = c["data"]["dtype"]
                    yield c


def _flow_call(c, flow, flow2=None):
    kw = dict(mode=c["mode"], spacing=spacing_arg(c["spacing"]))
    op = c["op"]
    if op.startswith("jacdet"):
        return U.jacobian_det(flow, add_identity=op.endswith("1"), **kw)
    if op.startswith("jacmat"):
        return U.jacobian_matrix(flow, add_identity=op.endswith("1"), **kw)
    if op == "div":
        return U.divergence(flow, **kw)
    if op == "curl":
        return U.curl(flow, **kw)
    return U.lie_bracket(flow, flow2, **kw)


def impl_flowcalc(c):
    flow = make_data(c["data"], c["shape"], c["N"], c["D"])
    flow2 = make_data(c["data2"], c["shape"], c["N"], c["D"]) if c["op"] == "lie" else None
    r = _flow_call(c, flow, flow2)
    amp = float(flow.abs().max()) * (1.0 if flow2 is None else max(1.0, float(flow2.abs().max())))
    h = min_h(c["spacing"], c["shape"], True)
    power = c["D"] if c["op"].startswith("jacdet") else 1
    return {"values": proto.flat(r[c["b"]]), "scale": max(1.0, amp / min(1.0, h)) ** power}


def line_flowcalc(c):
    flow = make_data(c["data"], c["shape"], c["N"], c["D"])
    mode = c["mode"] or "forward_central_backward"
    head = f"{mode} {c['D']} {sizes_x_first(c['shape'])} {c['N']} {c['b']} {_spacing_line_any(c['spacing'])}"
    op = c["op"]
    if op.startswith("jacdet") or op.startswith("jacmat"):
        return f"flowcalc.{op[:-1]} {head} {op[-1]} " + data_line(flow[c["b"]])
    if op == "lie":
        flow2 = make_data(c["data2"], c["shape"], c["N"], c["D"])
        return f"flowcalc.lie {head} " + data_line(flow[c["b"]]) + " " + data_line(flow2[c["b"]])
    return f"flowcalc.{op} {head} " + data_line(flow[c["b"]])


# ------------------------------------------------------------------ stream: spacing forms (shape rule), exhaustive
def gen_spacing_forms(rng: random.Random, tier: str):
    for N in (1, 2, 3):
        for D in (2, 3):
            shapes = [(), (1,), (D,), (N,), (D + 1,), (4,), (1, 1), (1, D), (N, 1), (N, D), (N + 1, D), (N, D + 1),
                      (N + 1, 1), (D, N), (2, 2), (3, 3), (1, 1, 1), (N, D, 1)]
            for shp in dict.fromkeys(shapes):
                numel = 1
                for s in shp:
                    numel *= s
                vals = [rng.choice(DYADIC + [0.3, 0.7]) for _ in range(numel)]
                yield {"N": N, "D": D, "sshape": list(shp), "vals": vals}


def impl_spacing_forms(c):
    N, D = c["N"], c["D"]
    shape = [5] * D
    idx = index_coords(shape)
    # data = x_0 + 10 x_1 + 100 x_2 per batch item: d/dx_j = 10^j / spacing[b, j] reveals the expanded matrix
    f = sum((10.0 ** j) * idx[j] for j in range(D))
    data = f.reshape(1, 1, *shape).expand(N, 1, *shape).clone()
    sp = torch.tensor(c["vals"], dtype=torch.float64).reshape(c["sshape"])
    res = spatial_derivatives(data, which=list("xyz"[:D]), spacing=sp if sp.ndim else float(sp))
    center = (slice(None), 0) + (2,) * D
    m = [[(10.0 ** j) / float(res["xyz"[j]][center][b]) for j in range(D)] for b in range(N)]
    return {"values": [v for row in m for v in row], "scale": 1.0}


def line_spacing_forms(c):
    shp, vals = c["sshape"], [proto.fr(f32(v)) for v in c["vals"]]
    if len(shp) == 0:
        s = f"scalar {vals[0]}"
    elif len(shp) == 1:
        s = f"vec {shp[0]} " + " ".join(vals)
    elif len(shp) == 2:
        s = f"mat {shp[0]} {shp[1]} " + " ".join(vals)
    else:
        s = "mat 0 0"
    return f"fd.spacing {c['N']} {c['D']} {s}"


def cmp_spacing_forms(c, r, out):
    if isinstance(r, str):
        return cmp_err(r, out)
    if proto.is_error(out):
        return f"model rejects ({out}) what the code accepts"
    return close(r["values"], proto.parse_vec(out), 1e-6)


# ------------------------------------------------------------------ stream: key strings, exhaustive
MALFORMED = ["", "d", "du/d", "du/", "du/dX", "dU/dx", "dx/du", "du/dxa", " x", "x ", "x\n", "du/dx\n", "du/dx\n\n",
             "a", "du\\dx", "ddu/dx", "duu/dx", "du/dxyz", "xyz", "dw/dz", "tt", "du/dt", "X", "dux/dx", "d/dx", "u/x",
             "du/dx,dv/dy", "du/dx dv/dy", "dv/dyx", "dvu/dyx", "duvw/dz", "xX", "du/dxX", "\nx", "dw/dxy", "zyx", "dt/dx"]


def all_key_strings() -> List[str]:
    letters = "xyzt"
    derivs = list(letters) + [a + b for a in letters for b in letters]
    chans = list("uvw") + [a + b for a in "uvw" for b in "uvw"]
    return derivs + [f"d{c}/d{k}" for c in chans for k in derivs]


def gen_keys(rng: random.Random, tier: str):
    keys = all_key_strings()
    for D in (2, 3):
        for order in (None, 1, 2):
            for k in keys + MALFORMED:
                yield {"op": "fk_from_arg", "D": D, "which": [k], "order": order}
        for order in (None, 0, 1, 2, 3):
            yield {"op": "fk_from_arg", "D": D, "which": None, "order": order}
        for _ in range(_n(tier, 40, 600)):
            pool = keys if rng.random() < 0.85 else keys + MALFORMED
            yield {"op": "fk_from_arg", "D": D, "which": [rng.choice(pool) for _ in range(rng.randint(0, 4))],
                   "order": rng.choice([None, None, 1, 2])}
        yield {"op": "fk_from_arg", "D": D, "which": keys[0], "order": None, "as_str": True}
    for D in (0, 1, 4):
        yield {"op": "fk_from_arg", "D": D, "which": ["x"], "order": None}
        yield {"op": "fk_from_arg", "D": D, "which": None, "order": None}
    for k in keys + MALFORMED:
        for op in ("fk_split", "fk_is_mixed", "sk_check", "sk_sorted", "sk_is_mixed"):
            yield {"op": op, "key": k}
    valid_flow = [k for k in keys if k.startswith("d") and len(k.split("/")[0]) == 2]
    valid_sp = [k for k in keys if not k.startswith("d")]
    for _ in range(_n(tier, 60, 800)):
        ks = [rng.choice(valid_flow) for _ in range(rng.randint(0, 5))]
        if rng.random() < 0.1:
            ks.append(rng.choice(MALFORMED))
        for op in ("fk_sorted", "fk_unique", "fk_max_order"):
            yield {"op": op, "keys": ks}
        ks = [rng.choice(valid_sp + ["X", "xY"]) for _ in range(rng.randint(0, 5))]
        if rng.random() < 0.1:
            ks.append(rng.choice(["a", "du/dx", "x y"]))
        for op in ("sk_unique", "sk_max_order"):
            yield {"op": op, "keys": ks}
    for D in range(0, 6):
        for order in range(0, 4):
            for op in ("sk_all", "sk_unmixed", "fk_all", "fk_unmixed"):
                yield {"op": op, "D": D, "order": order}
        yield {"op": "fk_divergence", "D": D}


def impl_keys(c):
    op = c["op"]
    if op == "fk_from_arg":
        w = c["which"]
        return {"list": FK.from_arg(c["D"], which=w, order=c["order"])}
    if op == "fk_split":
        ch, d = FK.split(c["key"])
        return {"text": f"{int(ch)} {d}"}
    if op == "fk_is_mixed":
        return {"text": "1" if FK.is_mixed(c["key"]) else "0"}
    if op == "sk_check":
        SK.check(c["key"])
        return {"text": "ok"}
    if op == "sk_sorted":
        return {"text": "=" + SK.sorted(c["key"])}
    if op == "sk_is_mixed":
        return {"text": "1" if SK.is_mixed(c["key"]) else "0"}
    if op == "fk_sorted":
        return {"list": FK.sorted(c["keys"])}
    if op == "fk_unique":
        return {"set": sorted(FK.unique(c["keys"]))}
    if op == "fk_max_order":
        return {"text": str(FK.max_order(c["keys"]))}
    if op == "sk_unique":
        return {"set": sorted(SK.unique(c["keys"]))}
    if op == "sk_max_order":
        return {"text": str(SK.max_order(c["keys"]))}
    if op == "sk_all":
        return {"list": SK.all(c["D"], c["order"])}
    if op == "sk_unmixed":
        return {"list": SK.unmixed(c["D"], c["order"])}
    if op == "fk_all":
        return {"list": FK.all(c["D"], order=c["order"])}
    if op == "fk_unmixed":
        return {"list": FK.unmixed(c["D"], order=c["order"])}
    if op == "fk_divergence":
        return {"list": FK.divergence(c["D"])}
    raise AssertionError(op)


def line_keys(c):
    op = c["op"]
    if op == "fk_from_arg":
        return f"dkeys.fk_from_arg {c['D']} {which_line(c['which'], c['order'])}"
    if "key" in c:
        return f"dkeys.{op} {hx(c['key'])}"
    if "keys" in c:
        return f"dkeys.{op} {len(c['keys'])} " + " ".join(hx(k) for k in c["keys"])
    if op == "fk_divergence":
        return f"dkeys.{op} {c['D']}"
    return f"dkeys.{op} {c['D']} {c['order']}"


def cmp_keys(c, r, out):
    if isinstance(r, str):
        return cmp_err(r, out)
    if out.startswith("err:") or out.startswith("bad-op"):
        return f"model {out}, impl {r}"
    if "text" in r:
        if c["op"] == "sk_sorted":
            out = "=" + unhx(out[1:])
        elif c["op"] == "fk_split":
            out = out.split()[0] + " " + unhx(out.split()[1])
        return None if r["text"] == out else f"impl {r['text']!r} vs model {out!r}"
    m = [] if out == "-" else [unhx(t) for t in out.split(",")]
    if "set" in r:
        m = sorted(m)
        return None if m == r["set"] else f"impl {r['set']} vs model {m}"
    return None if m == r["list"] else f"impl {r['list']} vs model {m}"


def _nontrivial(c):
    if c["data"]["kind"] == "constant":
        return False
    sp = c["spacing"]["value"]
    w = c.get("which")
    return (sp is not None and sp != 1.0) or w is None or (isinstance(w, list) and len(w) > 1) or bool(w and max(map(len, [w] if isinstance(w, str) else w)) > 1)


STREAMS = [
    Stream("fd", gen_fd, impl_fd, line_fd, cmp_flat, nontrivial=lambda c: True,
           doc="finite_differences: 4 modes x D x sdim x dilation {1,2} x scalar / per-batch-item spacing (incl. n < 2*dilation)"),
    Stream("sd", gen_sd, impl_sd, line_sd, cmp_dict, nontrivial=_nontrivial,
           doc="spatial_derivatives: 6 finite-difference modes x D x key subsets (which / order / None / str / duplicates / "
               "foreign letters) x spacing forms (incl. rejected shapes) on affine, quadratic and random fields"),
    Stream("sd_bspline", gen_sdb, impl_sdb, line_sdb, cmp_dict, nontrivial=_nontrivial,
           doc="spatial_derivatives(mode='bspline'): strides 1..3 (scalar / per axis) x key subsets (dictionary keyed and ordered by the request) x spacing forms; weights given"),
    Stream("flow_derivs", gen_fderivs, impl_fderivs, line_fderivs, cmp_dict, nontrivial=_nontrivial,
           doc="flow_derivatives: key parsing, grouping per component, de-duplication, default spacing 2/(n-1)"),
    Stream("flow_derivs_bspline", gen_fderivs_b, impl_fderivs, line_fderivs, cmp_dict, nontrivial=_nontrivial,
           doc="flow_derivatives(mode='bspline')"),
    Stream("flowcalc", gen_flowcalc, impl_flowcalc, line_flowcalc, cmp_flat, nontrivial=lambda c: True,
           doc="jacobian_det (with / without identity), jacobian_matrix, divergence, curl, lie_bracket: 6 modes + default x D"),
    Stream("spacing_forms", gen_spacing_forms, impl_spacing_forms, line_spacing_forms, cmp_spacing_forms, exhaustive=True,
           doc="shape rule of the spacing argument: 18 tensor shapes x N in 1..3 x D in 2..3; expanded (N, D) matrix read off a ramp"),
    Stream("keys", gen_keys, impl_keys, line_keys, cmp_keys, exhaustive=True,
           doc="FlowDerivativeKeys / SpatialDerivativeKeys string functions on every key of order <= 2 and a malformed list"),
]


# ================================================================== property oracles (implementation only)
def _tol(sp_dyadic: bool) -> float:
    return 1e-9 if sp_dyadic else 2e-6


def _exact_f32(sp: dict) -> bool:
    """True when every spacing value survives deepali's cast to float32 unchanged."""
    v = sp["value"]
    if v is None:
        return False
    flat = proto.flat(v) if isinstance(v, list) else [float(v)]
    return all(f32(x) == x for x in flat)


def gen_affine(rng: random.Random, tier: str):
    for mode in FD_MODES + [None]:
        for D in (2, 3):
            for _ in range(_n(tier, 3, 40, 12)):
                N = rng.randint(1, 3)
                shape = [rng.randint(5, 9) for _ in range(D)]
                dy = rng.random() < 0.7
                yield {"mode": mode, "D": D, "N": N, "shape": shape, "seed": rng.randrange(1 << 30),
                       "spacing": gen_spacing(rng, N, D, allow_none=True, dyadic_only=dy), "dyadic": dy}


def _region(mode, D, margin_fd=1):
    """points where the scheme is claimed exact (first derivatives of the full Jacobian)."""
    if mode in (None, "forward_central_backward", "prewitt", "sobel"):
        return (slice(None),) * D      # prewitt / sobel: replicate-padded averaging since the repair of F-17d
    return (slice(margin_fd, -margin_fd),) * D


def _affine_fields(c, count=1):
    D, N, shape = c["D"], c["N"], c["shape"]
    g = torch.Generator().manual_seed(c["seed"])
    sp_true = spacing_matrix_true(c["spacing"], N, D, shape)
    idx = index_coords(shape)
    out = []
    for _ in range(count):
        A = torch.randint(-16, 17, (N, D, D), generator=g).double() / 8
        t = torch.randint(-16, 17, (N, D), generator=g).double() / 8
        x = torch.stack([idx * torch.tensor(sp_true[b], dtype=torch.float64).reshape(D, *[1] * D) for b in range(N)], 0)
        u = torch.einsum("nij,nj...->ni...", A, x) + t.reshape(N, D, *[1] * D)
        out.append((A, t, u, x))
    return out


def spacing_matrix_true(sp: dict, N: int, D: int, shape) -> List[List[float]]:
    """the spacing the caller *means* (float64), x first."""
    v = sp["value"]
    if v is None:
        return [[2 / (n - 1) for n in reversed(shape)] for _ in range(N)]
    t = torch.atleast_1d(torch.tensor(v, dtype=torch.float64))
    if t.ndim == 1:
        t = t.unsqueeze(0)
    return t.expand(N, D).tolist()


def check_affine(c):
    D, N, shape, mode = c["D"], c["N"], c["shape"], c["mode"]
    (A, a, v, x), (B, b, u, _) = _affine_fields(c, 2)
    kw = dict(mode=mode, spacing=spacing_arg(c["spacing"]))
    mname = mode or "default"
    form = c["spacing"]["form"]
    reg = _region(mode, D)
    tol = _tol(_exact_f32(c["spacing"]))
    ones = [1] * D
    I = torch.eye(D, dtype=torch.float64)

    def bad(got, want, what, s=1.0):
        e = float((got - want).abs().max())
        lim = tol * max(1.0, s, float(want.abs().max()))
        return None if e <= lim else (f"C12:{what}:{mname}:D{D}", f"{what} mode={mname} D={D} spacing form={form}: max error {e:.3e} > {lim:.1e}")

    J = U.jacobian_matrix(v, **kw)                                   # (N, *shape, D, D)
    r = bad(J[(slice(None),) + reg], A.reshape(N, *ones, D, D), "jacobian_matrix")
    if r:
        return r
    for add in (True, False):
        det = U.jacobian_det(v, add_identity=add, **kw)
        want = torch.linalg.det(A + I if add else A).reshape(N, 1, *ones)
        r = bad(det[(slice(None), slice(None)) + reg], want, "jacobian_det" + ("_id" if add else ""))
        if r:
            return r
        Jd = U.jacobian_matrix(v, add_identity=add, **kw)
        r = bad(Jd[(slice(None),) + reg], (A + I if add else A).reshape(N, *ones, D, D), "jacobian_matrix" + ("_id" if add else ""))
        if r:
            return r
    div = U.divergence(v, **kw)
    r = bad(div[(slice(None), slice(None)) + reg], torch.einsum("nii->n", A).reshape(N, 1, *ones), "divergence")
    if r:
        return r
    cu = U.curl(v, **kw)
    if D == 2:
        want = (A[:, 1, 0] - A[:, 0, 1]).reshape(N, 1, 1, 1)
    else:
        want = torch.stack([A[:, 2, 1] - A[:, 1, 2], A[:, 0, 2] - A[:, 2, 0], A[:, 1, 0] - A[:, 0, 1]], 1).reshape(N, 3, 1, 1, 1)
    r = bad(cu[(slice(None), slice(None)) + reg], want, "curl")
    if r:
        return r
    if mode in (None, "forward_central_backward", "prewitt", "sobel"):
        d2 = U.flow_derivatives(v, order=2, **kw)
        for k2, t2 in d2.items():
            r = bad(t2, torch.zeros_like(t2), "second_affine_zero", float(v.abs().max()))
            if r:
                return r
    w = U.lie_bracket(v, u, **kw)
    Cm = A @ B - B @ A
    cv = torch.einsum("nij,nj->ni", A, b) - torch.einsum("nij,nj->ni", B, a)
    want = torch.einsum("nij,nj...->ni...", Cm, x) + cv.reshape(N, D, *ones)
    sel = (slice(None), slice(None)) + reg
    r = bad(w[sel], want[sel], "lie_bracket", float(want.abs().max()))
    if r:
        return r
    return None


def gen_quadratic(rng: random.Random, tier: str):
    for mode in FD_MODES + [None]:
        for D in (2, 3):
            for _ in range(_n(tier, 2, 30, 10)):
                N = rng.randint(1, 2)
                yield {"mode": mode, "D": D, "N": N, "shape": [rng.randint(5, 8) for _ in range(D)],
                       "seed": rng.randrange(1 << 30), "spacing": gen_spacing(rng, N, D, allow_none=False, dyadic_only=True),
                       "via": rng.choice(["spatial", "flow"])}


def check_quadratic(c):
    D, N, shape, mode = c["D"], c["N"], c["shape"], c["mode"]
    g = torch.Generator().manual_seed(c["seed"])
    sp = spacing_matrix_true(c["spacing"], N, D, shape)
    idx = index_coords(shape)
    C = D if c["via"] == "flow" else 1
    Q = torch.randint(-8, 9, (N, C, D, D), generator=g).double() / 4
    Q = Q + Q.transpose(2, 3)
    L = torch.randint(-8, 9, (N, C, D), generator=g).double() / 4
    x = torch.stack([idx * torch.tensor(sp[b], dtype=torch.float64).reshape(D, *[1] * D) for b in range(N)], 0)
    f = 0.5 * torch.einsum("ni...,ncij,nj...->nc...", x, Q, x) + torch.einsum("nci,ni...->nc...", L, x) + 0.25
    kw = dict(mode=mode, spacing=spacing_arg(c["spacing"]))
    mname = mode or "default"
    letters = "xyz"[:D]
    keys = [a + b for a in letters for b in letters]
    inner = (slice(2, -2),) * D
    if c["via"] == "spatial":
        d = spatial_derivatives(f, which=keys, **kw)
        get = lambda ch, k: d[k][:, 0]
    else:
        d = U.flow_derivatives(f, which=keys, **kw)
        get = lambda ch, k: d[f"d{'uvw'[ch]}/d{k}"][:, 0]
    scale = float(f.abs().max()) / min(1.0, min(min(r) for r in sp)) ** 2
    tol = _tol(_exact_f32(c["spacing"]))
    for ch in range(C):
        for k in keys:
            i, j = letters.index(k[0]), letters.index(k[1])
            got = get(ch, k)[(slice(None),) + inner]
            want = Q[:, ch, i, j].reshape(N, *[1] * D)
            e = float((got - want).abs().max())
            if e > tol * max(1.0, scale):
                return (f"C12:second_quadratic:{mname}:D{D}:{k}", f"second derivative {k} of a quadratic field, mode={mname}: error {e:.3e} at margin-2 interior")
            if i != j:
                other = get(ch, k[::-1])
                if not torch.equal(other, get(ch, k)):
                    return (f"C12:mixed_symmetric:{mname}:D{D}", f"d/d{k} differs from d/d{k[::-1]}")
    return None


def gen_subset(rng: random.Random, tier: str):
    for mode in FD_MODES + ["bspline"]:
        for D in (2, 3):
            for _ in range(_n(tier, 2, 30, 10)):
                N = rng.randint(1, 2)
                ks = spatial_keys(D)
                yield {"mode": mode, "D": D, "N": N, "shape": [rng.randint(5, 7) for _ in range(D)],
                       "seed": rng.randrange(1 << 30), "spacing": gen_spacing(rng, N, D),
                       "subset": rng.sample(ks, rng.randint(1, min(4, len(ks)))), "via": rng.choice(["spatial", "flow"]),
                       "stride": rng.choice([None, 2]) if mode == "bspline" else None}


def check_subset(c):
    D, N, shape, mode = c["D"], c["N"], c["shape"], c["mode"]
    g = torch.Generator().manual_seed(c["seed"])
    C = D if c["via"] == "flow" else 2
    f = torch.randint(-64, 65, (N, C, *shape), generator=g).double() / 8
    kw = dict(mode=mode, spacing=spacing_arg(c["spacing"]))
    if mode == "bspline":
        kw["stride"] = c["stride"]
    allk = spatial_keys(D)
    fn = spatial_derivatives if c["via"] == "spatial" else U.flow_derivatives
    full = fn(f, which=allk, **kw)
    part = fn(f, which=list(c["subset"]), **kw)
    names = (lambda k: [k]) if c["via"] == "spatial" else (lambda k: [f"d{ch}/d{k}" for ch in "uvw"[:D]])
    pending = None      # a missing key is reported last, so that a wrong VALUE in the same case is not shadowed by it
    for k in allk:      # every requested key must come back (checked on the full request for every case)
        for name in names(k):
            if name not in full and pending is None:
                kind = "unsorted_key_missing" if "".join(sorted(k)) != k else "key_missing"
                pending = (f"C12:{fn.__name__}:{mode}:{kind}",
                           f"{fn.__name__}(which=all keys of order <= 2, mode={mode!r}) has no entry {name!r}; keys returned: {sorted(full)}")
    for k in c["subset"]:
        for name in names(k):
            if name not in part and pending is None:
                kind = "unsorted_key_missing" if "".join(sorted(k)) != k else "key_missing"
                pending = (f"C12:{fn.__name__}:{mode}:{kind}",
                           f"{fn.__name__}(which={c['subset']}, mode={mode!r}) has no entry {name!r}; keys returned: {sorted(part)}")
            if name not in full or name not in part:
                continue
            if not torch.equal(full[name], part[name]):
                e = float((full[name] - part[name]).abs().max())
                if e > 1e-12 * max(1.0, float(full[name].abs().max())):
                    return (f"C12:subset:{mode}:D{D}", f"{name}: subset request differs from full request by {e:.3e}")
    # mixed keys are symmetric
    letters = "xyz"[:D]
    for a, b in itertools.combinations(letters, 2):
        for name1, name2 in zip(names(a + b), names(b + a)):
            if name1 in full and name2 in full and not torch.equal(full[name1], full[name2]):
                return (f"C12:mixed_symmetric:{mode}:D{D}", f"{name1} != {name2}")
    return pending


def gen_det(rng: random.Random, tier: str):
    for mode in FD_MODES + ["bspline", None]:
        for D in (2, 3):
            for _ in range(_n(tier, 2, 25, 8)):
                N = rng.randint(1, 2)
                yield {"mode": mode, "D": D, "N": N, "shape": [rng.randint(5, 7) for _ in range(D)],
                       "seed": rng.randrange(1 << 30), "spacing": gen_spacing(rng, N, D), "add": rng.random() < 0.5}


def check_det(c):
    D, N, mode = c["D"], c["N"], c["mode"]
    g = torch.Generator().manual_seed(c["seed"])
    f = torch.randint(-64, 65, (N, D, *c["shape"]), generator=g).double() / 16
    kw = dict(mode=mode, spacing=spacing_arg(c["spacing"]))
    det = U.jacobian_det(f, add_identity=c["add"], **kw)
    J = U.jacobian_matrix(f, add_identity=c["add"], **kw)
    want = torch.linalg.det(J).unsqueeze(1)
    if det.shape != want.shape:
        return (f"C12:jacobian_det:shape:{mode}", f"shape {tuple(det.shape)} vs {tuple(want.shape)}")
    e = float((det - want).abs().max())
    s = max(1.0, float(J.abs().max()) ** D)
    if e > 1e-9 * s:
        return (f"C12:jacobian_det_vs_linalg:{mode or 'default'}:D{D}", f"jacobian_det differs from torch.linalg.det(jacobian_matrix) by {e:.3e}")
    # divergence = trace, curl from the matrix entries
    Jm = U.jacobian_matrix(f, **kw)
    div = U.divergence(f, **kw)
    e = float((div[:, 0] - torch.einsum("n...ii->n...", Jm)).abs().max())
    if e > 1e-9 * s:
        return (f"C12:divergence_vs_trace:{mode or 'default'}:D{D}", f"divergence differs from trace of jacobian_matrix by {e:.3e}")
    cu = U.curl(f, **kw)
    if D == 2:
        want = (Jm[..., 1, 0] - Jm[..., 0, 1]).unsqueeze(1)
    else:
        want = torch.stack([Jm[..., 2, 1] - Jm[..., 1, 2], Jm[..., 0, 2] - Jm[..., 2, 0], Jm[..., 1, 0] - Jm[..., 0, 1]], 1)
    e = float((cu - want).abs().max())
    if e > 1e-9 * s:
        return (f"C12:curl_vs_matrix:{mode or 'default'}:D{D}", f"curl differs from the antisymmetric part of jacobian_matrix by {e:.3e}")
    return None


def gen_scaling(rng: random.Random, tier: str):
    for mode in FD_MODES + ["bspline"]:
        for D in (2, 3):
            for _ in range(_n(tier, 2, 25, 8)):
                N = rng.randint(1, 3)
                yield {"mode": mode, "D": D, "N": N, "shape": [rng.randint(5, 7) for _ in range(D)],
                       "seed": rng.randrange(1 << 30), "h": [[rng.choice(DYADIC) for _ in range(D)] for _ in range(N)],
                       "s": rng.choice(DYADIC)}


def check_scaling(c):
    """derivative with spacing h == derivative with unit spacing / Π h^order; equivalent spacing forms agree."""
    D, N, mode = c["D"], c["N"], c["mode"]
    g = torch.Generator().manual_seed(c["seed"])
    f = torch.randint(-64, 65, (N, 1, *c["shape"]), generator=g).double() / 8
    keys = spatial_keys(D)      # incl. unsorted mixed keys in every mode (B-spline branch re-keys since fix 360bf64)
    unit = spatial_derivatives(f, which=keys, mode=mode)
    h = torch.tensor(c["h"], dtype=torch.float64)
    forms = {"matND": h, "vecD": h[0], "mat1D": h[0:1], "matN1": h[:, :1], "scalar": c["s"], "vec1": [c["s"]], "mat11": [[c["s"]]]}
    for form, sp in forms.items():
        got = spatial_derivatives(f, which=keys, mode=mode, spacing=sp)
        if form == "matND":
            H = h
        elif form in ("vecD", "mat1D"):
            H = h[0:1].expand(N, D)
        elif form == "matN1":
            H = h[:, :1].expand(N, D)
        else:
            H = torch.full((N, D), c["s"], dtype=torch.float64)
        for k in keys:
            den = torch.ones(N, dtype=torch.float64)
            for ch in k:
                den = den * H[:, "xyz".index(ch)]
            want = unit[k] / den.reshape(N, 1, *[1] * D)
            e = float((got[k] - want).abs().max())
            if e > 1e-9 * max(1.0, float(want.abs().max())):
                return (f"C12:spacing:{mode}:{form}", f"d/d{k} with spacing form {form}: differs from unit-spacing value / h^order by {e:.3e}")
    return None


def _beta3(t: torch.Tensor, d: int) -> torch.Tensor:
    """cubic B-spline basis function and its derivatives, independent of deepali."""
    a = t.abs()
    s = torch.sign(t)
    if d == 0:
        return torch.where(a < 1, 2 / 3 - a ** 2 + a ** 3 / 2, torch.where(a < 2, (2 - a) ** 3 / 6, torch.zeros_like(a)))
    if d == 1:
        return s * torch.where(a < 1, -2 * a + 1.5 * a ** 2, torch.where(a < 2, -((2 - a) ** 2) / 2, torch.zeros_like(a)))
    return torch.where(a < 1, -2 + 3 * a, torch.where(a < 2, 2 - a, torch.zeros_like(a)))


def gen_bspline(rng: random.Random, tier: str):
    for D in (2, 3):
        for _ in range(_n(tier, 4, 40, 12)):
            N = rng.randint(1, 2)
            yield {"D": D, "N": N, "shape": [rng.randint(5, 7) for _ in range(D)], "seed": rng.randrange(1 << 30),
                   "stride": [rng.randint(1, 3) for _ in range(D)], "h": [[rng.choice(DYADIC) for _ in range(D)] for _ in range(N)],
                   "kind": rng.choice(["random", "affine"])}


def check_bspline(c):
    """mode='bspline' returns the analytic derivatives of the spline with the given coefficients."""
    D, N, shape = c["D"], c["N"], c["shape"]
    g = torch.Generator().manual_seed(c["seed"])
    if c["kind"] == "random":
        coef = torch.randint(-64, 65, (N, 1, *shape), generator=g).double() / 8
    else:
        idx = index_coords(shape)
        a = torch.randint(-16, 17, (D,), generator=g).double() / 8
        coef = (sum(a[j] * idx[j] for j in range(D)) + 0.5).reshape(1, 1, *shape).expand(N, 1, *shape).clone()
    h = torch.tensor(c["h"], dtype=torch.float64)
    keys = spatial_keys(D)
    got = spatial_derivatives(coef, which=keys, mode="bspline", spacing=h, stride=tuple(c["stride"]))
    for k in keys:
        order = [k.count(ch) for ch in "xyz"[:D]]          # x first
        val = coef[:, 0]
        # contract axis by axis (tensor axis D-1-d <-> spatial dim d)
        for d in range(D):
            n, s = shape[D - 1 - d], c["stride"][d]
            pos = 1 + torch.arange(s * (n - 3), dtype=torch.float64) / s            # in control-point index units
            W = _beta3(pos.reshape(-1, 1) - torch.arange(n, dtype=torch.float64).reshape(1, -1), order[d])   # (out, n)
            val = torch.movedim(torch.tensordot(val, W, dims=([1 + (D - 1 - d)], [1])), -1, 1 + (D - 1 - d))
        den = torch.ones(N, dtype=torch.float64)
        for d in range(D):
            den = den * h[:, d] ** order[d]
        want = val / den.reshape(N, *[1] * D)
        if got[k][:, 0].shape != want.shape:
            return (f"C12:bspline:shape:{k}", f"{tuple(got[k].shape)} vs {tuple(want.shape)}")
        e = float((got[k][:, 0] - want).abs().max())
        if e > 1e-9 * max(1.0, float(want.abs().max())):
            return (f"C12:bspline:analytic:D{D}:{k}", f"mode='bspline' d/d{k}: differs from the analytic spline derivative by {e:.3e}")
        if c["kind"] == "affine" and len(k) == 1:
            j = "xyz".index(k)
            e = float((got[k][:, 0] - (a[j] / h[:, j]).reshape(N, *[1] * D)).abs().max())
            if e > 1e-9 * 20:
                return (f"C12:bspline:affine:D{D}:{k}", f"mode='bspline' on affine coefficients: error {e:.3e}")
    return None


# ---------------------------------------------------------------- oracle: other doors into the same calculus
def gen_entry(rng: random.Random, tier: str):
    for mode in FD_MODES + [None]:
        for D in (2, 3):
            for _ in range(_n(tier, 2, 16, 6)):
                N = rng.randint(1, 3)
                yield {"mode": mode, "D": D, "N": N, "shape": [rng.randint(5, 8) for _ in range(D)],
                       "seed": rng.randrange(1 << 30), "idtype": rng.choice(["int32", "int64"]),
                       "h": [[rng.choice([0.5, 0.75, 1.5, 2.5, 0.3]) for _ in range(D)] for _ in range(N)],
                       "hform": rng.choice(["scalar", "vecD", "matND", "none"]),
                       "axes": rng.choice(["grid", "world", "cube", "cube_corners"])}


def check_entry(c):
    """(a) integer-valued affine fields stored in an INTEGER dtype: every derivative function returns what it returns
    for the same numbers stored as float32 (the spacing is a physical length, not a count, whatever the data type);
    (b) FlowFields.curl / FlowField.curl / modules.Curl = analytic curl of an affine field given in the field's axes."""
    from deepali.core.grid import Axes, Grid
    from deepali.data import FlowFields
    from deepali.modules import Curl
    D, N, shape, mode = c["D"], c["N"], c["shape"], c["mode"]
    mname = mode or "default"
    g = torch.Generator().manual_seed(c["seed"])
    A = torch.randint(-3, 4, (N, D, D), generator=g)
    t = torch.randint(-5, 6, (N, D), generator=g)
    idx = index_coords(shape).long()                                 # (D, *shape), x first
    ui = torch.einsum("nij,j...->ni...", A, idx) + t.reshape(N, D, *[1] * D)
    ui = ui.to(getattr(torch, c["idtype"]))
    uf = ui.float()
    h = c["h"]
    sp = {"scalar": h[0][0], "vecD": h[0], "matND": h, "none": None}[c["hform"]]
    kw = dict(mode=mode, spacing=sp)

    def same(name, a, b):
        if isinstance(a, dict):
            if set(a) != set(b):
                return (f"C12:int-dtype:{name}:{mname}", f"{name}: keys {sorted(a)} for integer data, {sorted(b)} for float data")
            for k in a:
                r = same(name, a[k], b[k])
                if r:
                    return r
            return None
        if a.shape != b.shape or not torch.isfinite(a.double()).all() or \
                float((a.double() - b.double()).abs().max()) > 1e-5 * max(1.0, float(b.abs().max())):
            return (f"C12:int-dtype:{name}:{mname}",
                    f"{name}(mode={mname}, spacing={sp}) of {c['idtype']} data differs from the same data as float32 by "
                    f"{float((a.double() - b.double()).abs().max()) if a.shape == b.shape else 'shape'}")
        return None

    for name, fn in (("jacobian_matrix", U.jacobian_matrix), ("divergence", U.divergence), ("curl", U.curl),
                     ("flow_derivatives", lambda x, **k: U.flow_derivatives(x, order=1, **k)),
                     ("spatial_derivatives", lambda x, **k: spatial_derivatives(x, order=1, **k))):
        r = same(name, fn(ui, **kw), fn(uf, **kw))
        if r:
            return r
    if mode in FD4:
        for ax in range(D):
            for spv in ([h[0][ax]], [h[b][ax] for b in range(N)]):
                a_ = finite_differences(ui, ax, mode=mode, spacing=spv[0] if len(spv) == 1 else spv)
                b_ = finite_differences(uf, ax, mode=mode, spacing=spv[0] if len(spv) == 1 else spv)
                r = same("finite_differences", a_, b_)
                if r:
                    return r
    # (b) data-type / module doors to curl: axis-aligned grids with per-item spacing; v = A x + t with x the grid point
    # coordinates in the field's own axes, so curl v = (A32 - A23, A13 - A31, A21 - A12) whatever the axes are
    axes = Axes(c["axes"])
    grids = [Grid(size=list(reversed(shape)), spacing=h[b], align_corners=(axes is Axes.CUBE_CORNERS)) for b in range(N)]
    step = {"grid": lambda b: [1.0] * D, "world": lambda b: h[b],
            "cube": lambda b: [2 / n for n in reversed(shape)],
            "cube_corners": lambda b: [2 / (n - 1) for n in reversed(shape)]}[c["axes"]]
    Af = A.double() / 2
    x = torch.stack([index_coords(shape) * torch.tensor(step(b), dtype=torch.float64).reshape(D, *[1] * D) for b in range(N)])
    v = (torch.einsum("nij,nj...->ni...", Af, x) + t.double().reshape(N, D, *[1] * D)).float()
    if D == 2:
        want = (Af[:, 1, 0] - Af[:, 0, 1]).reshape(N, 1, 1, 1)
    else:
        want = torch.stack([Af[:, 2, 1] - Af[:, 1, 2], Af[:, 0, 2] - Af[:, 2, 0], Af[:, 1, 0] - Af[:, 0, 1]], 1).reshape(N, 3, 1, 1, 1)
    reg = (slice(None), slice(None)) + _region(mode, D)
    tolc = 2e-4 * max(1.0, float(v.abs().max()) / min(min(step(b)) for b in range(N)))
    try:
        batch = FlowFields(v, grids, axes)
        cu = batch.curl(mode=mode)
        one = batch[N - 1].curl(mode=mode)
    except Exception as e:
        return (f"C12:FlowFields.curl:raises:D{D}", f"FlowFields.curl(mode={mname}) of a {D}-D flow field batch raises "
                f"{type(e).__name__}: {str(e)[:90]}")
    if type(cu).__name__ != "ImageBatch" or list(cu.shape) != [N, want.shape[1]] + shape or \
            any(a != b for a, b in zip(cu.grids(), grids)):
        return (f"C12:FlowFields.curl:type:D{D}", f"result {type(cu).__name__} of shape {list(cu.shape)}")
    e = float((cu.tensor().double()[reg] - want).abs().max())
    if e > tolc:
        return (f"C12:FlowFields.curl:value:{c['axes']}:{mname}", f"FlowFields.curl of an affine field in {c['axes']} axes: error {e:.3e}")
    e = float((one.tensor().double().unsqueeze(0)[reg] - want[N - 1:N]).abs().max())
    if type(one).__name__ != "Image" or e > tolc:
        return (f"C12:FlowField.curl:value:{c['axes']}:{mname}", f"FlowField.curl: {type(one).__name__}, error {e:.3e}")
    m = Curl(mode=mode, spacing=torch.tensor([step(b) for b in range(N)], dtype=torch.float64))
    e = float((m(v).double()[reg] - want).abs().max())
    if e > tolc:
        return (f"C12:modules.Curl:value:{mname}", f"modules.Curl differs from the analytic curl by {e:.3e}")
    return None


ORACLES = [
    Oracle("affine", gen_affine, check_affine, doc="Jacobian / determinant (+-identity) / divergence / curl / Lie bracket of affine "
           "fields = analytic values; every point for forward_central_backward / prewitt / sobel (and second derivatives of the "
           "affine field = 0 at every point there), margin-1 interior for forward / backward / central; "
           "all spacing forms"),
    Oracle("quadratic", gen_quadratic, check_quadratic, doc="second derivatives of quadratic fields exact at the margin-2 interior; "
           "mixed derivatives symmetric"),
    Oracle("subset", gen_subset, check_subset, doc="a key's value does not depend on the requested key set; every requested key "
           "is returned; mixed keys symmetric (all modes incl. bspline, spatial_derivatives and flow_derivatives)"),
    Oracle("det", gen_det, check_det, doc="jacobian_det = torch.linalg.det(jacobian_matrix); divergence = trace; curl = antisymmetric part"),
    Oracle("scaling", gen_scaling, check_scaling, doc="spacing division: value(h) = value(1) / prod h^order for scalar / per-axis / "
           "per-batch-item forms"),
    Oracle("bspline", gen_bspline, check_bspline, doc="mode='bspline' = analytic derivatives of the cubic spline (independent basis function)"),
    Oracle("entry_points", gen_entry, check_entry, doc="side doors: integer-dtype fields give the values of the same numbers "
           "stored as float32 (jacobian_matrix, divergence, curl, flow_/spatial_derivatives, finite_differences with fractional "
           "spacings); FlowFields.curl / FlowField.curl / modules.Curl = analytic curl of affine fields in grid / world / cube axes"),
]


def search_cases(disagreements: List[dict]):
    """Disagreeing correspondence cases become oracle cases with the same mode / D / shape / spacing."""
    extra: Dict[str, List[dict]] = {"affine": [], "quadratic": [], "subset": [], "det": [], "scaling": [], "bspline": [],
                                    "entry_points": []}
    for dsg in disagreements[:40]:
        c = dsg["case"]
        if "shape" not in c or "D" not in c or len(c["shape"]) != c["D"] or min(c["shape"]) < 5:
            continue
        mode = c.get("mode")
        sp = c.get("spacing") or {"form": "scalar", "value": 1.0, "tensor": False}
        if sp.get("form") == "bad":
            continue
        N, D, shape = c.get("N", 1), c["D"], c["shape"]
        seed = c.get("data", {}).get("seed", 1)
        if mode == "bspline":
            st = c.get("stride")
            extra["bspline"].append({"D": D, "N": N, "shape": shape, "seed": seed,
                                     "stride": [st or 1] * D if not isinstance(st, list) else st,
                                     "h": [[1.5, 0.5, 2.0][:D]] * N, "kind": "random"})
            extra["subset"].append({"mode": mode, "D": D, "N": N, "shape": shape, "seed": seed, "spacing": sp,
                                    "subset": spatial_keys(D)[:4], "via": "spatial", "stride": None})
            continue
        base = {"mode": mode, "D": D, "N": N, "shape": shape, "seed": seed, "spacing": sp}
        extra["affine"].append(dict(base, dyadic=False))
        if sp["value"] is not None:
            extra["quadratic"].append(dict(base, via="spatial"))
            extra["quadratic"].append(dict(base, via="flow"))
        extra["subset"].append(dict(base, subset=spatial_keys(D)[:4], via="flow", stride=None))
        extra["det"].append(dict(base, add=True))
        if mode is not None:
            extra["scaling"].append({"mode": mode, "D": D, "N": N, "shape": shape, "seed": seed,
                                     "h": [[1.5, 0.5, 2.0][:D]] * N, "s": 0.75})
    return extra
