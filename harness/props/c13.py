"""C13 — composition of flows and velocity fields obeys its algebra."""
from __future__ import annotations

import math
import random
from typing import List

import numpy as np
import torch

from deepali.core import functional as U

from lib import proto
from lib.core import Oracle, Stream, close
from props.prim import PRIM_STREAMS
from props.c11 import (affine_field, closed_form, invariant_generator, lattice, random_field, smooth_field)

PROP = "C13"
ASSUMPTIONS = [
    "F.grid_sample semantics are modelled (Model/TorchPrim.lean) and validated against torch by the prim.* streams",
    "Lie-bracket theorems hold for any additive/homogeneous derivative stencil; the concrete stencils are the subject of C12",
    "BCH truncation error not growing with the order and the logv(expv v) bound are approximation statements about "
    "smooth fields: explored numerically only (reported under exploration)",
    "compose_flows / logv with batch size > 1 raise in the unchanged code (in-place add cannot broadcast); the property "
    "quantifier does not include batch sizes, so this is an observation, not a finding",
]
TRUSTED = ["Model/FlowOps.lean hand transcription of core/flow.py compose_flows, compose_svfs, lie_bracket"]


def _n(tier, quick, thorough, search=None):
    return {"quick": quick, "thorough": thorough, "search": search or quick * 3}[tier]


# ---------------------------------------------------------------- stream: compose_flows on small fields
def gen_compose(rng: random.Random, tier: str):
    for _ in range(_n(tier, 40, 800)):
        d = rng.choice([2, 2, 3])
        shape = [rng.randint(2, 4 if d == 3 else 6) for _ in range(d)]
        yield {"d": d, "shape": shape, "ac": rng.random() < 0.5, "seed": rng.randrange(1 << 30),
               "amp": rng.choice([0.1, 0.5, 1.5]), "zero": rng.choice([None, None, None, "u", "v"])}


def _uv(c):
    u = random_field(c["seed"], c["d"], c["shape"], c["amp"])
    v = random_field(c["seed"] + 7, c["d"], c["shape"], c["amp"])
    if c["zero"] == "u":
        u = torch.zeros_like(u)
    if c["zero"] == "v":
        v = torch.zeros_like(v)
    return u, v


def impl_compose(c):
    u, v = _uv(c)
    # both documented call forms: `align_corners` by keyword and as the third positional argument
    if c["seed"] % 2:
        w = U.compose_flows(u.unsqueeze(0), v.unsqueeze(0), c["ac"])
    else:
        w = U.compose_flows(u.unsqueeze(0), v.unsqueeze(0), align_corners=c["ac"])
    return proto.flat(w[0])


def line_compose(c):
    u, v = _uv(c)
    size = " ".join(str(n) for n in reversed(c["shape"]))
    return f"flow.compose {c['d']} {1 if c['ac'] else 0} {size} {proto.vec(proto.flat(u))} {proto.vec(proto.flat(v))}"


def cmp_values(tol):
    def cmp(c, r, out):
        if isinstance(r, str):
            return f"impl {r}; model {out[:60]}"
        if proto.is_error(out):
            return f"model error {out}"
        return close(r, proto.parse_vec(out), tol)
    return cmp


# ---------------------------------------------------------------- stream: compose_svfs (BCH) over Q
def gen_bch_stream(rng: random.Random, tier: str):
    for _ in range(_n(tier, 6, 60)):
        d = rng.choice([2, 2, 3])
        shape = [5] * d if d == 3 else [rng.randint(5, 6) for _ in range(d)]
        yield {"d": d, "shape": shape, "seed": rng.randrange(1 << 30), "terms": rng.randint(0, 5)}


def _bch_uv(c):
    return (random_field(c["seed"], c["d"], c["shape"], 0.25, denom=16),
            random_field(c["seed"] + 11, c["d"], c["shape"], 0.25, denom=16))


def impl_bch_stream(c):
    u, v = _bch_uv(c)
    w = U.compose_svfs(u.unsqueeze(0), v.unsqueeze(0), bch_terms=c["terms"])
    return proto.flat(w[0])


def line_bch_stream(c):
    """brackets by the C12 model (`flowcalc.lie`, default stencil and spacing of lie_bracket), combination by
    Model/FlowOps.bchCombine"""
    from lib import lean

    u, v = _bch_uv(c)
    d = c["d"]
    size = " ".join(str(n) for n in reversed(c["shape"]))
    head = f"forward_central_backward {d} {size} 1 0 none"

    def lie(a, b):
        out = lean.eval_lines([f"flowcalc.lie {head} {proto.vec(proto.flat(a))} {proto.vec(proto.flat(b))}"])[0]
        if proto.is_error(out):
            raise RuntimeError("flowcalc.lie: " + out)
        return out

    def field(tokens):
        return tokens

    u_t, v_t = proto.vec(proto.flat(u)), proto.vec(proto.flat(v))
    # model outputs are reused verbatim as the next inputs (exact rationals)
    def lie_tok(a_tok, b_tok):
        out = lean.eval_lines([f"flowcalc.lie {head} {a_tok} {b_tok}"])[0]
        if proto.is_error(out):
            raise RuntimeError("flowcalc.lie: " + out)
        return out

    vu = lie_tok(v_t, u_t)
    vvu = lie_tok(v_t, vu)
    uvu = lie_tok(u_t, vu)
    uvvu = lie_tok(u_t, vvu)
    return f"flow.bch {d} {size} {c['terms']} {u_t} {v_t} {vu} {vvu} {uvu} {uvvu}"


STREAMS = PRIM_STREAMS + [
    Stream("compose_flows", gen_compose, impl_compose, line_compose, cmp_values(1e-9),
           nontrivial=lambda c: c["zero"] is None,
           doc="core.flow.compose_flows on small random fields (incl. zero fields, large displacements that clamp), both "
               "conventions, vs the model over Q"),
    Stream("compose_svfs", gen_bch_stream, impl_bch_stream, line_bch_stream, cmp_values(1e-8),
           nontrivial=lambda c: c["terms"] > 0,
           doc="core.flow.compose_svfs (bch_terms 0..5) on random fields vs the model: Lie brackets by the C12 stencil model, "
               "BCH combination by Model/FlowOps.bchCombine"),
]


# ---------------------------------------------------------------- oracles
def gen_affine(rng: random.Random, tier: str):
    for _ in range(_n(tier, 40, 1200, 150)):
        d = rng.choice([2, 3])
        shape = [rng.randint(2, 9) for _ in range(d)]
        ac = rng.random() < 0.5
        Hu, hu = invariant_generator(rng, d, shape, ac)
        Hv, hv = invariant_generator(rng, d, shape, ac)
        yield {"d": d, "shape": shape, "ac": ac, "Hu": Hu, "hu": hu, "Hv": Hv, "hv": hv,
               "dtype": rng.choice(["float32", "float64"]), "pos": rng.random() < 0.5}


def check_affine(c):
    dt = torch.float32 if c["dtype"] == "float32" else torch.float64
    u = affine_field(c["Hu"], c["hu"], c["shape"], c["ac"], dt).unsqueeze(0)
    v = affine_field(c["Hv"], c["hv"], c["shape"], c["ac"], dt).unsqueeze(0)
    # both documented call forms: `align_corners` by keyword and as the third positional argument
    w = (U.compose_flows(u, v, c["ac"]) if c.get("pos") else U.compose_flows(u, v, align_corners=c["ac"]))[0].double()
    x = lattice(c["shape"], c["ac"]).numpy()
    d = c["d"]
    Mu, Mv = np.eye(d) + np.array(c["Hu"]), np.eye(d) + np.array(c["Hv"])
    y = x @ Mu.T + np.array(c["hu"])
    z = y @ Mv.T + np.array(c["hv"])
    want = torch.from_numpy(z - x).movedim(-1, 0)
    tol = 2e-5 if c["dtype"] == "float32" else 1e-11
    err = (w - want).abs().max().item()
    if err > tol:
        return (f"C13:compose:affine:{'ac' if c['ac'] else 'no-ac'}", f"max |compose_flows - (φv∘φu − id)| = {err:.3e}")
    zero = torch.zeros_like(u)
    if (U.compose_flows(zero, v, align_corners=c["ac"]) - v).abs().max() > tol:
        return ("C13:compose:zero-left", "compose_flows(0, v) != v")
    if (U.compose_flows(u, zero, align_corners=c["ac"]) - u).abs().max() > 0:
        return ("C13:compose:zero-right", "compose_flows(u, 0) != u")
    return None


def gen_bracket(rng: random.Random, tier: str):
    for _ in range(_n(tier, 30, 600, 100)):
        d = rng.choice([2, 3])
        shape = [rng.randint(5, 8) for _ in range(d)]
        yield {"d": d, "shape": shape, "seed": rng.randrange(1 << 30),
               "mode": rng.choice([None, "central", "forward_central_backward", "sobel"]),
               "a": round(rng.uniform(-2, 2), 3), "b": round(rng.uniform(-2, 2), 3),
               # Gaussian pre-smoothing of the differentiated field (logv's default is sigma=1): still one linear
               # derivative family D for both arguments, so C13_bracket_* apply
               "sigma": rng.choice([None, None, 0.7, 1.0]),
               # explicit grid spacing (scalar or per axis), forwarded to BOTH Jacobians: still one derivative family
               "spacing": rng.choice([None, None, 0.5, "per-axis"])}


def _spacing_kw(c):
    sp = c.get("spacing")
    if sp is None:
        return {}
    return {"spacing": tuple(0.25 * (k + 1) for k in range(c["d"])) if sp == "per-axis" else sp}


def check_bracket(c):
    f = lambda k: random_field(c["seed"] + k, c["d"], c["shape"], 1.0).unsqueeze(0)
    v, w, u = f(0), f(1), f(2)
    kw = dict(mode=c["mode"]) if c["mode"] else {}
    if c.get("sigma"):
        kw["sigma"] = c["sigma"]
    kw.update(_spacing_kw(c))
    lb = lambda p, q: U.lie_bracket(p, q, **kw)
    a, b = c["a"], c["b"]
    tol = 1e-9
    if (lb(v, u) + lb(u, v)).abs().max() > tol:
        return ("C13:bracket:antisymmetric", "[v,u] != -[u,v]")
    if (lb(a * v + b * w, u) - (a * lb(v, u) + b * lb(w, u))).abs().max() > tol:
        return ("C13:bracket:bilinear-left", "[a v + b w, u] != a[v,u] + b[w,u]")
    if (lb(u, a * v + b * w) - (a * lb(u, v) + b * lb(u, w))).abs().max() > tol:
        return ("C13:bracket:bilinear-right", "[u, a v + b w] != a[u,v] + b[u,w]")
    if lb(v, v).abs().max() > tol:
        return ("C13:bracket:self", "[v,v] != 0")
    return None


def gen_bch(rng: random.Random, tier: str):
    for _ in range(_n(tier, 20, 400, 60)):
        d = rng.choice([2, 3])
        shape = [rng.randint(5, 8) for _ in range(d)]
        yield {"d": d, "shape": shape, "seed": rng.randrange(1 << 30), "kind": rng.choice(["const", "parallel", "same-axis"]),
               "sigma": rng.choice([None, None, 0.7, 1.0]), "spacing": rng.choice([None, None, 0.5, "per-axis"]),
               "cu": [round(rng.uniform(-0.2, 0.2), 3) for _ in range(d)], "cv": [round(rng.uniform(-0.2, 0.2), 3) for _ in range(d)]}


def check_bch(c):
    """commuting pairs: constant fields; v and a multiple of v; fields depending on / pointing along disjoint axes"""
    d, shape = c["d"], c["shape"]
    if c["kind"] == "const":
        u = torch.tensor(c["cu"], dtype=torch.float64).reshape((1, d) + (1,) * d).expand((1, d) + tuple(shape)).clone()
        v = torch.tensor(c["cv"], dtype=torch.float64).reshape((1, d) + (1,) * d).expand((1, d) + tuple(shape)).clone()
    elif c["kind"] == "parallel":
        v = random_field(c["seed"], d, shape, 0.2).unsqueeze(0)
        u = v * c["cu"][0] * 5
    else:
        # u = f(y) e_x, v = g(y) e_x commute (both point along x and depend on y only)
        x = lattice(shape, True)
        u = torch.zeros((1, d) + tuple(shape), dtype=torch.float64)
        v = torch.zeros((1, d) + tuple(shape), dtype=torch.float64)
        u[0, 0] = c["cu"][0] * torch.sin(2 * x[..., 1])
        v[0, 0] = c["cv"][0] * torch.cos(3 * x[..., 1])
    kw = {"sigma": c["sigma"]} if c.get("sigma") else {}
    kw.update(_spacing_kw(c))
    if U.lie_bracket(v, u, **kw).abs().max() > 1e-12:
        return None  # not exactly commuting under this stencil: outside the hypothesis
    for k in range(0, 6):
        w = U.compose_svfs(u, v, bch_terms=k, **kw)
        if (w - (v + u)).abs().max() > 1e-12:
            return (f"C13:bch:commuting:terms={k}", f"compose_svfs of commuting fields differs from v+u by {(w - (v + u)).abs().max():.3e}")
    return None


def gen_bch_order(rng: random.Random, tier: str):
    for _ in range(_n(tier, 6, 100, 18)):
        d = rng.choice([2, 3])
        yield {"d": d, "n": 24 if d == 2 else 12, "seed": rng.randrange(1 << 30), "ac": True}


def check_bch_order(c):
    """exploration: the BCH approximation of log(exp(v)∘exp(u)) does not get worse with more terms"""
    d, n = c["d"], c["n"]
    u = smooth_field(d, n, True, 1, c["seed"], 0.4).unsqueeze(0)
    v = smooth_field(d, n, True, 2, c["seed"] + 3, 0.4).unsqueeze(0)
    target = U.compose_flows(U.expv(u, steps=6), U.expv(v, steps=6))
    errs = []
    for k in range(0, 6):
        w = U.compose_svfs(u, v, bch_terms=k, mode="central")
        errs.append((U.expv(w, steps=6) - target).abs().max().item())
    per_sample = 2.0 / (n - 1)
    worst_later = max(errs[1:])
    if worst_later > errs[0] * 1.5 + 0.02 * per_sample:
        return ("C13:bch:error-grows", f"errors (cube units) for bch_terms 0..5: {[f'{e:.2e}' for e in errs]}")
    return None


def gen_logv(rng: random.Random, tier: str):
    for _ in range(_n(tier, 6, 100, 18)):
        d = rng.choice([2, 3])
        yield {"d": d, "n": 24 if d == 2 else 12, "seed": rng.randrange(1 << 30)}


def check_logv(c):
    """exploration: logv(expv v) ≈ v within the bound the repository's own test states (max error < 20% of the
    amplitude: 0.02 for amplitude 0.1), + 0.01 sample, for BOTH conventions"""
    res = {}
    for ac in (True, False):
        v = smooth_field(c["d"], c["n"], ac, 1, c["seed"], 0.3).unsqueeze(0)
        w = U.logv(U.expv(v, steps=5, align_corners=ac), num_iters=5, exp_steps=5, align_corners=ac)
        per_sample = 2.0 / (c["n"] - 1 if ac else c["n"])
        res[ac] = ((w - v).abs().max() / per_sample).item()
    bound = 0.2 * 0.3 + 0.01
    for ac, e in res.items():
        if e > bound:
            return (f"C13:logv:bound:{'ac' if ac else 'no-ac'}", f"|logv(expv v) − v| = {e:.3e} samples (bound {bound:.3e}); "
                    f"other convention {res[not ac]:.3e}")
    return None


ORACLES = [
    Oracle("affine", gen_affine, check_affine, doc="compose_flows exact for invariant affine pairs; zero field two-sided identity"),
    Oracle("bracket", gen_bracket, check_bracket, doc="lie_bracket antisymmetric and bilinear (random fields, several stencils)"),
    Oracle("bch_commuting", gen_bch, check_bch, doc="compose_svfs = v+u for commuting pairs at every bch_terms in 0..5"),
    Oracle("bch_order", gen_bch_order, check_bch_order, doc="exploration: BCH error does not grow with truncation order"),
    Oracle("logv", gen_logv, check_logv, doc="exploration: logv(expv v) ≈ v within a bound, both conventions"),
]


def search_cases(disagreements: List[dict]):
    extra = {"affine": []}
    for dsg in disagreements[:30]:
        c = dsg["case"]
        if "shape" in c and "ac" in c:
            rng = random.Random(c.get("seed", 0))
            d = c["d"]
            shape = [max(2, n) for n in c["shape"]]
            Hu, hu = invariant_generator(rng, d, shape, c["ac"])
            Hv, hv = invariant_generator(rng, d, shape, c["ac"])
            extra["affine"].append({"d": d, "shape": shape, "ac": c["ac"], "Hu": Hu, "hu": hu, "Hv": Hv, "hv": hv,
                                    "dtype": "float64"})
    return extra
