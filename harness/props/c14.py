"""C14 — cubic B-spline evaluation, derivatives and subdivision are exact."""
from __future__ import annotations

import itertools
import random
from fractions import Fraction
from typing import List, Optional

import torch

from deepali.core import bspline as B
from deepali.core import kernels as K
from deepali.core.grid import Grid
from deepali.core.flow import flow_derivatives
from deepali.core.image import spatial_derivatives
from deepali.spatial.bspline import FreeFormDeformation

from lib import gen, proto
from lib.core import Oracle, Stream, close

PROP = "C14"
# float32 paths: ≤ 4 taps per axis × 3 axes, weights ≤ 3 in magnitude, coefficients ≤ 4:
# ≈ 100 flops × 6e-8 ≈ 6e-6 relative to the largest operand; every modelled defect (a wrong
# weight, mask, offset or control size) changes results by ≥ 1e-2.
RTOL32 = 2e-5
RTOL64 = 1e-12
RTOL_W32 = 4e-6   # weight tables themselves (a dozen float32 flops, values ≤ 3)
MAXS = 16

ASSUMPTIONS = [
    "floats are the exact rationals they denote; IEEE rounding is covered by the correspondence tolerance "
    f"(rtol {RTOL32} for float32 data or the float32 dense kernel, {RTOL64} for float64) relative to "
    "max(1, |coefficients|, |result|), never by a theorem",
    "torch.arange(0, 1, 1/s) has exactly s entries k/s (true for s in [1,16], checked by the weight stream; "
    "it has s+1 entries for s = 49, 98, 103, 107, ... which are outside the property's stride range)",
    "F.conv{1,2,3}d (groups), F.conv_transpose1d, reshape/transpose/flatten, slicing, narrow behave as documented "
    "(modelled in Model/BSpline.lean: evalWeights, convTranspose1d, Tensor.mapAxis)",
    "strides in [1,16], derivative orders 0..3 (order >= 4 gives zero weights), D in {1,2,3}; the FFD image grid has "
    "align_corners=True (required by BSplineTransform); control index j sits at image index (j-1)*stride",
]
TRUSTED = ["model file Deepali/Model/BSpline.lean is a hand transcription of core/bspline.py, core/kernels.py "
           "(cubic_bspline_value, cubic_bspline1d), core/image.py (conv/conv1d transposed path, spatial_derivatives "
           "mode='bspline'), spatial/bspline.py (data_shape, grid_, evaluate_spline); tied to /repo by the streams below"]
RULE = ("finite tables enumerated exhaustively on every run: strides 1..16 x derivative orders 0..4 x float32/float64 "
        "(weight tables, dense kernels), sizes 1..40 x strides 1..16 (control grid size; 1-D evaluation by both "
        "algorithms with random/linear coefficients); N-D evaluation, FFD update, grid_ refinement, subdivision and "
        "derivative modes drawn from one PRNG seeded by VERIF_SEED (D in {1,2,3}, sizes 1..9, per-axis strides 1..6, "
        "N,C in {1,2}); coefficients are multiples of 1/64 generated from a per-case seed; distinct after JSON "
        "canonicalisation; non-trivial = stride > 1 on some axis or derivative order > 0 or more than 4 coefficients")


def _n(tier, quick, thorough, search=None):
    return {"quick": quick, "thorough": thorough, "search": search or max(quick, thorough // 4)}[tier]


DT = {"float32": torch.float32, "float64": torch.float64}


# ------------------------------------------------------------------ helpers
def ctrl(m: int, s: int) -> int:
    """reference control size, stated independently: smallest n with (n - 3) * s >= m."""
    return -(-m // s) + 3


def coeffs(shape: List[int], cseed: int, kind: str, dtype: str = "float32") -> torch.Tensor:
    """deterministic coefficient tensor (N, C, ..., X); all values are multiples of 1/64 (exact in float32)."""
    r = random.Random(cseed)
    n = 1
    for v in shape:
        n *= v
    if kind == "random":
        vals = [r.randint(-256, 256) / 64.0 for _ in range(n)]
        t = torch.tensor(vals, dtype=DT[dtype]).reshape(shape)
    else:  # linear in the control index per axis, different per (batch, channel)
        t = torch.zeros(shape, dtype=DT[dtype])
        for b in range(shape[0]):
            for ch in range(shape[1]):
                a = r.randint(-64, 64) / 16.0
                sl = torch.full(shape[2:], a, dtype=DT[dtype])
                for ax in range(len(shape) - 2):
                    bcoef = r.randint(-32, 32) / 16.0
                    idx = torch.arange(shape[2 + ax], dtype=DT[dtype])
                    view = [1] * (len(shape) - 2)
                    view[ax] = -1
                    sl = sl + bcoef * idx.reshape(view)
                t[b, ch] = sl
    return t


def tensor_line(t: torch.Tensor) -> str:
    vals = t.detach().double().flatten().tolist()
    head = " ".join(str(v) for v in [t.ndim] + list(t.shape))
    if not vals:
        return head
    return head + " " + " ".join(proto.fr(v) for v in vals)


def parse_tensor(out: str):
    toks = out.split()
    nd = int(toks[0])
    shape = [int(v) for v in toks[1:1 + nd]]
    data = [Fraction(v) for v in toks[1 + nd:]]
    return shape, data


def cmp_tensor(r, out, rtol, scale=1.0):
    """impl result {shape, values} or 'err:…' against a model tensor line or 'err:…'."""
    if isinstance(r, str):
        if proto.is_error(out) and r.split(":")[1] == out.split(":")[1]:
            return None
        return f"impl raised {r}, model gave {out[:60]}"
    if proto.is_error(out):
        return f"model error {out}, impl returned shape {r['shape']}"
    shape, data = parse_tensor(out)
    if shape != r["shape"]:
        return f"shape: impl {r['shape']} vs model {shape}"
    return close(r["values"], data, rtol, scale)


def res(t: torch.Tensor):
    return {"shape": list(t.shape), "values": proto.flat(t)}


def _rtol(c) -> float:
    return RTOL64 if (c.get("dtype") == "float64" and not c.get("transpose")) else RTOL32


# ------------------------------------------------------------------ stream: weight tables (exhaustive)
def gen_weights(rng, tier):
    for s in range(1, MAXS + 1):
        for d in range(0, 5):
            for dtype in ("float32", "float64", "default"):
                forms = ["scalar", "seq"] + (["degree3"] if d == 0 else [])
                for form in forms:
                    yield {"s": s, "d": d, "dtype": dtype, "form": form}


def impl_weights(c):
    dt = DT.get(c["dtype"])
    s, d = c["s"], c["d"]
    if c["form"] == "scalar":
        w = B.cubic_bspline_interpolation_weights(s, d, dtype=dt)
    elif c["form"] == "seq":
        ws = B.cubic_bspline_interpolation_weights([s, 1, s], [d, 0, d], dtype=dt)
        if len(ws) != 3 or ws[0] is not ws[2]:
            return "err:glue:sequence form does not return one table per (stride, derivative) pair"
        w = ws[0]
    else:
        w = B.bspline_interpolation_weights(3, s, dtype=dt)
    return {"shape": list(w.shape), "values": proto.flat(w), "dtype": str(w.dtype)}


def line_weights(c):
    return f"bspline.weights {c['s']} {c['d']}"


def cmp_weights(c, r, out):
    if isinstance(r, str):
        return f"impl raised {r}"
    if r["shape"] != [c["s"], 4]:
        return f"table shape {r['shape']}"
    want = "torch.float64" if c["dtype"] == "float64" else "torch.float32"
    if r["dtype"] != want:
        return f"dtype {r['dtype']}"
    return close(r["values"], proto.parse_vec(out), RTOL64 if c["dtype"] == "float64" else RTOL_W32)


# ------------------------------------------------------------------ stream: cubic_bspline_value vs code model / vs SPEC
def gen_value(rng, tier):
    for d in range(0, 4):
        for k in range(-44, 45):
            yield {"x": k / 16.0, "d": d}
        for _ in range(_n(tier, 60, 3000)):
            yield {"x": rng.uniform(-2.3, 2.3), "d": d}
        for x in (2.0, -2.0, 1.0, -1.0, 0.0, 1.9999999999999998, -1.0000000000000002, 5.0, -7.5):
            yield {"x": x, "d": d}


def impl_value(c):
    v = K.cubic_bspline_value(c["x"], derivative=c["d"])
    return {"value": None if v is None else float(v)}


def cmp_value(c, r, out):
    if isinstance(r, str):
        return f"impl raised {r}"
    if out == "none":
        return None if r["value"] is None else f"impl returned {r['value']}, model none"
    if r["value"] is None:
        return f"impl returned None, model {out}"
    return close([r["value"]], [Fraction(out)], 1e-13)


def gen_value_spec(rng, tier):
    for c in gen_value(rng, tier):
        if c["d"] <= 2:
            yield c


# ------------------------------------------------------------------ stream: dense 1-D kernel (exhaustive)
def gen_kernel1d(rng, tier):
    for s in range(1, MAXS + 1):
        for d in range(0, 4):
            yield {"s": s, "d": d, "seq": (s + d) % 2 == 0}


def impl_kernel1d(c):
    k = K.cubic_bspline1d([c["s"]] if c["seq"] else c["s"], derivative=c["d"])
    return {"shape": list(k.shape), "values": proto.flat(k), "dtype": str(k.dtype)}


def cmp_kernel1d(c, r, out):
    if isinstance(r, str):
        return None if out.startswith(r[:8]) else f"impl raised {r}, model {out[:40]}"
    if proto.is_error(out):
        return f"model {out}, impl returned a kernel"
    if r["shape"] != [4 * c["s"] - 1]:
        return f"kernel length {r['shape']}"
    return close(r["values"], proto.parse_vec(out), RTOL_W32)


# ------------------------------------------------------------------ stream: control grid size (exhaustive)
def gen_ctrl_size(rng, tier):
    for m in range(1, 41):
        for s in range(1, MAXS + 1):
            yield {"m": m, "s": s, "form": "scalar"}
    for m, s in [(0, 3), (5, 0), (-1, 2), (4, -2), (64, 5), (1000, 7), (4096, 16), (4097, 16)]:
        yield {"m": m, "s": s, "form": "scalar"}
    for _ in range(_n(tier, 60, 600)):
        D = rng.choice([1, 2, 3])
        form = rng.choice(["seq_seq", "seq_int", "int_seq"])
        m = [rng.randint(1, 40) for _ in range(D)]
        s = [rng.randint(1, MAXS) for _ in range(D)]
        if rng.random() < 0.1:
            m[rng.randrange(D)] = rng.choice([0, -3])
        if form == "seq_int":
            s = [s[0]] * D
        if form == "int_seq":
            m = [m[0]] * D
        yield {"m": m, "s": s, "form": form}


def impl_ctrl_size(c):
    f = B.cubic_bspline_control_point_grid_size
    if c["form"] == "scalar":
        n = f(c["m"], c["s"])
        if not isinstance(n, int):
            return f"err:glue:scalar form returned {type(n).__name__}"
        return {"n": [n]}
    if c["form"] == "seq_seq":
        n = f(c["m"], c["s"])
    elif c["form"] == "seq_int":
        n = f(c["m"], c["s"][0])
    else:
        n = f(c["m"][0], c["s"])
    return {"n": [int(v) for v in n]}


def line_ctrl_size(c):
    if c["form"] == "scalar":
        return f"bspline.ctrl_size {c['m']} {c['s']}"
    return f"bspline.ctrl_sizes {len(c['m'])} {' '.join(map(str, c['m']))} {' '.join(map(str, c['s']))}"


def cmp_ctrl_size(c, r, out):
    if isinstance(r, str):
        return None if out.startswith(r[:9]) else f"impl raised {r}, model {out}"
    if proto.is_error(out):
        return f"model {out}, impl {r['n']}"
    m = [int(v) for v in out.split()]
    return None if m == r["n"] else f"impl {r['n']} vs model {m}"


# ------------------------------------------------------------------ stream: control point grid
def gen_ctrl_grid(rng, tier):
    for _ in range(_n(tier, 60, 1500)):
        # D = 1 is left out here: Grid.transform() of a 1-D grid classifies its 1x1 affine matrix as a (D, 1)
        # translation (linalg.as_homogeneous_tensor), so index_to_world is already off for any 1-D grid (C01 territory)
        d = rng.choice([2, 3])
        g = gen.grid_spec(rng, d, ac=True)
        s = [rng.randint(1, MAXS) for _ in range(d)]
        yield {"grid": g, "stride": s, "int_stride": rng.random() < 0.3}


def impl_ctrl_grid(c):
    g = gen.make_grid(c["grid"])
    st = c["stride"]
    cg = B.cubic_bspline_control_point_grid(g, st[0] if c["int_stride"] else st)
    return {"grid": proto.grid(cg), "d": g.ndim}


def line_ctrl_grid(c):
    g = gen.make_grid(c["grid"])
    st = [c["stride"][0]] * g.ndim if c["int_stride"] else c["stride"]
    return (f"bspline.ctrl_grid {g.ndim} {proto.grid(g)} {' '.join(str(int(v)) for v in g.size())} "
            f"{' '.join(map(str, st))}")


def cmp_ctrl_grid(c, r, out):
    if isinstance(r, str):
        return f"impl raised {r}"
    if proto.is_error(out):
        return f"model {out}"
    a = [Fraction(v) for v in r["grid"].split()]
    b = [Fraction(v) for v in out.split()]
    d = r["d"]
    if len(a) != len(b):
        return "grid encoding length differs"
    if a[:d] != b[:d]:
        return f"control grid size: impl {a[:d]} vs model {b[:d]}"
    if a[-1] != b[-1]:
        return "align_corners differs"
    pos = c["grid"].get("origin", c["grid"].get("center"))
    scale = max([abs(v) for v in pos] + [n * h for n, h in zip(c["grid"]["size"], c["grid"]["spacing"])]
                + [s * h for s, h in zip(c["stride"], c["grid"]["spacing"])])
    return close([float(v) for v in a[d:-1]], b[d:-1], 2e-4, scale)


# ------------------------------------------------------------------ stream: evaluation, 1-D exhaustive and N-D random
def gen_eval1d(rng, tier):
    for m in range(1, 41):
        for s in range(1, MAXS + 1):
            L = ctrl(m, s)
            for tr in (False, True):
                yield {"shape": [1, 1, L], "stride": [s], "deriv": [0], "transpose": tr, "out": [m],
                       "kind": "linear" if (m + s + tr) % 3 == 0 else "random", "cseed": rng.randrange(1 << 30),
                       "dtype": "float64" if (m + s) % 5 == 0 else "float32", "karg": "none" if (m % 2) else "explicit",
                       "sizearg": s % 2 == 0, "intstride": True}


def gen_evalnd(rng, tier):
    for _ in range(_n(tier, 260, 5000)):
        D = rng.choice([1, 2, 2, 3, 3])
        N, C = rng.choice([1, 1, 2]), rng.choice([1, 2, 3] if D < 3 else [1, 2])
        hi = {1: 24, 2: 9, 3: 6}[D]
        size = [rng.choice([1, 2, rng.randint(1, hi), rng.randint(1, hi)]) for _ in range(D)]      # (x, …)
        stride = [rng.choice([1, 2, rng.randint(1, 6), rng.randint(1, MAXS if D == 1 else 6)]) for _ in range(D)]
        tr = rng.random() < 0.5
        mode = rng.choice(["ctrl", "ctrl", "ctrl", "free", "short"])
        if mode == "ctrl":
            L = [ctrl(m, s) for m, s in zip(size, stride)]
            out = list(reversed(size)) if rng.random() < 0.8 else None
        elif mode == "free":
            L = [rng.randint(4, 8) for _ in range(D)]
            out = [rng.randint(1, (l - 3) * s + 2) for l, s in zip(reversed(L), reversed(stride))] if rng.random() < 0.6 else None
        else:
            L = [rng.randint(1, 5) for _ in range(D)]    # may be < 4: conv raises in the weight algorithm
            out = None
        deriv = [0] * D
        karg = rng.choice(["none", "explicit"])
        if rng.random() < 0.5:
            deriv = [rng.choice([0, 1, 2, 3] if not tr else [0, 1, 2]) for _ in range(D)]
            if tr:
                karg = "explicit"       # derivative kernels must be passed explicitly for transpose=True
        yield {"shape": [N, C] + list(reversed(L)), "stride": stride, "deriv": deriv, "transpose": tr, "out": out,
               "kind": rng.choice(["random", "random", "linear"]), "cseed": rng.randrange(1 << 30),
               "dtype": rng.choice(["float32", "float32", "float64"]), "karg": karg, "sizearg": rng.random() < 0.3,
               "intstride": len(set(stride)) == 1 and rng.random() < 0.5}


def impl_eval(c):
    data = coeffs(c["shape"], c["cseed"], c["kind"], c["dtype"])
    stride, deriv = c["stride"], c["deriv"]
    st_arg = stride[0] if c["intstride"] else list(stride)
    kw = {}
    if c["out"] is not None:
        if c["sizearg"]:
            kw["size"] = torch.Size(reversed(c["out"]))
        else:
            kw["shape"] = torch.Size(c["out"])
    if c["transpose"]:
        if c["karg"] == "none":
            out = B.evaluate_cubic_bspline(data, stride=st_arg, derivative=(deriv if any(deriv) else None),
                                           transpose=True, **kw)
        else:
            kernel = [K.cubic_bspline1d(s, derivative=d) for s, d in zip(stride, deriv)]
            out = B.evaluate_cubic_bspline(data, stride=st_arg, kernel=kernel, transpose=True, **kw)
    else:
        if c["karg"] == "none":
            d_arg = deriv[0] if len(set(deriv)) == 1 else list(deriv)
            out = B.evaluate_cubic_bspline(data, stride=st_arg, derivative=d_arg, **kw)
        else:
            kernel = [B.cubic_bspline_interpolation_weights(s, d, dtype=data.dtype) for s, d in zip(stride, deriv)]
            out = B.evaluate_cubic_bspline(data, kernel=kernel, **kw)
    if out.dtype != data.dtype:
        return f"err:glue:dtype {out.dtype}"
    return res(out)


def line_eval(c):
    data = coeffs(c["shape"], c["cseed"], c["kind"], c["dtype"])
    D = len(c["stride"])
    sh = f"1 {' '.join(map(str, c['out']))}" if c["out"] is not None else "0"
    return (f"bspline.eval {tensor_line(data)} {D} {' '.join(map(str, c['stride']))} {' '.join(map(str, c['deriv']))} "
            f"{1 if c['transpose'] else 0} {sh}")


def cmp_eval(c, r, out):
    if isinstance(r, str) and c["transpose"] and c["karg"] == "none" and any(c["deriv"]) and r.startswith("err:notimpl"):
        return None   # documented: derivative with kernel=None and transpose=True is not implemented
    return cmp_tensor(r, out, _rtol(c), 4.0)


def nontrivial_eval(c):
    return max(c["stride"]) > 1 or any(c["deriv"]) or max(c["shape"][2:]) > 4


# ------------------------------------------------------------------ stream: FreeFormDeformation.update().u
def gen_ffd(rng, tier):
    for _ in range(_n(tier, 120, 3000)):
        D = rng.choice([1, 2, 2, 3])
        hi = {1: 30, 2: 10, 3: 6}[D]
        size = [rng.choice([1, 2, rng.randint(1, hi), rng.randint(1, hi)]) for _ in range(D)]
        stride = [rng.choice([1, rng.randint(1, 6), rng.randint(1, MAXS if D == 1 else 7)]) for _ in range(D)]
        yield {"size": size, "stride": stride, "transpose": rng.random() < 0.5, "groups": rng.choice([1, 1, 2]),
               "kind": rng.choice(["random", "random", "linear"]), "cseed": rng.randrange(1 << 30),
               "intstride": len(set(stride)) == 1 and rng.random() < 0.5,
               "spacing": [rng.choice([0.5, 1.0, 1.5, 2.0]) for _ in range(D)]}


def _ffd(c):
    g = Grid(size=c["size"], spacing=c["spacing"], align_corners=True)
    st = c["stride"][0] if c["intstride"] else tuple(c["stride"])
    f = FreeFormDeformation(g, groups=c["groups"], stride=st, transpose=c["transpose"])
    p = coeffs(list(f.params.shape), c["cseed"], c["kind"])
    f.data_(p)
    return g, f, p


def impl_ffd(c):
    g, f, p = _ffd(c)
    u = f.update().u
    return res(u)


def line_ffd(c):
    g, f, p = _ffd(c)
    D = len(c["size"])
    return (f"bspline.ffd_u {tensor_line(p)} {D} {' '.join(map(str, c['size']))} {' '.join(map(str, c['stride']))} "
            f"{1 if c['transpose'] else 0}")


def cmp_ffd(c, r, out):
    why = cmp_tensor(r, out, RTOL32, 4.0)
    if why is None and not isinstance(r, str):
        want = [c["groups"], len(c["size"])] + list(reversed(c["size"]))
        if r["shape"] != want:
            return f"u has shape {r['shape']}, image grid needs {want}"
    return why


# ------------------------------------------------------------------ stream: BSplineTransform.grid_(finer)
def gen_refine(rng, tier):
    for _ in range(_n(tier, 120, 3000)):
        D = rng.choice([1, 2, 2, 3])
        hi = {1: 24, 2: 9, 3: 5}[D]
        size = [rng.choice([1, 2, rng.randint(1, hi), rng.randint(1, hi)]) for _ in range(D)]
        stride = [rng.choice([1, rng.randint(1, 6), rng.randint(1, MAXS if D == 1 else 7)]) for _ in range(D)]
        sub = [rng.random() < 0.6 for _ in range(D)]
        yield {"size": size, "stride": stride, "sub": sub, "transpose": rng.random() < 0.5, "groups": rng.choice([1, 2]),
               "kind": "random", "cseed": rng.randrange(1 << 30), "intstride": False,
               "spacing": [rng.choice([0.5, 1.0, 2.0]) for _ in range(D)], "bad": rng.random() < 0.05}


def finer_size(c):
    new = [2 * n - 1 if b else n for n, b in zip(c["size"], c["sub"])]
    if c.get("bad"):
        new[0] = 2 * c["size"][0] + 1      # neither n nor 2n−1: ValueError (domain check or size check) in grid_
    return new


def finer_grid(c, g):
    new = finer_size(c)
    sp = [h / 2 if (b and n > 1) else h for h, b, n in zip(c["spacing"], c["sub"], c["size"])]
    return new, Grid(size=new, spacing=sp, center=g.center(), align_corners=True)


def impl_refine(c):
    g, f, p = _ffd(c)
    new, g2 = finer_grid(c, g)
    f.grid_(g2)
    q = f.params
    if list(q.shape[2:]) != list(f.data_shape[1:]):
        return f"err:glue:params shape {list(q.shape)} vs data_shape {list(f.data_shape)}"
    return res(q)


def line_refine(c):
    g, f, p = _ffd(c)
    new = finer_size(c)
    D = len(c["size"])
    return (f"bspline.ffd_refine {tensor_line(p)} {D} {' '.join(map(str, c['size']))} {' '.join(map(str, new))} "
            f"{' '.join(map(str, c['stride']))}")


def cmp_refine(c, r, out):
    return cmp_tensor(r, out, RTOL32, 4.0)


# ------------------------------------------------------------------ stream: subdivide_cubic_bspline
def gen_subdivide(rng, tier):
    for _ in range(_n(tier, 100, 2500)):
        D = rng.choice([1, 1, 2, 2, 3, 3])
        hi = {1: 20, 2: 9, 3: 6}[D]
        L = [rng.choice([2, 4, rng.randint(2, hi), rng.randint(1, hi)]) for _ in range(D)]   # 1 → conv raises
        N, C = rng.choice([1, 2]), rng.choice([1, 2])
        form = rng.choice(["none", "int", "list", "str"])
        if form == "none":
            dims = None
        elif form == "int":
            dims = [rng.randrange(D)]
        elif form == "str":
            dims = [rng.randrange(D)]
        else:
            dims = sorted(rng.sample(range(D), rng.randint(1, D)), reverse=rng.random() < 0.5)
        yield {"shape": [N, C] + L, "dims": dims, "form": form, "cseed": rng.randrange(1 << 30),
               "dtype": rng.choice(["float32", "float64"]), "kind": "random"}


def impl_subdivide(c):
    data = coeffs(c["shape"], c["cseed"], c["kind"], c["dtype"])
    if c["form"] == "none":
        out = B.subdivide_cubic_bspline(data)
    elif c["form"] == "int":
        out = B.subdivide_cubic_bspline(data, c["dims"][0])
    elif c["form"] == "str":
        out = B.subdivide_cubic_bspline(data, "xyz"[c["dims"][0]])
    else:
        out = B.subdivide_cubic_bspline(data, list(c["dims"]))
    return res(out)


def line_subdivide(c):
    data = coeffs(c["shape"], c["cseed"], c["kind"], c["dtype"])
    D = len(c["shape"]) - 2
    dims = list(range(D)) if c["dims"] is None else c["dims"]
    return f"bspline.subdivide {tensor_line(data)} {len(dims)} {' '.join(map(str, dims))}"


def cmp_subdivide(c, r, out):
    return cmp_tensor(r, out, RTOL64 if c["dtype"] == "float64" else RTOL32, 4.0)


# ------------------------------------------------------------------ stream: derivative modes
def gen_deriv(rng, tier):
    for _ in range(_n(tier, 150, 3000)):
        D = rng.choice([2, 2, 3])
        hi = {2: 8, 3: 6}[D]
        L = [rng.randint(4, hi) for _ in range(D)]          # tensor order
        stride = [rng.choice([1, 2, rng.randint(1, 5)]) for _ in range(D)]   # (sx, …)
        order = rng.choice([1, 1, 2, 2, 3, 4])
        code = "".join(rng.choice("xyz"[:D]) for _ in range(order))
        api = rng.choice(["image", "flow"])
        N = rng.choice([1, 2])
        C = D if api == "flow" else rng.choice([1, 2])
        yield {"shape": [N, C] + L, "stride": stride, "code": code, "api": api, "comp": rng.randrange(D),
               "spacing": [rng.choice([0.25, 0.5, 1.0, 1.5, 2.0]) for _ in range(D)],
               "spform": rng.choice(["seq", "seq", "scalar", "none"]) if api == "image" else "seq",
               "cseed": rng.randrange(1 << 30), "dtype": rng.choice(["float32", "float64"]), "kind": "random",
               "intstride": len(set(stride)) == 1 and rng.random() < 0.5}


def _deriv_spacing(c):
    if c["spform"] == "seq":
        return list(c["spacing"]), list(c["spacing"])
    if c["spform"] == "scalar":
        return c["spacing"][0], [c["spacing"][0]] * len(c["spacing"])
    return None, [1.0] * len(c["spacing"])


def impl_deriv(c):
    data = coeffs(c["shape"], c["cseed"], c["kind"], c["dtype"])
    st = c["stride"][0] if c["intstride"] else tuple(c["stride"])
    sp_arg, _ = _deriv_spacing(c)
    if c["api"] == "image":
        d = spatial_derivatives(data, which=[c["code"]], mode="bspline", spacing=sp_arg, stride=st)
        if list(d.keys()) != [c["code"]]:
            return f"err:glue:result keys {list(d.keys())} for which={[c['code']]}"
        out = d[c["code"]]
    else:
        name = f"d{'uvw'[c['comp']]}/d{c['code']}"
        d = flow_derivatives(data, which=[name], mode="bspline", spacing=sp_arg, stride=st)
        out = d[name]
    return res(out)


def line_deriv(c):
    data = coeffs(c["shape"], c["cseed"], c["kind"], c["dtype"])
    if c["api"] == "flow":
        data = data.narrow(1, c["comp"], 1)
    D = len(c["stride"])
    order = [c["code"].count(ch) for ch in "xyz"[:D]]
    _, sp = _deriv_spacing(c)
    sp32 = torch.tensor(sp, dtype=torch.float32).double().tolist()   # the code stores spacing as float32
    return (f"bspline.deriv {tensor_line(data)} {D} {' '.join(map(str, c['stride']))} {' '.join(map(str, order))} "
            f"{' '.join(proto.fr(v) for v in sp32)}")


def cmp_deriv(c, r, out):
    return cmp_tensor(r, out, RTOL64 * 10 if c["dtype"] == "float64" else RTOL32, 4.0)


STREAMS = [
    Stream("weights", gen_weights, impl_weights, line_weights, cmp_weights, exhaustive=True,
           nontrivial=lambda c: c["s"] > 1 or c["d"] > 0,
           doc="cubic_bspline_interpolation_weights / bspline_interpolation_weights(3): strides 1..16 x derivative 0..4 "
               "x float32/float64/default x scalar/sequence argument forms"),
    Stream("value", gen_value, impl_value, lambda c: f"bspline.value {c['d']} {proto.fr(c['x'])}", cmp_value,
           nontrivial=lambda c: abs(c["x"]) < 2,
           doc="kernels.cubic_bspline_value(x, d) vs its transcription, x on the 1/16 lattice in [-2.75, 2.75], knots, random"),
    Stream("value_spec", gen_value_spec, impl_value, lambda c: f"bspline.basis {c['d']} {proto.fr(c['x'])}", cmp_value,
           nontrivial=lambda c: abs(c["x"]) < 2,
           doc="kernels.cubic_bspline_value(x, d<=2) vs the SPEC basis function of the theorems (independent of the code)"),
    Stream("kernel1d", gen_kernel1d, impl_kernel1d, lambda c: f"bspline.kernel1d {c['s']} {c['d']}", cmp_kernel1d,
           exhaustive=True, nontrivial=lambda c: c["s"] > 1 or c["d"] > 0,
           doc="kernels.cubic_bspline1d: strides 1..16 x derivative 0..3 (3 raises TypeError in both)"),
    Stream("ctrl_size", gen_ctrl_size, impl_ctrl_size, line_ctrl_size, cmp_ctrl_size, exhaustive=True,
           nontrivial=lambda c: True,
           doc="cubic_bspline_control_point_grid_size: sizes 1..40 x strides 1..16 exhaustively, invalid and sequence forms"),
    Stream("ctrl_grid", gen_ctrl_grid, impl_ctrl_grid, line_ctrl_grid, cmp_ctrl_grid,
           nontrivial=lambda c: max(c["stride"]) > 1,
           doc="cubic_bspline_control_point_grid: size, origin/center, spacing (= stride * image spacing), direction"),
    Stream("eval1d", gen_eval1d, impl_eval, line_eval, cmp_eval, exhaustive=True, nontrivial=nontrivial_eval,
           doc="evaluate_cubic_bspline on control-grid sized 1-D coefficients: sizes 1..40 x strides 1..16 x both algorithms"),
    Stream("evalnd", gen_evalnd, impl_eval, line_eval, cmp_eval, nontrivial=nontrivial_eval,
           doc="evaluate_cubic_bspline D in {1,2,3}, N,C > 1, per-axis strides/derivatives, both algorithms, shape/size/None, "
               "explicit kernels or stride/derivative arguments, too-short inputs"),
    Stream("ffd_u", gen_ffd, impl_ffd, line_ffd, cmp_ffd, nontrivial=lambda c: max(c["stride"]) > 1,
           doc="FreeFormDeformation(grid, stride, transpose).update().u vs model (data_shape, kernels, crop)"),
    Stream("ffd_refine", gen_refine, impl_refine, line_refine, cmp_refine, nontrivial=lambda c: any(c["sub"]),
           doc="BSplineTransform.grid_(finer), D in {1,2,3}: subdivision + narrow crop of the parameters, rejected sizes"),
    Stream("subdivide", gen_subdivide, impl_subdivide, line_subdivide, cmp_subdivide,
           nontrivial=lambda c: max(c["shape"][2:]) > 1,
           doc="subdivide_cubic_bspline: dims None/int/str/list, D in {1,2,3} (1-D (N, C, X) tensors included)"),
    Stream("deriv", gen_deriv, impl_deriv, line_deriv, cmp_deriv, nontrivial=lambda c: True,
           doc="image.spatial_derivatives / flow.flow_derivatives with mode='bspline': mixed orders 1..4, strides, spacing"),
]


# ------------------------------------------------------------------ property oracles (implementation only)
def _bspl(deg: int, x: Fraction) -> Fraction:
    """centred uniform B-spline of degree `deg` (Cox–de Boor), right-continuous; independent of the code."""
    if deg == 0:
        return Fraction(1) if Fraction(-1, 2) <= x < Fraction(1, 2) else Fraction(0)
    h = Fraction(deg + 1, 2)
    return ((x + h) * _bspl(deg - 1, x + Fraction(1, 2)) + (h - x) * _bspl(deg - 1, x - Fraction(1, 2))) / deg


def _bspl_deriv(deg: int, d: int, x: Fraction) -> Fraction:
    """d-th derivative by the difference rule B_n' (x) = B_{n-1}(x + 1/2) − B_{n-1}(x − 1/2)."""
    if d == 0:
        return _bspl(deg, x)
    return _bspl_deriv(deg - 1, d - 1, x + Fraction(1, 2)) - _bspl_deriv(deg - 1, d - 1, x - Fraction(1, 2))


def gen_weight_laws(rng, tier):
    for s in range(1, MAXS + 1):
        for d in range(0, 4):
            yield {"s": s, "d": d}


def check_weight_laws(c):
    s, d = c["s"], c["d"]
    w = B.cubic_bspline_interpolation_weights(s, d, dtype=torch.float64)
    if list(w.shape) != [s, 4]:
        return (f"C14:weights:shape:s={s}", f"weight table has shape {list(w.shape)}")
    tol = 1e-12
    for k in range(s):
        row = [float(v) for v in w[k]]
        t = Fraction(k, s)
        total = sum(row)
        if abs(total - (1.0 if d == 0 else 0.0)) > tol:
            return (f"C14:weights:d={d}:" + ("partition" if d == 0 else "deriv-sum-zero"),
                    f"stride {s}, row {k}: weights sum to {total}")
        mom = sum(row[j] * (j - 1) for j in range(4))
        want = float(t) if d == 0 else (1.0 if d == 1 else 0.0)
        if abs(mom - want) > tol:
            return (f"C14:weights:d={d}:linear-precision", f"stride {s}, row {k}: sum w_j (j-1) = {mom}, want {want}")
        for j in range(4):
            b = float(_bspl_deriv(3, d, t - (j - 1)))
            if abs(row[j] - b) > tol * 10:
                return (f"C14:weights:d={d}:basis",
                        f"stride {s}: w[{k},{j}] = {row[j]} but the analytic basis derivative is {b}")
    return None


def gen_linear(rng, tier):
    for _ in range(_n(tier, 80, 2000, 400)):
        D = rng.choice([1, 2, 2, 3])
        hi = {1: 40, 2: 12, 3: 7}[D]
        size = [rng.choice([1, 2, rng.randint(1, hi), rng.randint(1, hi)]) for _ in range(D)]
        stride = [rng.choice([1, rng.randint(1, 6), rng.randint(1, MAXS if D < 3 else 6)]) for _ in range(D)]
        yield {"size": size, "stride": stride, "transpose": rng.random() < 0.5,
               "a": [rng.randint(-40, 40) / 8 for _ in range(D)],
               "b": [[rng.randint(-16, 16) / 8 for _ in range(D)] for _ in range(D)]}


def check_linear(c):
    """coefficients that are a linear function of the control point position reproduce it at every sample."""
    D = len(c["size"])
    g = Grid(size=c["size"], align_corners=True)
    f = FreeFormDeformation(g, stride=tuple(c["stride"]), transpose=c["transpose"])
    shp = list(f.params.shape)
    p = torch.zeros(shp, dtype=torch.float32)
    for comp in range(D):
        v = torch.full(shp[2:], c["a"][comp], dtype=torch.float32)
        for ax in range(D):      # spatial dim ax (x = 0) is tensor dim D-1-ax; control j sits at image index (j-1)*s
            pos = (torch.arange(shp[2 + D - 1 - ax], dtype=torch.float32) - 1) * c["stride"][ax]
            view = [1] * D
            view[D - 1 - ax] = -1
            v = v + c["b"][comp][ax] * pos.reshape(view)
        p[0, comp] = v
    f.data_(p)
    u = f.update().u
    want_shape = [1, D] + list(reversed(c["size"]))
    if list(u.shape) != want_shape:
        return (f"C14:coverage:ffd:D={D}", f"u has shape {list(u.shape)}, image grid needs {want_shape}")
    scale = 1.0
    for comp in range(D):
        v = torch.full(want_shape[2:], c["a"][comp], dtype=torch.float32)
        for ax in range(D):
            pos = torch.arange(c["size"][ax], dtype=torch.float32)
            view = [1] * D
            view[D - 1 - ax] = -1
            v = v + c["b"][comp][ax] * pos.reshape(view)
        scale = max(scale, float(v.abs().max()))
        err = float((u[0, comp] - v).abs().max())
        if err > 2e-5 * max(scale, float(p.abs().max())):
            return (f"C14:ffd:linear:transpose={c['transpose']}",
                    f"size {c['size']} stride {c['stride']}: linear coefficients are reproduced with error {err:.3e}")
    return None


def gen_deriv_exact(rng, tier):
    for _ in range(_n(tier, 60, 1500, 300)):
        D = rng.choice([2, 3])
        L = [rng.randint(4, 8 if D == 2 else 6) for _ in range(D)]
        yield {"L": L, "stride": [rng.randint(1, 5) for _ in range(D)], "ax": rng.randrange(D),
               "spacing": [rng.choice([0.5, 1.0, 2.0]) for _ in range(D)],
               "a": rng.randint(-16, 16) / 4, "b": rng.randint(-16, 16) / 4}


def check_deriv_exact(c):
    """derivative modes return the analytic derivatives: coefficients a + b·j, j², j³ along one axis
    represent a + b·t, t² + 1/3, t³ + t (t = control index coordinate)."""
    D = len(c["L"])
    ax = c["ax"]                       # spatial dim
    td = 2 + D - 1 - ax
    L = c["L"][D - 1 - ax]
    s = c["stride"][ax]
    h = c["spacing"][ax]
    j = torch.arange(L, dtype=torch.float64)
    view = [1] * (D + 2)
    view[td] = -1
    shape = [1, 1] + c["L"]
    ch = "xyz"[ax]
    t = (1 + torch.arange((L - 3) * s, dtype=torch.float64) / s).reshape(view)
    tests = [
        ("linear", c["a"] + c["b"] * j, {1: c["b"] + 0 * t, 2: 0 * t, 3: 0 * t}),
        ("quadratic", j ** 2, {1: 2 * t, 2: 2 + 0 * t}),
        ("cubic", j ** 3, {1: 3 * t ** 2 + 1, 2: 6 * t, 3: 6 + 0 * t}),
    ]
    for name, cj, wants in tests:
        data = cj.reshape(view).expand(shape).contiguous()
        for order, want in wants.items():
            d = spatial_derivatives(data, which=[ch * order], mode="bspline", spacing=c["spacing"], stride=tuple(c["stride"]))
            got = d[ch * order]
            want = (want / h ** order).expand_as(got)
            err = float((got - want).abs().max())
            if err > 1e-9 * max(1.0, float(want.abs().max())):
                return (f"C14:deriv:{name}:order={order}",
                        f"L={c['L']} stride={c['stride']} spacing={c['spacing']} axis {ch}: analytic derivative off by {err:.3e}")
    return None


def gen_two(rng, tier):
    for _ in range(_n(tier, 80, 2500, 500)):
        D = rng.choice([1, 2, 3])
        hi = {1: 40, 2: 10, 3: 6}[D]
        size = [rng.choice([1, rng.randint(1, hi), rng.randint(1, hi)]) for _ in range(D)]
        stride = [rng.choice([1, rng.randint(1, 6), rng.randint(1, MAXS if D < 3 else 5)]) for _ in range(D)]
        yield {"size": size, "stride": stride, "N": rng.choice([1, 2]), "C": rng.choice([1, 3]),
               "cseed": rng.randrange(1 << 30)}


def check_two(c):
    D = len(c["size"])
    L = list(reversed(B.cubic_bspline_control_point_grid_size(list(c["size"]), list(c["stride"]))))
    data = coeffs([c["N"], c["C"]] + L, c["cseed"], "random")
    shape = torch.Size(reversed(c["size"]))
    a = B.evaluate_cubic_bspline(data, stride=list(c["stride"]), shape=shape)
    b = B.evaluate_cubic_bspline(data, stride=list(c["stride"]), shape=shape, transpose=True)
    want = [c["N"], c["C"]] + list(shape)
    if list(a.shape) != want or list(b.shape) != want:
        return (f"C14:coverage:evaluate:D={D}", f"size {c['size']} stride {c['stride']}: output shapes {list(a.shape)}, "
                f"{list(b.shape)}; image grid needs {want}")
    err = float((a - b).abs().max())
    if err > 2e-5 * max(1.0, float(data.abs().max())):
        return (f"C14:two-algorithms:D={D}", f"size {c['size']} stride {c['stride']}: the two algorithms differ by {err:.3e}")
    full = B.evaluate_cubic_bspline(data, stride=list(c["stride"]))
    if any(n < m for n, m in zip(full.shape[2:], shape)):
        return (f"C14:coverage:evaluate:D={D}", f"size {c['size']} stride {c['stride']}: evaluated extent {list(full.shape[2:])}")
    return None


def gen_coverage(rng, tier):
    for m in range(1, 41):
        for s in range(1, MAXS + 1):
            yield {"m": m, "s": s}


def check_coverage(c):
    m, s = c["m"], c["s"]
    n = B.cubic_bspline_control_point_grid_size(m, s)
    if (n - 3) * s < m:
        return ("C14:coverage:control-size", f"size {m} stride {s}: {n} control points span only {(n - 3) * s} samples")
    if n != ctrl(m, s):
        return ("C14:coverage:control-size-minimal", f"size {m} stride {s}: {n} control points, minimum is {ctrl(m, s)}")
    g = Grid(size=(m, 2), align_corners=True)
    f = FreeFormDeformation(g, stride=(s, 1), transpose=(m + s) % 2 == 0)
    u = f.update().u
    if list(u.shape) != [1, 2, 2, m]:
        return ("C14:coverage:ffd:D=2", f"size {m} stride {s}: u shape {list(u.shape)}")
    return None


def gen_subdiv(rng, tier):
    for _ in range(_n(tier, 80, 2000, 400)):
        D = rng.choice([1, 2, 2, 3])
        hi = {1: 12, 2: 7, 3: 5}[D]
        L = [rng.randint(4, hi) for _ in range(D)]
        yield {"kind": "direct", "L": L, "stride": [rng.randint(1, 5) for _ in range(D)], "rounds": rng.choice([1, 1, 2, 3]) if D < 3 else 1,
               "dims": sorted(rng.sample(range(D), rng.randint(1, D))), "cseed": rng.randrange(1 << 30)}
    for _ in range(_n(tier, 80, 2000, 400)):
        D = rng.choice([1, 2, 2, 3])
        hi = {1: 20, 2: 8, 3: 5}[D]
        size = [rng.choice([1, 2, rng.randint(1, hi), rng.randint(1, hi)]) for _ in range(D)]
        yield {"kind": "ffd", "size": size, "stride": [rng.choice([1, rng.randint(1, 6)]) for _ in range(D)],
               "sub": [rng.random() < 0.7 for _ in range(D)], "transpose": rng.random() < 0.5,
               "rounds": rng.choice([1, 1, 2]), "cseed": rng.randrange(1 << 30)}


def check_subdiv(c):
    if c["kind"] == "direct":
        D = len(c["L"])
        data = coeffs([1, 2] + c["L"], c["cseed"], "random", "float64")
        stride = c["stride"]
        before = B.evaluate_cubic_bspline(data, stride=stride)
        cur = data
        try:
            for _ in range(c["rounds"]):
                cur = B.subdivide_cubic_bspline(cur, dims=c["dims"])
        except ValueError as e:
            if D == 1:
                return ("C14:subdivide:D=1:ValueError", f"subdivide_cubic_bspline rejects (N, C, X) data: {e}")
            raise
        after = B.evaluate_cubic_bspline(cur, stride=stride)
        r = c["rounds"]
        idx = [slice(None), slice(None)]
        for td in range(D):
            ax = D - 1 - td
            if ax in c["dims"]:
                s = stride[ax]
                n = before.shape[2 + td]
                idx.append(slice((2 ** r - 1) * s, (2 ** r - 1) * s + 2 ** r * n, 2 ** r))
            else:
                idx.append(slice(None))
        common = after[tuple(idx)]
        if common.shape != before.shape:
            return (f"C14:subdivide:direct:domain:D={D}", f"L={c['L']} dims={c['dims']}: refined spline evaluated on "
                    f"{list(after.shape)} does not contain the original samples {list(before.shape)}")
        err = float((common - before).abs().max())
        if err > 1e-9:
            return (f"C14:subdivide:direct:D={D}", f"L={c['L']} stride={stride} dims={c['dims']} rounds={r}: function "
                    f"changed by {err:.3e} at common sample points")
        return None
    D = len(c["size"])
    size = list(c["size"])
    spacing = [1.0] * D
    g = Grid(size=size, spacing=spacing, align_corners=True)
    f = FreeFormDeformation(g, stride=tuple(c["stride"]), transpose=c["transpose"])
    f.data_(coeffs(list(f.params.shape), c["cseed"], "random"))
    u0 = f.update().u.clone()
    idx = [slice(None), slice(None)] + [slice(None)] * D
    for _ in range(c["rounds"]):
        new = [2 * n - 1 if b else n for n, b in zip(size, c["sub"])]
        spacing = [h / 2 if (b and n > 1) else h for h, b, n in zip(spacing, c["sub"], size)]
        g2 = Grid(size=new, spacing=spacing, center=g.center(), align_corners=True)
        try:
            f.grid_(g2)
        except ValueError as e:
            if D == 1 and "must have shape" in str(e):
                return ("C14:subdivide:D=1:ValueError", f"FreeFormDeformation.grid_(finer) fails for a 1-D grid: {e}")
            raise
        for ax in range(D):
            if c["sub"][ax]:
                td = 2 + D - 1 - ax
                step = (idx[td].step or 1) * 2
                idx[td] = slice(0, None, step)
        size = new
    u1 = f.update().u
    if list(u1.shape[2:]) != list(reversed(size)):
        return (f"C14:coverage:ffd-refined:D={D}", f"refined u has shape {list(u1.shape)} for grid size {size}")
    err = float((u1[tuple(idx)] - u0).abs().max())
    if err > 2e-5 * max(1.0, float(u0.abs().max())):
        return (f"C14:subdivide:ffd:D={D}", f"size {c['size']} stride {c['stride']} sub {c['sub']} rounds {c['rounds']}: "
                f"displacement at the original samples changed by {err:.3e}")
    return None


def gen_placement(rng, tier):
    for _ in range(_n(tier, 40, 600, 150)):
        d = rng.choice([2, 3])       # see gen_ctrl_grid for why D = 1 is left out
        g = gen.grid_spec(rng, d, ac=True)
        yield {"grid": g, "stride": [rng.randint(1, 8) for _ in range(d)]}


def check_placement(c):
    """control point j of the control grid lies at image index (j-1)*stride (one before, the rest after) and the
    control points needed by the last sample exist."""
    g = gen.make_grid(c["grid"])
    s = torch.tensor(c["stride"], dtype=torch.float64)
    cg = B.cubic_bspline_control_point_grid(g, c["stride"])
    n = torch.tensor([float(v) for v in cg.size()], dtype=torch.float64)
    pos = c["grid"].get("origin", c["grid"].get("center"))
    scale = max([1.0] + [abs(v) for v in pos] + [float(a * b) for a, b in zip(n, s * g.spacing().double())])
    for j in (torch.zeros_like(n), torch.ones_like(n), n - 1):
        a = cg.index_to_world(j, decimals=None).double()
        b = g.index_to_world((j - 1) * s, decimals=None).double()
        if float((a - b).abs().max()) > 2e-4 * scale:
            if max(c["stride"]) > 1:
                return ("C14:control_point_grid:spacing-not-times-stride",
                        f"stride {c['stride']}: control index {j.tolist()} is at world {a.tolist()} but image index "
                        f"{((j - 1) * s).tolist()} is at {b.tolist()} (control grid spacing {cg.spacing().tolist()} = image spacing)")
            return ("C14:control_point_grid:placement", f"control index {j.tolist()} at {a.tolist()} vs {b.tolist()}")
    # the control grid covers the image grid in world space: the last image sample has control coordinate t with
    # one control point before and two after it (1 <= t, floor(t) + 2 <= n - 1, i.e. t + 2 < n); same for the first sample
    m = torch.tensor([float(v) for v in g.size()], dtype=torch.float64)
    for x in (torch.zeros_like(m), m - 1):
        t = cg.world_to_index(g.index_to_world(x, decimals=None), decimals=None).double()
        if bool((t < 1 - 1e-3).any()) or bool((t + 2 > n - 1e-3).any()):
            key = "C14:control_point_grid:spacing-not-times-stride" if max(c["stride"]) > 1 else "C14:control_point_grid:cover"
            return (key, f"stride {c['stride']}: image index {x.tolist()} has control coordinate {t.tolist()} in a control "
                         f"grid of size {n.tolist()} (needs 1 <= t < n - 2)")
    return None


ORACLES = [
    Oracle("weight_laws", gen_weight_laws, check_weight_laws, nontrivial=lambda c: c["s"] > 1 or c["d"] > 0,
           doc="weight tables: partition of unity, derivative weights sum to zero, linear precision, equal to the analytic "
               "basis (Cox-de Boor + difference rule, exact rationals), strides 1..16 x orders 0..3"),
    Oracle("linear", gen_linear, check_linear, nontrivial=lambda c: max(c["stride"]) > 1,
           doc="FFD with coefficients linear in control position reproduces the linear map at every sample (both algorithms)"),
    Oracle("deriv_exact", gen_deriv_exact, check_deriv_exact, nontrivial=lambda c: True,
           doc="spatial_derivatives(mode='bspline') on polynomial coefficient sequences equals the analytic derivative"),
    Oracle("two_algorithms", gen_two, check_two, nontrivial=lambda c: max(c["stride"]) > 1,
           doc="weight algorithm and transposed-convolution algorithm agree; evaluated field covers the image grid"),
    Oracle("coverage", gen_coverage, check_coverage, nontrivial=lambda c: c["m"] % c["s"] != 0,
           doc="control size spans the image for sizes 1..40 x strides 1..16; FFD u has the image grid shape"),
    Oracle("subdivision", gen_subdiv, check_subdiv, nontrivial=lambda c: True,
           doc="subdivide_cubic_bspline (repeated) and FFD.grid_(finer) (repeated) leave the function unchanged at common samples"),
    Oracle("placement", gen_placement, check_placement, nontrivial=lambda c: max(c["stride"]) > 1,
           doc="cubic_bspline_control_point_grid: control index j lies at image index (j-1)*stride; covers the image in world space"),
]


def search_cases(disagreements: List[dict]):
    """Aim the oracles at the sizes/strides of disagreeing correspondence cases."""
    extra = {o.name: [] for o in ORACLES}
    for dsg in disagreements[:60]:
        c, st = dsg["case"], dsg["stream"]
        if st in ("weights", "kernel1d") and c.get("d", 0) <= 3:
            extra["weight_laws"].append({"s": c["s"], "d": c["d"]})
        if st == "ctrl_size" and c.get("form") == "scalar" and c["m"] > 0 and c["s"] > 0:
            extra["coverage"].append({"m": c["m"], "s": c["s"]})
        if st in ("eval1d", "evalnd") and c.get("out") is not None and min(c["shape"][2:]) >= 4:
            size = list(reversed(c["out"]))
            extra["two_algorithms"].append({"size": size, "stride": c["stride"], "N": 1, "C": 1, "cseed": c["cseed"]})
            extra["linear"].append({"size": size, "stride": c["stride"], "transpose": c["transpose"],
                                    "a": [1.0] * len(size), "b": [[0.5] * len(size)] * len(size)})
        if st == "ffd_u":
            D = len(c["size"])
            extra["linear"].append({"size": c["size"], "stride": c["stride"], "transpose": c["transpose"],
                                    "a": [1.0] * D, "b": [[0.5] * D] * D})
            extra["two_algorithms"].append({"size": c["size"], "stride": c["stride"], "N": 1, "C": 1, "cseed": c["cseed"]})
        if st == "ffd_refine" and not c.get("bad"):
            extra["subdivision"].append({"kind": "ffd", "size": c["size"], "stride": c["stride"], "sub": c["sub"],
                                         "transpose": c["transpose"], "rounds": 1, "cseed": c["cseed"]})
        if st == "subdivide" and min(c["shape"][2:]) >= 4:
            D = len(c["shape"]) - 2
            dims = list(range(D)) if c["dims"] is None else sorted(set(c["dims"]))
            extra["subdivision"].append({"kind": "direct", "L": c["shape"][2:], "stride": [2] * D, "rounds": 1,
                                         "dims": dims, "cseed": c["cseed"]})
        if st == "deriv":
            D = len(c["stride"])
            extra["deriv_exact"].append({"L": c["shape"][2:], "stride": c["stride"], "ax": "xyz".index(c["code"][0]),
                                         "spacing": c["spacing"], "a": 1.0, "b": 0.5})
        if st == "ctrl_grid":
            extra["placement"].append({"grid": c["grid"], "stride": c["stride"]})
    return extra
