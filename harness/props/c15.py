"""C15 — no hidden mutation: functions leave inputs alone, copies leave originals alone.

Part 1 (tensor-level API): every call of the argument table (props/c15_table.py) is recorded as an
op trace (TorchDispatchMode), abstracted to `fresh | view | alias | inplace` over tensor ids and
sent to the Lean monitor (`heap.check`, Model/Heap.lean `safe`, proved sound and complete in
Props/C15.lean).  The correspondence is: the monitor's verdict on the trace == the direct
observation (bit-wise before/after comparison of every tensor argument, its whole storage, its
`_version` counter and its metadata).

Part 2 (accessors and copies): object-graph programs, see the second half of this file.
"""
from __future__ import annotations

import copy as _copy
import hashlib
import inspect
import random
from typing import Any, Dict, List, Optional, Tuple

import torch
from torch.utils._python_dispatch import TorchDispatchMode
from torch.utils._pytree import tree_flatten

from deepali.core.grid import Grid
from deepali.core.cube import Cube

from lib import proto
from lib.core import Oracle, Stream, case_key
from props import c15_table as T

PROP = "C15"

# ============================================================================ part 1: tracer + observer
ALIAS_OPS = {"aten.detach.default", "aten.alias.default", "aten.lift_fresh.default", "aten.detach_.default"}


class Tracer(TorchDispatchMode):
    """Record every aten call as abstract trace ops over tensor ids; storages are identified by the
    address of their StorageImpl (`untyped_storage()._cdata`), all tensors/storages seen are kept
    alive so that ids are never reused."""

    def __init__(self):
        super().__init__()
        self.keep: List[Any] = []
        self.tid: Dict[int, int] = {}          # id(tensor object) -> tensor id
        self.sid: Dict[int, int] = {}          # storage cdata -> storage id
        self.sid_owner: Dict[int, int] = {}    # storage id -> some tensor id living in it
        self.env: List[Tuple[int, int]] = []   # declarations of pre-existing tensors
        self.ops: List[Tuple] = []             # ('f', t) | ('v', t, src) | ('a', t, src) | ('i', t)
        self.op_names: List[str] = []
        self.n_pre: Optional[int] = None       # number of storages existing before the call
        self.late_ext: List[int] = []          # pre-existing tensors first seen during the call

    def _storage_key(self, t: torch.Tensor) -> Optional[int]:
        try:
            return t.untyped_storage()._cdata
        except Exception:
            return None

    def declare(self, t: torch.Tensor) -> int:
        """register a tensor that exists before / outside the traced call"""
        if id(t) in self.tid:
            return self.tid[id(t)]
        k = self._storage_key(t)
        n = len(self.tid)
        self.tid[id(t)] = n
        self.keep.append(t)
        if k not in self.sid:
            if self.n_pre is not None:
                # a pre-existing storage discovered late gets a *pre* id: ids < n_pre are reserved
                raise RuntimeError("late storage")
            self.sid[k] = len(self.sid)
            try:
                self.keep.append(t.untyped_storage())
            except Exception:
                pass
        s = self.sid[k]
        self.sid_owner.setdefault(s, n)
        self.env.append((n, s))
        return n

    def start(self, reserve: int = 1000000):
        """storages declared so far are the arguments; reserve ids for pre-existing storages that
        only show up during the call (module constants, cached kernels, …)"""
        self.n_declared = len(self.sid)
        self.n_pre = self.n_declared + reserve
        self.next_late = self.n_declared
        self.next_fresh = self.n_pre

    def _declare_late(self, t: torch.Tensor) -> int:
        k = self._storage_key(t)
        n = len(self.tid)
        self.tid[id(t)] = n
        self.keep.append(t)
        if k not in self.sid:
            if self.next_late >= self.n_pre:
                raise RuntimeError("too many pre-existing storages discovered during the call")
            self.sid[k] = self.next_late
            self.next_late += 1
            try:
                self.keep.append(t.untyped_storage())
            except Exception:
                pass
        s = self.sid[k]
        self.sid_owner.setdefault(s, n)
        self.env.append((n, s))
        self.late_ext.append(n)
        return n

    def __torch_dispatch__(self, func, types, args=(), kwargs=None):
        kwargs = kwargs or {}
        flat_in, _ = tree_flatten((args, kwargs))
        ins = [a for a in flat_in if isinstance(a, torch.Tensor)]
        for a in ins:
            if id(a) not in self.tid:
                self._declare_late(a)
        out = func(*args, **kwargs)
        name = str(func)
        schema = func._schema
        if schema.is_mutable:
            for i, arg in enumerate(schema.arguments):
                if arg.alias_info is not None and arg.alias_info.is_write:
                    v = args[i] if i < len(args) else kwargs.get(arg.name)
                    for w in (v if isinstance(v, (list, tuple)) else [v]):
                        if isinstance(w, torch.Tensor):
                            self.ops.append(("i", self.tid[id(w)]))
                            self.op_names.append(name)
        flat_out, _ = tree_flatten(out)
        for o in flat_out:
            if not isinstance(o, torch.Tensor) or id(o) in self.tid:
                continue            # an in-place op returns its (already known) argument
            k = self._storage_key(o)
            n = len(self.tid)
            self.tid[id(o)] = n
            self.keep.append(o)
            src = next((a for a in ins if self._storage_key(a) == k), None) if k is not None else None
            if src is not None:
                same = (name in ALIAS_OPS)
                self.ops.append(("a" if same else "v", n, self.tid[id(src)]))
            elif k is not None and k in self.sid:
                self.ops.append(("v", n, self.sid_owner[self.sid[k]]))
            else:
                if k is not None:
                    self.sid[k] = self.next_fresh
                    self.sid_owner[self.next_fresh] = n
                    try:
                        self.keep.append(o.untyped_storage())
                    except Exception:
                        pass
                self.next_fresh += 1
                self.ops.append(("f", n))
            self.op_names.append(name)
        return out


def _grid_slots(g) -> List[Tuple[str, torch.Tensor]]:
    return [(n, getattr(g, n)) for n in g.__slots__ if isinstance(getattr(g, n, None), torch.Tensor)]


def watch(obj, path: str, out: List[Tuple[str, torch.Tensor]]):
    """all tensors reachable from a call argument: tensors, Grid/Cube attribute tensors, containers"""
    if isinstance(obj, torch.Tensor):
        out.append((path, obj))
    elif isinstance(obj, (Grid, Cube)):
        for n, t in _grid_slots(obj):
            out.append((f"{path}.{n}", t))
    elif isinstance(obj, (list, tuple)):
        for i, v in enumerate(obj):
            watch(v, f"{path}[{i}]", out)
    elif isinstance(obj, dict):
        for k, v in obj.items():
            watch(v, f"{path}[{k}]", out)


def storage_bytes(t: torch.Tensor) -> torch.Tensor:
    st = t.untyped_storage()
    return torch.empty(0, dtype=torch.uint8).set_(st).clone()


def snap(t: torch.Tensor) -> dict:
    bits = (t.detach().reshape(-1).clone().contiguous().view(torch.uint8).clone() if t.numel()
            else torch.empty(0, dtype=torch.uint8))
    return {"bits": bits, "storage": storage_bytes(t), "version": t._version,
            "meta": (tuple(t.shape), tuple(t.stride()), t.storage_offset(), str(t.dtype), t.requires_grad)}


def diff(t: torch.Tensor, s: dict) -> List[str]:
    """what changed on tensor t since snapshot s: subset of bits/storage/version/meta"""
    out = []
    now = snap(t)
    if now["meta"] != s["meta"]:
        out.append("meta")
    if now["bits"].shape != s["bits"].shape or not torch.equal(now["bits"], s["bits"]):
        out.append("bits")
    if now["storage"].shape != s["storage"].shape or not torch.equal(now["storage"], s["storage"]):
        out.append("storage")
    if now["version"] != s["version"]:
        out.append("version")
    return out


def param_label(fn, path: str) -> str:
    """a0 -> parameter name of the public function when the signature is available"""
    return path


def run_entry(e: T.E, D: int, seed: int) -> dict:
    """build the arguments, run the call under the tracer, observe the arguments directly"""
    b = T.B(D, seed)
    fn, args, kwargs = e.build(b)
    watched: List[Tuple[str, torch.Tensor]] = []
    for i, a in enumerate(args):
        watch(a, f"a{i}", watched)
    for k, v in kwargs.items():
        watch(v, f"kw.{k}", watched)
    tr = Tracer()
    for _, t in watched:
        tr.declare(t)
    pre = [snap(t) for _, t in watched]
    tr.start()
    err = None
    out = None
    try:
        with tr:
            out = fn(*args, **kwargs)
    except Exception as ex:  # the call may raise (recorded); arguments are still observed
        err = f"{type(ex).__name__}: {str(ex)[:120]}"
    changed = {}
    for (p, t), s in zip(watched, pre):
        d = diff(t, s)
        if d:
            changed[p] = d
    arg_sids = []
    path_sid = {}
    for p, t in watched:
        s = tr.sid[tr._storage_key(t)]
        path_sid[p] = s
        if s not in arg_sids:
            arg_sids.append(s)
    res: List[Tuple[str, torch.Tensor]] = []
    watch(out, "r", res)
    res_ids = []
    for _, t in res:
        if id(t) in tr.tid:
            res_ids.append(tr.tid[id(t)])
        else:
            # a tensor object made outside the dispatcher (as_subclass, _make_subclass): use a known tensor on its storage
            k = tr._storage_key(t)
            if k in tr.sid and tr.sid[k] in tr.sid_owner:
                res_ids.append(tr.sid_owner[tr.sid[k]])
    res_alias = sorted({path_sid[p] for _, r in res for p, t in watched
                        if r.numel() and t.numel() and tr._storage_key(r) == tr._storage_key(t)})
    res_unknown = [p for p, t in res if id(t) not in tr.tid]
    return {"err": err, "changed": changed, "arg_sids": arg_sids, "path_sid": path_sid, "n_pre": tr.n_pre,
            "env": tr.env, "ops": tr.ops, "op_names": tr.op_names, "res_ids": res_ids, "res_alias": res_alias,
            "res_unknown": res_unknown, "n_late": len(tr.late_ext), "watched": [p for p, _ in watched]}


def trace_line(r: dict) -> str:
    toks = ["heap.check", str(len(r["arg_sids"]))] + [str(s) for s in r["arg_sids"]] + [str(r["n_pre"])]
    toks += [str(len(r["env"]))] + [f"{t} {s}" for t, s in r["env"]]
    toks += [str(len(r["res_ids"]))] + [str(t) for t in r["res_ids"]]
    toks += [str(len(r["ops"]))] + [" ".join(str(x) for x in op) for op in r["ops"]]
    return " ".join(toks)


ENTRY = {(e.ns, e.name, e.label): e for e in T.CALLS}
_RUNS: Dict[str, dict] = {}


def _n(tier, quick, thorough, search=None):
    return {"quick": quick, "thorough": thorough, "search": search or quick}[tier]


def gen_calls(rng: random.Random, tier: str):
    """oracle cases: value seeds different from the ones the correspondence stream uses"""
    seeds = _n(tier, 1, 3)
    for e in T.CALLS:
        for D in e.dims:
            for k in range(seeds):
                yield {"ns": e.ns, "name": e.name, "label": e.label, "D": D, "seed": rng.randrange(1 << 30) if k else 5001 + D}


def impl_calls(c):
    e = ENTRY[(c["ns"], c["name"], c["label"])]
    r = run_entry(e, c["D"], c["seed"])
    _RUNS[case_key(c)] = r
    mutated_sids = sorted({r["path_sid"][p] for p in r["changed"]})
    return {"err": r["err"], "mutated": mutated_sids, "changed": {p: d for p, d in r["changed"].items()},
            "alias": r["res_alias"], "ops": len(r["ops"]), "late": r["n_late"]}


def line_calls(c):
    r = _RUNS.get(case_key(c))
    if r is None:
        try:
            r = run_entry(ENTRY[(c["ns"], c["name"], c["label"])], c["D"], c["seed"])
        except Exception:
            return "heap.check 0 0 0 0 0"
    return trace_line(r)


def parse_check(out: str) -> dict:
    t = out.split()
    d = dict(zip(t[0::2], t[1::2]))
    lst = lambda s: [] if s == "-" else [int(x) for x in s.split(",")]
    return {"wf": d["wf"] == "1", "safe": d["safe"] == "1", "written": lst(d["written"]), "old": lst(d["old"]),
            "alias": lst(d["alias"])}


def cmp_calls(c, r, out):
    if isinstance(r, str):
        return f"harness: {r}"
    if proto.is_error(out) or not out.startswith("wf "):
        return f"model: {out[:80]}"
    m = parse_check(out)
    if not m["wf"]:
        return "trace is not well-formed (an op refers to an undeclared tensor id)"
    if m["safe"] != (not m["written"]):
        return "model inconsistent: safe vs written"
    if m["written"] != r["mutated"]:
        return f"monitor says argument storages {m['written']} are written; observed changed {r['mutated']} ({r['changed']})"
    if m["alias"] != r["alias"]:
        return f"monitor says results alias argument storages {m['alias']}; observed {r['alias']}"
    return None


def check_call(c):
    """the property itself, by direct observation: every tensor argument is bit-identical (value, whole
    storage, version counter, metadata) after the call — unless the entry is an explicit in-place variant,
    which must change exactly the named argument"""
    e = ENTRY[(c["ns"], c["name"], c["label"])]
    r = run_entry(e, c["D"], c["seed"])
    _note_signature(c, r)
    ch = r["changed"]
    where = f"{'losses' if e.ns == 'loss' else 'core'}.{e.name}"
    if e.expect == "pure":
        if ch:
            p = sorted(ch)[0]
            return (f"C15:{where}:mutates-argument:{e.label}", f"{where}[{e.label}] D={c['D']} changed argument {p}: {ch[p]}"
                    + (f" (call raised {r['err']})" if r["err"] else ""))
        return None
    want = e.expect.split(":", 1)[1]
    if r["err"]:
        return None
    if want not in ch:
        return (f"C15:{where}:inplace-variant-did-not-mutate:{e.label}", f"{where}[{e.label}] is an in-place variant but left {want} unchanged")
    other = [p for p in ch if p != want and r["path_sid"][p] != r["path_sid"][want]]
    if other:
        return (f"C15:{where}:mutates-argument:{e.label}", f"{where}[{e.label}] in-place variant also changed {other}")
    return None


def coverage() -> dict:
    names = T.public_names()
    ok: Dict[str, set] = {"core": set(), "loss": set()}
    raised: Dict[str, Dict[str, str]] = {"core": {}, "loss": {}}
    paths = 0
    for e in T.CALLS:
        for D in e.dims:
            r = run_entry(e, D, 1 + D)
            paths += 1
            if r["err"] is None:
                ok[e.ns].add(e.name)
            else:
                raised[e.ns].setdefault(e.name, r["err"])
    res = {}
    for ns in ("core", "loss"):
        res[ns] = {"public": len(names[ns]), "exercised": len(ok[ns] & set(names[ns])),
                   "not_callable": {n: raised[ns].get(n, "no table entry") for n in names[ns] if n not in ok[ns]}}
    res["paths"] = paths
    return res


STREAMS: List[Stream] = [
    Stream("calls", gen_calls, impl_calls, line_calls, cmp_calls,
           nontrivial=lambda c: True, exhaustive=True,
           doc="every entry of the argument table (all public names of core.functional and losses.functional, one entry per "
               "argument-form path, D in {2,3}): monitor verdict on the recorded op trace == direct observation of the arguments "
               "(bits, whole storage, _version, metadata); result-aliases-argument compared too"),
]

ORACLES: List[Oracle] = [
    Oracle("call_leaves_arguments", gen_calls, check_call,
           doc="direct before/after observation of every tensor argument for every table entry; in-place variants must mutate"),
]

ASSUMPTIONS = [
    "Part 1 is a proof about executions on enumerated call paths: one accepted trace proves non-mutation for all tensor "
    "values on that path (the trace does not depend on values — checked by re-tracing with different values), not for "
    "argument forms that are not in the table",
    "an aten op writes only to storages of arguments its schema marks as written (alias_info.is_write) and to storages it "
    "allocates itself; writes that bypass the dispatcher (numpy views, .data_ptr tricks) are invisible to the tracer and "
    "are caught by the direct observation instead",
]
TRUSTED = ["torch op schemas (is_mutable / alias_info.is_write) and storage identity (untyped_storage()._cdata)",
           "harness/props/c15_table.py argument table"]
RULE = ("finite tables enumerated exhaustively: every table entry × D; thorough adds random value seeds; distinct = "
        "distinct (name, path label, D, seed)")


# ============================================================================ part 2: object graphs
import copy as pycopy
import enum
import torch.nn as nn

from deepali.data import FlowField, FlowFields, Image, ImageBatch
from deepali.core.grid import Axes
import deepali.spatial as S

torch.set_num_threads(1)

T_NONE, T_TENSOR, T_PARAMETER, T_MODULE, T_FUNCTION, T_DICT, T_GRID, T_CUBE, T_IMAGE, T_TUPLE, T_SET, T_OTHER = range(12)
KEYS = {"_parameters": 1, "_buffers": 2, "_modules": 3, "_non_persistent_buffers_set": 4, "_forward_pre_hooks": 5,
        "_grid": 6, "_args": 7, "_kwargs": 8, "invert": 9, "params": 10, "p": 11, "u": 12, "v": 13, "exp": 14,
        "_transforms": 15, "_align_corners": 16, "align_corners": 16, "_size": 17, "_center": 18, "_spacing": 19,
        "_direction": 20, "_extent": 21, "<data>": 22, "_axes": 23, "scale": 24}
KEY_NAMES = {v: k for k, v in KEYS.items()}
KEY_NAMES[16] = "align_corners"
MODULE_SKIP = {"training", "_backward_pre_hooks", "_backward_hooks", "_is_full_backward_hook", "_forward_hooks",
               "_forward_hooks_with_kwargs", "_forward_hooks_always_called", "_forward_pre_hooks_with_kwargs",
               "_state_dict_hooks", "_state_dict_pre_hooks", "_load_state_dict_pre_hooks",
               "_load_state_dict_post_hooks", "_update_hook_handle", "_compiled_call_impl"}


class Graph:
    """Mirror of live Python objects as the node graph of Model/Heap.lean part 2.  Node identity =
    object identity (storages: StorageImpl address); ids are stable while the objects live (all kept)."""

    def __init__(self):
        self.keep: List[Any] = []
        self.oid: Dict[Any, int] = {("none",): 0}
        self.keyid: Dict[str, int] = dict(KEYS)
        self.immid: Dict[str, int] = {}
        self.dataid: Dict[Any, int] = {}

    def key(self, name) -> int:
        if isinstance(name, int):
            return 100 + name
        name = str(name)
        if name.isdigit():
            return 100 + int(name)
        if name not in self.keyid:
            self.keyid[name] = 200 + len(self.keyid)
        return self.keyid[name]

    def imm(self, v) -> int:
        r = repr(v)
        if r not in self.immid:
            self.immid[r] = len(self.immid) + 2
        return self.immid[r]

    def _id(self, k, obj=None) -> int:
        if k not in self.oid:
            self.oid[k] = len(self.oid)
            if obj is not None:
                self.keep.append(obj)
        return self.oid[k]

    @staticmethod
    def is_plain(v) -> bool:
        if v is None or isinstance(v, (bool, int, float, str, enum.Enum, torch.Size, torch.dtype, torch.device)):
            return True
        if isinstance(v, (tuple, list)):
            return all(Graph.is_plain(x) for x in v)
        return False

    def snapshot(self, roots) -> Dict[int, tuple]:
        """nodes reachable from roots: id -> (tag, data, [(key, ('r'|'i', val))])"""
        nodes: Dict[int, tuple] = {0: (T_NONE, 0, [])}
        stack = list(roots)

        def val(v):
            if v is None:
                return ("r", 0)
            if isinstance(v, (tuple, list)) and self.is_plain(v):
                return ("i", self.imm(tuple(v)))
            if self.is_plain(v):
                return ("i", self.imm(v))
            stack.append(v)
            return ("r", self.ref(v))

        while stack:
            o = stack.pop()
            if o is None:
                continue
            n = self.ref(o)
            if n in nodes:
                continue
            if isinstance(o, _Storage):
                b = bytes(o.bytes().numpy().tobytes())
                h = hashlib.sha1(b).hexdigest()
                nodes[n] = (T_OTHER, self.dataid.setdefault(h, len(self.dataid) + 1), [])
            elif isinstance(o, torch.Tensor):
                es = [(22, val(_Storage(o)))]
                tag = T_PARAMETER if isinstance(o, nn.Parameter) else T_TENSOR
                if isinstance(o, (ImageBatch, Image)):
                    tag = T_IMAGE
                    es.append((self.key("_grid"), val(o._grid)))
                    if hasattr(o, "_axes"):
                        es.append((self.key("_axes"), val(o._axes)))
                nodes[n] = (tag, 0, es)
            elif isinstance(o, (Grid, Cube)):
                es = [(self.key(s), val(getattr(o, s))) for s in o.__slots__]
                nodes[n] = (T_GRID if isinstance(o, Grid) else T_CUBE, 0, es)
            elif isinstance(o, nn.Module):
                es = [(self.key(k), val(v)) for k, v in o.__dict__.items() if k not in MODULE_SKIP]
                nodes[n] = (T_MODULE, 0, es)
            elif isinstance(o, dict):
                nodes[n] = (T_DICT, 0, [(self.key(k), val(v)) for k, v in o.items()])
            elif isinstance(o, (set, frozenset)):
                nodes[n] = (T_SET, 0, [(self.key(k), ("i", 1)) for k in sorted(o)])
            elif isinstance(o, (tuple, list)):
                nodes[n] = (T_TUPLE, 0, [(100 + i, val(v)) for i, v in enumerate(o)])
            elif callable(o):
                nodes[n] = (T_FUNCTION, 0, [])
            else:
                nodes[n] = (T_OTHER, 0, [])
        return nodes

    def ref(self, o) -> int:
        if o is None:
            return 0
        if isinstance(o, _Storage):
            return self._id(("s", o.cdata), o.st)
        return self._id(("o", id(o)), o)


class _Storage:
    """handle on the storage of a tensor (node identity = StorageImpl address)"""

    def __init__(self, t: torch.Tensor):
        self.st = t.untyped_storage()
        self.cdata = self.st._cdata

    def bytes(self):
        return torch.empty(0, dtype=torch.uint8).set_(self.st).clone()


def tree(nodes: Dict[int, tuple], v, fuel: int = 10):
    """same shape as Lean `viewVal`"""
    kind, x = v
    if kind == "i":
        return ("imm", x)
    if fuel == 0:
        return ("cut",)
    tag, data, es = nodes[x]
    return ("node", x, tag, data, [(k, tree(nodes, e, fuel - 1)) for k, e in es])


def diff_paths(pre, a, b) -> List[tuple]:
    """same as Lean `diffPaths`"""
    if a[0] == "imm" and b[0] == "imm":
        return [] if a[1] == b[1] else [tuple(pre)]
    if a[0] == "cut" and b[0] == "cut":
        return []
    if a[0] == "node" and b[0] == "node":
        if a[1] != b[1] or a[2] != b[2]:
            return [tuple(pre)]
        out = [tuple(pre)] if a[3] != b[3] else []
        kb = dict(b[4])
        ka = dict(a[4])
        for k, v in a[4]:
            if k in kb:
                out += diff_paths(pre + [k], v, kb[k])
            else:
                out.append(tuple(pre + [k]))
        for k, _ in b[4]:
            if k not in ka:
                out.append(tuple(pre + [k]))
        return out
    return [tuple(pre)]


def shared_paths(pre, a, b) -> List[tuple]:
    if a[0] == "node" and b[0] == "node":
        out = [tuple(pre)] if a[1] == b[1] else []
        kb = dict(b[4])
        for k, v in a[4]:
            if k in kb:
                out += shared_paths(pre + [k], v, kb[k])
        return out
    return []


def fmt_paths(ps) -> str:
    if not ps:
        return "-"
    return ",".join(sorted({".".join(str(k) for k in p) if p else "@" for p in ps}))


def serialise(nodes: Dict[int, tuple]) -> str:
    n = max(nodes) + 1
    toks = [str(n)]
    for i in range(n):
        tag, data, es = nodes.get(i, (T_NONE, 0, []))
        toks += [str(tag), str(data), str(len(es))]
        for k, (kind, v) in es:
            toks += [str(k), kind, str(v)]
    return " ".join(toks)


def _resolve(toks: str, g: Graph) -> str:
    """`{imm:<python literal>}` -> the graph's number for that immediate value"""
    import ast
    import re
    toks = re.sub(r"\{key:([^}]*)\}", lambda m: str(g.key(m.group(1))), toks)
    return re.sub(r"\{imm:([^}]*)\}", lambda m: str(g.imm(ast.literal_eval(m.group(1)))), toks)


class Scenario:
    """A pool of live objects and a list of steps; each step is (self index, arg index or None,
    model program tokens, python action(self, arg) -> result).  Runs the steps on the real objects and
    records per step: raised?, changed paths per pool object, paths the result shares with the receiver."""

    def __init__(self, pool: List[Any], steps: List[tuple]):
        self.pool = list(pool)
        self.steps = steps
        self.errors: List[str] = []

    def run(self):
        g = Graph()
        nodes0 = g.snapshot(self.pool)
        header = serialise(nodes0)
        pool_ids = [g.ref(o) for o in self.pool]
        recs = []
        for (si, ai, toks, action) in self.steps:
            before_nodes = g.snapshot(self.pool)
            before = [tree(before_nodes, ("r", g.ref(o))) for o in self.pool]
            me = self.pool[si] if si < len(self.pool) else None
            arg = self.pool[ai] if ai is not None and ai < len(self.pool) else None
            raised = None
            res = None
            try:
                res = action(me, arg)
            except Exception as ex:
                raised = f"{type(ex).__name__}: {str(ex)[:100]}"
                self.errors.append(raised)
            roots = self.pool + ([res] if res is not None else [])
            after_nodes = g.snapshot(roots)
            after = [tree(after_nodes, ("r", g.ref(o))) for o in self.pool]
            chg = []
            for i, (b, a) in enumerate(zip(before, after)):
                d = diff_paths([], b, a)
                if d:
                    chg.append(f"{i}:{fmt_paths(d)}")
            if raised is None and res is not None:
                shr = fmt_paths(shared_paths([], tree(after_nodes, ("r", g.ref(res))), tree(after_nodes, ("r", g.ref(me)))))
            else:
                shr = "-"
            recs.append(f"{'raised' if raised else 'ok'} chg {';'.join(chg) if chg else '-'} shr {shr}")
            if raised is None and res is not None and res is not me:
                self.pool.append(res)
            self.raised = raised
        line = f"heap.run {header} {len(pool_ids)} {' '.join(str(i) for i in pool_ids)} {len(self.steps)} " + " ".join(
            f"{si} {'-' if ai is None else ai} {_resolve(toks, g)}" for (si, ai, toks, _) in self.steps)
        return "|".join(recs), line, g


# ---------------------------------------------------------------------------- scenario builders
def _g(D, seed=0, ac=True, n=None):
    rnd = random.Random(seed)
    size = tuple(n or rnd.randint(4, 7) for _ in range(D))
    return Grid(size=size, spacing=tuple(rnd.choice([0.5, 1.0, 2.0]) for _ in range(D)),
                center=tuple(rnd.uniform(-3, 3) for _ in range(D)), align_corners=ac)


def _vec(D, rnd):
    return tuple(round(rnd.uniform(0.5, 3.0), 3) for _ in range(D))


def _rotmat(D, rnd):
    import math
    a = rnd.uniform(-1, 1)
    c, s = math.cos(a), math.sin(a)
    if D == 2:
        return torch.tensor([[c, -s], [s, c]], dtype=torch.float32)
    return torch.tensor([[c, -s, 0], [s, c, 0], [0, 0, 1]], dtype=torch.float32)


GRID_SLOT_GET = {"center": lambda g: g.center(), "spacing": lambda g: g.spacing(), "direction": lambda g: g.direction()}
CUBE_SLOT_GET = {"center": lambda c: c.center(), "direction": lambda c: c.direction(), "extent": lambda c: c.extent()}


def grid_ops(D, rnd, pool, kind="grid"):
    """all (tokens, action, needs_arg_index) choices for a Grid (or Cube) receiver; tensor arguments live in the pool"""
    ops = []
    acc, sett, clone, poke = ("gacc", "gset", "gclone", "gpoke") if kind == "grid" else ("cacc", "cset", "cclone", "cpoke")
    names = ("center", "spacing", "direction") if kind == "grid" else ("center", "extent", "direction")
    vec_idx = [i for i, o in enumerate(pool) if isinstance(o, torch.Tensor) and o.ndim == 1]
    mat_idx = [i for i, o in enumerate(pool) if isinstance(o, torch.Tensor) and o.ndim == 2]
    for name in names:
        getter = name
        v = _vec(D, rnd)
        if name == "direction":
            m = _rotmat(D, rnd).flatten().tolist()
            ops.append((f"{acc} direction c", (lambda m: lambda g, a: g.direction(m))(m), None))
            ops.append((f"{sett} direction c", (lambda m: lambda g, a: g.direction_(m))(m), None))
            for i in mat_idx:
                ops.append((f"{acc} direction s", lambda g, a: g.direction(a), i))
                ops.append((f"{sett} direction s", lambda g, a: g.direction_(a), i))
        else:
            ops.append((f"{acc} {name} c", (lambda name, v: lambda g, a: getattr(g, name)(*v))(name, v), None))
            ops.append((f"{acc} {name} c", (lambda name, v: lambda g, a: getattr(g, name)(list(v)))(name, v), None))
            ops.append((f"{sett} {name} c", (lambda name, v: lambda g, a: getattr(g, name + "_")(*v))(name, v), None))
            ops.append((f"{acc} {name} c", (lambda name, v: lambda g, a: getattr(g, name)(torch.tensor(v, dtype=torch.float64)))(name, v), None))
            for i in vec_idx:
                ops.append((f"{acc} {name} s", (lambda name: lambda g, a: getattr(g, name)(a))(name), i))
                ops.append((f"{sett} {name} s", (lambda name: lambda g, a: getattr(g, name + "_")(a))(name), i))
        if name != "direction":    # (a perturbed direction matrix would fail the rotation check of a later direction_(a))
            ops.append((f"{poke} {name}", (lambda name: lambda g, a: (getattr(g, name)().add_(0.25), g)[1])(name), None))
    v = _vec(D, rnd)
    ops.append((f"{acc} origin", lambda g, a: g.origin(*v), None))
    ops.append((f"{sett} origin", lambda g, a: g.origin_(list(v)), None))
    for i in vec_idx:
        ops.append((f"{acc} origin", lambda g, a: g.origin(a), i))
    if kind == "grid":
        for b in (True, False):
            ops.append((f"gacc ac {{imm:{b}}}", (lambda b: lambda g, a: g.align_corners(b))(b), None))
            ops.append((f"gset ac {{imm:{b}}}", (lambda b: lambda g, a: g.align_corners_(b))(b), None))
    ops.append((clone, lambda g, a: g.clone(), None))
    ops.append((clone, lambda g, a: pycopy.deepcopy(g), None))
    return ops


def gen_grid_programs(rng: random.Random, tier: str):
    """every accessor form once on a fresh receiver (exhaustive), then random short programs"""
    for kind in ("grid", "cube"):
        for D in (2, 3):
            n_ops = len(grid_ops(D, random.Random(0), _grid_pool(kind, D, 0), kind))
            for k in range(n_ops):
                yield {"kind": kind, "D": D, "seed": 0, "ops": [[0, k]]}
    for _ in range(_n(tier, 60, 4000)):
        kind = rng.choice(["grid", "cube"])
        D = rng.choice([2, 3])
        seed = rng.randrange(1 << 30)
        yield {"kind": kind, "D": D, "seed": seed, "ops": [[rng.randrange(1 << 20), rng.randrange(1 << 20)] for _ in range(rng.randint(2, _n(tier, 5, 8)))]}


def _grid_pool(kind, D, seed):
    rnd = random.Random(seed)
    g = _g(D, seed)
    obj = g if kind == "grid" else g.cube()
    vecs = [torch.tensor(_vec(D, rnd), dtype=torch.float32) for _ in range(2)]
    mats = [_rotmat(D, rnd)]
    return [obj] + vecs + mats


def build_grid_scenario(c) -> Scenario:
    kind, D = c["kind"], c["D"]
    pool = _grid_pool(kind, D, c["seed"])
    rnd = random.Random(c["seed"] + 1)
    steps = []
    n_obj = 1                   # pool grows by one object per successful non-in-place step
    objs = [0]
    for (pick_obj, pick_op) in c["ops"]:
        ops = grid_ops(D, rnd, pool, kind)
        toks, action, ai = ops[pick_op % len(ops)]
        si = objs[pick_obj % len(objs)]
        steps.append((si, ai, toks, action))
        if not (toks.startswith(("gset", "cset", "gpoke", "cpoke"))):
            objs.append(len(pool) + len(objs) - 1)
    return Scenario(pool, steps)


def _run_scenario(c, builder):
    sc = builder(c)
    rec, line, g = sc.run()
    _RUNS[case_key(c)] = line
    return rec


def _line_scenario(c, builder):
    line = _RUNS.get(case_key(c))
    if line is None:
        try:
            _, line, _ = builder(c).run()
        except Exception:
            return "heap.run 1 0 0 0 0 0"
    return line


def _split(rec: str):
    out = []
    for r in rec.split("|"):
        t = r.split()
        out.append({"status": t[0], "chg": t[2], "shr": t[4]}) if len(t) == 5 else out.append({"status": r})
    return out


def cmp_scenario(ignore_shr=lambda c, i: False):
    def cmp(c, r, out):
        if not isinstance(r, str) or r.startswith("err:"):
            return f"harness/impl: {r}"
        if proto.is_error(out):
            return f"model: {out[:100]}"
        a, b = _split(r), _split(out)
        if len(a) != len(b):
            return f"{len(a)} steps vs {len(b)}"
        for i, (x, y) in enumerate(zip(a, b)):
            if x["status"] != y["status"]:
                return f"step {i}: impl {x['status']} vs model {y['status']}"
            if x.get("chg") != y.get("chg"):
                return f"step {i}: changed paths impl {x.get('chg')} vs model {y.get('chg')}"
            if not ignore_shr(c, i) and x.get("shr") != y.get("shr"):
                return f"step {i}: shared paths impl {x.get('shr')} vs model {y.get('shr')}"
        return None
    return cmp


# ---------------------------------------------------------------------------- images
def _image_pool(kind, D, seed):
    rnd = random.Random(seed)
    gen = torch.Generator().manual_seed(seed)
    g1 = _g(D, seed, n=6)
    g2 = _g(D, seed + 1, n=6)
    shape = tuple(reversed(g1.size()))
    if kind == "image":
        obj = Image(torch.rand((2,) + shape, generator=gen), g1)
    elif kind == "batch":
        obj = ImageBatch(torch.rand((3, 2) + shape, generator=gen), [g1, _g(D, seed + 2, n=6), _g(D, seed + 3, n=6)])
    elif kind == "flowfield":
        obj = FlowField(0.1 * torch.randn((D,) + shape, generator=gen), g1)
    else:
        obj = FlowFields(0.1 * torch.randn((2, D) + shape, generator=gen), [g1, _g(D, seed + 2, n=6)])
    return [obj, g2]


def _nbatch(o):
    return o.shape[0] if isinstance(o, ImageBatch) else None


def image_ops(kind, D, rnd):
    """(tokens, action, arg index); `{n}` in tokens is replaced by the batch size of the receiver"""
    batch = kind in ("batch", "flowfields")
    ops = [
        ("bgrid {n}" if batch else "igrid", lambda x, g: x.grid(g), 1),
        ("ishallow", lambda x, g: pycopy.copy(x), None),
        ("bdeep {n}" if batch else "ideep", lambda x, g: pycopy.deepcopy(x), None),
        ("bgridset {n}" if batch else "igridset", lambda x, g: x.grid_(g), 1),
        ("ipoke", lambda x, g: (x.add_(0.5), x)[1], None),
        ("ipoke", lambda x, g: (x.mul_(1.5), x)[1], None),
    ]
    if kind in ("image", "batch"):
        ops.append(("ipoke", lambda x, g: (x.normalize_(), x)[1], None))
    fun = [
        lambda x, g: x.resize(9),
        lambda x, g: x.resize(x.grid().size()),
        (lambda x, g: x.resample(0.7)) if not batch else (lambda x, g: x.resize(7)),
        lambda x, g: x.crop(margin=1),
        lambda x, g: x.crop(margin=0),
        lambda x, g: x.pad(margin=1),
        lambda x, g: x.pad(margin=0),
        lambda x, g: x.center_crop(4),
        lambda x, g: x.center_pad(8),
        lambda x, g: x.downsample(1),
        lambda x, g: x.downsample(0),
        lambda x, g: x.upsample(1),
        lambda x, g: x.avg_pool(2),
        lambda x, g: x.sample(g),
        lambda x, g: x.sample(x.grid()),
        lambda x, g: x.rescale(0, 1),
        lambda x, g: x.narrow(x.ndim - 1, 1, 3),
        lambda x, g: x.conv(torch.tensor([0.25, 0.5, 0.25])),
        lambda x, g: x + 1,
        lambda x, g: x.clone(),
        lambda x, g: x.region_of_interest((1,) * D, (3,) * D),
    ]
    if kind in ("image", "batch"):
        fun += [lambda x, g: x.normalize(), lambda x, g: x.normalize(mode="center")]
        fun += [lambda x, g: x.pyramid(2)[1]]
    else:
        fun += [lambda x, g: x.axes(Axes.GRID), lambda x, g: x.axes(x.axes()), lambda x, g: x.exp(steps=2)]
        fun += [lambda x, g: x.warp_image(ImageBatch(torch.rand((1, 1) + tuple(x.shape[-D:]))) if x.ndim == D + 2
                else Image(torch.rand((1,) + tuple(x.shape[-D:]))))]
    ops += [("ifun", f, 1) for f in fun]
    return ops


def gen_image_programs(rng: random.Random, tier: str):
    for kind in ("image", "batch", "flowfield", "flowfields"):
        for D in (2, 3):
            n = len(image_ops(kind, D, random.Random(0)))
            for k in range(n):
                yield {"kind": kind, "D": D, "seed": 1, "ops": [[0, k]]}
    for _ in range(_n(tier, 40, 2500)):
        yield {"kind": rng.choice(["image", "batch", "flowfield", "flowfields"]), "D": rng.choice([2, 3]), "seed": rng.randrange(1 << 30),
               "ops": [[rng.randrange(1 << 20), rng.randrange(1 << 20)] for _ in range(rng.randint(2, _n(tier, 4, 7)))]}


def build_image_scenario(c) -> Scenario:
    kind, D = c["kind"], c["D"]
    pool = _image_pool(kind, D, c["seed"])
    rnd = random.Random(c["seed"] + 1)
    ops = image_ops(kind, D, rnd)
    nb = _nbatch(pool[0])
    steps, objs = [], [0]
    for (pick_obj, pick_op) in c["ops"]:
        toks, action, ai = ops[pick_op % len(ops)]
        # programs of several steps use only the structural operations (the result of a functional op is
        # an unrelated object: nothing further to learn from it)
        if len(c["ops"]) > 1:
            # (normalize_ is idempotent: a second application writes identical bits; only add_/mul_ are used as in-place
            #  writes inside longer programs)
            structural = [o for o in ops if o[0] != "ifun"][:6]
            toks, action, ai = structural[pick_op % len(structural)]
        steps.append((objs[pick_obj % len(objs)], ai, toks.replace("{n}", str(nb)), action))
        if not toks.startswith(("igridset", "bgridset", "ipoke")):
            objs.append(len(pool) + len(objs) - 1)
    return Scenario(pool, steps)


def _ignore_shr_image(c, i):
    ops = image_ops(c["kind"], c["D"], random.Random(0))
    if len(c["ops"]) > 1:
        return False
    return ops[c["ops"][i][1] % len(ops)][0] == "ifun"


# ---------------------------------------------------------------------------- spatial transforms
class _ParamNet(nn.Module):
    """a callable nn.Module as `params` (predicts the parameters)"""

    def __init__(self, shape):
        super().__init__()
        self.shape = tuple(shape)
        self.bias = nn.Parameter(torch.full(self.shape, 0.01))

    def forward(self, *args, **kwargs):
        return self.bias * 1.0


# class name -> (constructor, flags nonrigid composite sequential dense svf bspline invertible, matrix mode)
TCLASSES = {
    "Translation": (lambda g, p: S.Translation(g, params=p), "0 0 0 0 0 0 1", None),
    "Homogeneous": (lambda g, p: S.HomogeneousTransform(g, params=p), "0 0 0 0 0 0 1", "1"),
    "EulerRotation": (lambda g, p: S.EulerRotation(g, params=p), "0 0 0 0 0 0 1", "0"),
    "Disp": (lambda g, p: S.DisplacementFieldTransform(g, params=p), "1 0 0 1 0 0 0", None),
    "SVF": (lambda g, p: S.StationaryVelocityFieldTransform(g, params=p, steps=2), "1 0 0 1 1 0 1", None),
    "FFD": (lambda g, p: S.FreeFormDeformation(g, params=p, stride=2), "1 0 0 0 0 1 0", None),
    "SVFFD": (lambda g, p: S.StationaryVelocityFreeFormDeformation(g, params=p, stride=2, steps=2), "1 0 0 0 1 1 1", None),
}
PKINDS = ("param", "buffer", "none", "function", "module", "linked")


def make_leaf(cls: str, kind: str, grid: Grid, seed: int = 0):
    ctor = TCLASSES[cls][0]
    gen = torch.Generator().manual_seed(seed)
    probe = ctor(grid, False)
    shape = tuple(probe.data().shape)

    def rnd():
        t = 0.05 * torch.randn(shape, generator=gen)
        if cls == "Homogeneous":
            t = t + torch.eye(shape[1], shape[2])
        return t

    if kind == "param":
        t = ctor(grid, nn.Parameter(rnd()))
    elif kind == "buffer":
        t = ctor(grid, rnd())
    elif kind == "none":
        t = ctor(grid, None)
    elif kind == "function":
        val = rnd()
        t = ctor(grid, lambda *a, **k: val)
    elif kind == "module":
        t = ctor(grid, _ParamNet(shape))
    elif kind == "linked":
        base = ctor(grid, rnd())
        t = ctor(grid, None).link(base)
    else:
        raise ValueError(kind)
    return t, shape


def _tgrid(D, ac=True, n=9):
    return Grid(size=(n,) * D, spacing=(1.0, 0.5, 2.0)[:D], center=(1.0, -2.0, 0.5)[:D], align_corners=ac)


def transform_cases():
    """(cls, kind, accessor, variant) for leaf transforms; composite cases are listed separately"""
    out = []
    for cls in TCLASSES:
        for kind in PKINDS:
            for acc, variants in (("cond", [""]), ("data", ["tensor", "parameter"]), ("link", ["buffer", "none"]), ("unlink", [""]),
                                  ("inverse", ["00", "10", "01", "11"]), ("grid", ["same", "equal", "size", "ac"]),
                                  ("matrix", [""]), ("copy", [""]), ("deep", [""])):
                if acc == "matrix" and TCLASSES[cls][2] is None:
                    continue
                if acc == "deep" and kind not in ("param", "buffer"):
                    continue
                for v in variants:
                    out.append((cls, kind, acc, v))
    return out


COMPOSITES = {
    # name -> (children [(cls, kind)], class)
    "Seq(T,SVF)": ([("Translation", "param"), ("SVF", "param")], "seq"),
    "Seq(T,SVF)b": ([("Translation", "buffer"), ("SVF", "buffer")], "seq"),
    "Seq(T,Disp)": ([("Translation", "buffer"), ("Disp", "buffer")], "seq"),
    "Multi(T,Disp)": ([("Translation", "param"), ("Disp", "param")], "multi"),
    "Multi(T,T)b": ([("Translation", "buffer"), ("Translation", "buffer")], "multi"),
}


def composite_cases():
    out = []
    for name in COMPOSITES:
        for acc, variants in (("cond", [""]), ("inverse", ["00", "10", "01"]), ("grid", ["same", "equal", "size", "ac"]), ("copy", [""])):
            for v in variants:
                out.append((name, "-", acc, v))
    return out


def gen_transform_cases(rng: random.Random, tier: str):
    for D in ((2,) if tier == "quick" else (2, 3)):
        for (cls, kind, acc, v) in transform_cases() + composite_cases():
            yield {"cls": cls, "kind": kind, "acc": acc, "variant": v, "D": D, "updated": True}
            if acc in ("cond", "grid", "data") and cls in ("Disp", "SVF", "SVFFD", "FFD"):
                yield {"cls": cls, "kind": kind, "acc": acc, "variant": v, "D": D, "updated": False}


def _flags(cls):
    if cls in TCLASSES:
        return TCLASSES[cls][1]
    kids, kind = COMPOSITES[cls]
    nr = " ".join("1" if k[0] in ("Disp", "SVF", "FFD", "SVFFD") else "0" for k in kids)
    sv = " ".join("1" if k[0] in ("SVF", "SVFFD") else "0" for k in kids)
    ci = " ".join(TCLASSES[k[0]][1].split()[-1] for k in kids)
    if kind == "seq":
        return f"0 {len(kids)} 1 0 0 0 1 {nr} {sv} {ci}"
    return f"0 {len(kids)} 0 0 0 0 0 {nr} {sv} {ci}"


def build_transform_scenario(c) -> Scenario:
    D, cls, kind, acc, v = c["D"], c["cls"], c["kind"], c["acc"], c["variant"]
    if cls == "EulerRotation" and acc == "matrix":
        D = 3                      # EulerRotation.matrix_ only accepts (N, 3, 3) rotation matrices
    grid = _tgrid(D)
    if cls in TCLASSES:
        t, shape = make_leaf(cls, kind, grid, 1)
    else:
        kids, ckind = COMPOSITES[cls]
        children = [make_leaf(k[0], k[1], grid, 2 + i)[0] for i, k in enumerate(kids)]
        t = (S.SequentialTransform if ckind == "seq" else S.MultiLevelTransform)(*children)
        shape = None
    if c.get("updated") and acc != "deep":     # (deepcopy refuses non-leaf buffers such as `u` computed from a Parameter)
        try:
            t.update()
        except Exception:
            pass
    flags = _flags(cls)
    pool: List[Any] = [t]
    if acc == "cond":
        x = torch.rand(1, 3)
        pool.append((x,))
        steps = [(0, 1, f"tcond {flags}", lambda s, a: s.condition(*a))]
    elif acc == "data":
        arg = 0.1 * torch.rand(shape)
        if v == "parameter":
            arg = nn.Parameter(arg)
        pool.append(arg)
        steps = [(0, 1, f"tdata {flags}", lambda s, a: s.data(a))]
    elif acc == "link":
        other, _ = make_leaf(cls, v, grid, 5)
        pool.append(other)
        steps = [(0, 1, f"tlink {flags}", lambda s, a: s.link(a))]
    elif acc == "unlink":
        steps = [(0, None, "tunlink", lambda s, a: s.unlink())]
    elif acc == "inverse":
        link, ub = v[0] == "1", v[1] == "1"
        inv = f"{{imm:{not getattr(t, 'invert', False)}}}"
        steps = [(0, None, f"tinverse {flags} {int(link)} {int(ub)} {inv}", lambda s, a: s.inverse(link=link, update_buffers=ub))]
    elif acc == "grid":
        if v == "same":
            g2 = t.grid()
        elif v == "equal":
            g2 = _tgrid(D)
        elif v == "size":
            g2 = Grid(size=(17,) * D, spacing=tuple(s / 2 for s in (1.0, 0.5, 2.0)[:D]), center=(1.0, -2.0, 0.5)[:D], align_corners=True)
        else:
            g2 = _tgrid(D, ac=False)
        pool.append(g2)
        # base.py grid_ (after fix 1487985): unchanged iff the grids compare equal AND carry the same align_corners flag
        same = int(t.grid() == g2 and t.grid().align_corners() == g2.align_corners())
        if isinstance(t, S.BSplineTransform):
            same = int(t.grid() == g2)      # bspline.py grid_ has its own test `self._grid != grid` (flag not compared)
        sub = int(v == "size")
        valid = int(g2.align_corners() and g2.same_domain_as(t.grid()))
        steps = [(0, 1, f"tgrid {flags} {same} {sub} {valid} {{imm:{g2.align_corners()}}}", lambda s, a: s.grid(a))]
    elif acc == "matrix":
        m = (torch.eye(D, D + 1).unsqueeze(0) + 0.01 * torch.rand(1, D, D + 1)) if cls != "EulerRotation" else _rotmat(3, random.Random(3)).unsqueeze(0)
        pool.append(m)
        steps = [(0, 1, f"tmatrix {TCLASSES[cls][2]}", lambda s, a: s.matrix(a))]
    elif acc == "copy":
        steps = [(0, None, f"tcopy {flags}", lambda s, a: pycopy.copy(s))]
    elif acc == "deep":
        def toks(gr=None):
            return ""
        pk = [k for k, p in t._parameters.items() if p is not None]
        bk = [k for k, b in t._buffers.items() if b is not None]
        steps = [(0, None, "tdeep " + " ".join([str(len(pk))] + [f"{{key:{k}}}" for k in pk] + [str(len(bk))] + [f"{{key:{k}}}" for k in bk]),
                  lambda s, a: pycopy.deepcopy(s))]
    else:
        raise ValueError(acc)
    return Scenario(pool, steps)


# ---------------------------------------------------------------------------- getters of transforms (part-1 machinery)
def _module_tensors(m: nn.Module) -> List[Tuple[str, torch.Tensor]]:
    out = []
    for n, p in m.named_parameters():
        out.append((f"param:{n}", p))
    for n, b in m.named_buffers():
        if b is not None and n.split(".")[-1] in ("params",):
            out.append((f"buffer:{n}", b))
    return out


_watch_plain = watch


def watch(obj, path: str, out: List[Tuple[str, torch.Tensor]]):  # noqa: F811  (extends the part-1 watcher to modules)
    if isinstance(obj, nn.Module):
        for n, t in _module_tensors(obj):
            out.append((f"{path}.{n}", t))
    else:
        _watch_plain(obj, path, out)


def _homog_pair(kind, D, ctor):
    g = _tgrid(D)
    kids = [make_leaf("Homogeneous", kind, g, 1)[0], make_leaf("Homogeneous", kind, g, 2)[0]]
    return ctor(*kids)


def _method_entries():
    getters = {
        "tensor": lambda t: t.tensor(),
        "disp": lambda t: t.disp(),
        "call": lambda t: t(torch.rand(1, 5, t.ndim) * 2 - 1),
        "update": lambda t: t.update(),
        "flow": lambda t: t.flow(),
        "points": lambda t: t.points(torch.rand(1, 5, t.ndim) * 2 - 1),
    }
    entries = []
    for cls in TCLASSES:
        for kind in ("param", "buffer", "function", "linked"):
            for gname, gfn in getters.items():
                entries.append(T.E("method", f"{cls}.{gname}", kind,
                                   (lambda cls, kind, gfn: lambda b: (gfn, (make_leaf(cls, kind, _tgrid(b.D), 1)[0],), {}))(cls, kind, gfn)))
        entries.append(T.E("method", f"{cls}.matrix", "buffer",
                           (lambda cls: lambda b: ((lambda t: t.matrix()), (make_leaf(cls, "buffer", _tgrid(b.D), 1)[0],), {}))(cls)))
    for cname, ctor in (("SequentialTransform", S.SequentialTransform), ("MultiLevelTransform", S.MultiLevelTransform)):
        for kind in ("param", "buffer"):
            for gname, gfn in getters.items():
                entries.append(T.E("method", f"{cname}.{gname}", f"linear-{kind}",
                                   (lambda ctor, kind, gfn: lambda b: (gfn, (_homog_pair(kind, b.D, ctor),), {}))(ctor, kind, gfn)))
                entries.append(T.E("method", f"{cname}.{gname}", f"linear-{kind}-no_grad",
                                   (lambda ctor, kind, gfn: lambda b: ((lambda t: _no_grad(gfn, t)), (_homog_pair(kind, b.D, ctor),), {}))(ctor, kind, gfn)))
                entries.append(T.E("method", f"{cname}.{gname}", f"nonrigid-{kind}",
                                   (lambda ctor, kind, gfn: lambda b: (gfn, (ctor(make_leaf("Translation", kind, _tgrid(b.D), 1)[0],
                                                                                  make_leaf("SVF", kind, _tgrid(b.D), 2)[0]),), {}))(ctor, kind, gfn)))
    return entries


def _no_grad(fn, t):
    with torch.no_grad():
        return fn(t)


METHODS = _method_entries()
for _e in METHODS:
    ENTRY[(_e.ns, _e.name, _e.label)] = _e


def gen_methods(rng: random.Random, tier: str):
    for e in METHODS:
        for D in ((2,) if tier == "quick" else (2, 3)):
            yield {"ns": e.ns, "name": e.name, "label": e.label, "D": D, "seed": 1}


def check_method(c):
    e = ENTRY[(c["ns"], c["name"], c["label"])]
    r = run_entry(e, c["D"], c["seed"])
    if r["changed"]:
        p = sorted(r["changed"])[0]
        cls, meth = e.name.split(".")
        if cls == "MultiLevelTransform" and c["label"].startswith("linear"):
            meth, what = "tensor", "inplace-sum"          # every getter of a linear MultiLevelTransform goes through tensor()
        else:
            what = f"mutates:{p.split('.', 1)[1]}"
        return (f"C15:{cls}.{meth}:{what}", f"{e.name}() [{e.label}] D={c['D']} changed {p}: {r['changed'][p]}")
    return None


# ---------------------------------------------------------------------------- oracles (direct observation)
def _receiver_changes(rec: str, step: int = 0, obj: int = 0) -> List[str]:
    r = _split(rec)[step]
    if r.get("chg", "-") == "-":
        return []
    for part in r["chg"].split(";"):
        i, paths = part.split(":", 1)
        if int(i) == obj:
            return paths.split(",")
    return []


def _names(g: Graph, path: str) -> str:
    inv = {v: k for k, v in g.keyid.items()}
    inv[16] = "align_corners"
    return ".".join(inv.get(int(k), k) if k != "@" else "@" for k in path.split("."))


def check_grid_program(c):
    """non-underscore Grid/Cube accessors and clones leave every existing object bit-identical; the in-place
    setters change the object they are called on (sanity of the observer) and nothing else that does not share it"""
    sc = build_grid_scenario(c)
    rec, _, g = sc.run()
    recs = _split(rec)
    cls = "Grid" if c["kind"] == "grid" else "Cube"
    for i, ((si, ai, toks, _), r) in enumerate(zip(sc.steps, recs)):
        inplace = toks.startswith(("gset", "cset", "gpoke", "cpoke"))
        name = toks.split()[1] if len(toks.split()) > 1 else toks
        if r["status"] != "ok":
            continue
        if not inplace and r["chg"] != "-":
            part = r["chg"].split(";")[0]
            return (f"C15:{cls}.{name}:mutates-receiver", f"{cls}.{name}(arg) [{toks}] changed existing object(s): "
                    + "; ".join(f"pool[{p.split(':')[0]}] at {', '.join(_names(g, q) for q in p.split(':', 1)[1].split(','))}" for p in r["chg"].split(";")))
        if inplace and len(sc.steps) == 1 and not _receiver_changes(rec, i, si) and "ac" not in toks:
            return (f"C15:{cls}.{name}_:inplace-variant-did-not-mutate", f"{toks} left its receiver unchanged")
    return None


def check_image_program(c):
    sc = build_image_scenario(c)
    rec, _, g = sc.run()
    recs = _split(rec)
    cls = {"image": "Image", "batch": "ImageBatch", "flowfield": "FlowField", "flowfields": "FlowFields"}[c["kind"]]
    for i, ((si, ai, toks, _), r) in enumerate(zip(sc.steps, recs)):
        inplace = toks.startswith(("igridset", "bgridset", "ipoke"))
        if r["status"] != "ok":
            continue
        if not inplace and r["chg"] != "-":
            op = c["ops"][i][1] if len(c["ops"]) == 1 else toks.split()[0]
            return (f"C15:{cls}:op{op}:mutates-receiver", f"{cls} operation [{toks}, op {op}] changed existing object(s): {r['chg']}")
        if inplace and len(sc.steps) == 1 and not _receiver_changes(rec, i, si):
            return (f"C15:{cls}:inplace-variant-did-not-mutate:{toks.split()[0]}", f"{toks} left its receiver unchanged")
    return None


def _probe(t):
    """behaviour of a transform on fixed input (evaluated after all state comparisons)"""
    try:
        with torch.no_grad():
            t.update()
            y = t.tensor()
            return hashlib.sha1(y.detach().contiguous().numpy().tobytes()).hexdigest()
    except Exception as ex:
        return f"err:{type(ex).__name__}"


def check_transform_case(c):
    """a with-argument accessor of a transform leaves the receiver exactly as it was: every reachable attribute,
    parameter (identity and bits), buffer, grid, child module — and its behaviour on fixed input"""
    twin = build_transform_scenario(c)
    sc = build_transform_scenario(c)
    rec, _, g = sc.run()
    changed = [_names(g, p) for p in _receiver_changes(rec, 0, 0)]
    cls, acc = c["cls"], c["acc"]
    where = f"{cls}[{c['kind']}].{acc}({c['variant']})"
    if changed:
        composite = cls in COMPOSITES
        if any(p.endswith("exp.align_corners") for p in changed):
            key = "C15:StationaryVelocityFieldTransform.grid:writes-shared-exp"
        elif any(p == "_parameters.params" for p in changed):
            fam = {"data": "SpatialTransform.data:replaces-original-parameter", "unlink": "SpatialTransform.unlink:clears-original-parameter",
                   "matrix": "LinearTransform.matrix:replaces-original-parameter", "grid": "SpatialTransform.grid:replaces-original-parameter"}
            key = "C15:" + fam.get(acc, f"SpatialTransform.{acc}:replaces-original-parameter")
        elif composite and acc == "cond":
            key = "C15:CompositeTransform.condition:conditions-shared-children"
        elif composite and acc == "grid" and all(".u" in p or ".v" in p for p in changed):
            key = "C15:CompositeTransform.grid:clears-shared-children-buffers"
        else:
            key = f"C15:{'CompositeTransform' if composite else 'SpatialTransform'}.{acc}:changes-receiver:{changed[0]}"
        return (key, f"{where} changed the receiver at: {', '.join(changed[:6])}")
    if sc.errors:
        return None
    a, b = _probe(twin.pool[0]), _probe(sc.pool[0])
    if a != b:
        return (f"C15:SpatialTransform.{acc}:behaviour-changed", f"{where}: tensor() of the receiver differs after the call")
    return None


def _all_tensors(obj) -> List[torch.Tensor]:
    g = Graph()
    g.snapshot([obj])
    seen, out = set(), []
    for o in g.keep:
        if isinstance(o, torch.Tensor):
            k = o.untyped_storage()._cdata
            if k not in seen:
                seen.add(k)
                out.append(o)
    return out


def _mutate_everything(obj):
    with torch.no_grad():
        for t in _all_tensors(obj):
            if t.dtype == torch.bool:
                t.logical_not_()
            elif t.numel():
                t.add_(1)
    if isinstance(obj, (Grid, Cube)):
        obj.center_(*[7.0] * obj.ndim)
    if isinstance(obj, Grid):
        obj.align_corners_(not obj.align_corners())
    if isinstance(obj, (Image, ImageBatch)):
        obj.grid_(None)


def _state(obj):
    g = Graph()
    nodes = g.snapshot([obj])
    return repr(tree(nodes, ("r", g.ref(obj))))[:0] + hashlib.sha1(repr(_canon(tree(nodes, ("r", g.ref(obj))))).encode()).hexdigest()


def _canon(t):
    """view without node identities (state only)"""
    if t[0] != "node":
        return t
    return ("node", t[2], t[3], [(k, _canon(v)) for k, v in t[4]])


def gen_deepcopy(rng: random.Random, tier: str):
    for D in (2, 3):
        for kind in ("grid", "cube", "image", "batch", "flowfield", "flowfields"):
            for how in ("deepcopy", "clone"):
                yield {"kind": kind, "D": D, "how": how, "seed": 3}
        for cls in TCLASSES:
            for pk in ("param", "buffer"):
                yield {"kind": "transform", "cls": cls, "pkind": pk, "D": D, "how": "deepcopy", "seed": 3}


def check_deepcopy(c):
    """deep copies are independent in both directions: after `d = deepcopy(x)` every write to anything reachable
    from d (all tensors in place, setters) leaves x bit-identical, and vice versa"""
    D, kind = c["D"], c["kind"]
    if kind in ("grid", "cube"):
        x = _grid_pool(kind, D, c["seed"])[0]
    elif kind == "transform":
        x = make_leaf(c["cls"], c["pkind"], _tgrid(D), 1)[0]
    else:
        x = _image_pool(kind, D, c["seed"])[0]
    if c["how"] == "clone":
        if not hasattr(x, "clone"):
            return None
        d = x.clone()
    else:
        d = pycopy.deepcopy(x)
    name = type(x).__name__
    shared = {t.untyped_storage()._cdata for t in _all_tensors(x)} & {t.untyped_storage()._cdata for t in _all_tensors(d)}
    if shared:
        return (f"C15:{name}.{c['how']}:shares-storage", f"{c['how']} of {name} shares {len(shared)} tensor storage(s) with the original")
    sx, sd = _state(x), _state(d)
    if sx != sd:
        return (f"C15:{name}.{c['how']}:not-equal", f"{c['how']} of {name} differs from the original")
    _mutate_everything(d)
    if _state(x) != sx:
        return (f"C15:{name}.{c['how']}:copy-to-original", f"modifying the {c['how']} of {name} changed the original")
    sd = _state(d)
    _mutate_everything(x)
    if _state(d) != sd:
        return (f"C15:{name}.{c['how']}:original-to-copy", f"modifying the original {name} changed its {c['how']}")
    return None


# ---------------------------------------------------------------------------- registration
class _Assumptions(list):
    """static assumptions + run statistics filled in while the streams run"""

    def __iter__(self):
        yield from list.__iter__(self)
        if STATS.get("paths"):
            yield (f"run statistics: {STATS['paths']} (entry, D) call paths traced; {STATS['unstable']} of them produced a different "
                   f"abstract trace for a second value seed {STATS.get('unstable_names', [])[:10]} (value-dependent paths are checked per trace); "
                   f"{STATS['aliasing']} calls returned a result aliasing an argument (allowed, I-8); "
                   f"{STATS['raised']} table calls raised (arguments still observed)")
        if STATS.get("paths"):
            yield "coverage: " + coverage_from_runs()


STATS: Dict[str, Any] = {"paths": 0, "unstable": 0, "aliasing": 0, "raised": 0}
_SIG: Dict[tuple, str] = {}
_impl_calls_plain = impl_calls


def _note_signature(c, run):
    """value-independence of traces: the abstract trace of an (entry, D) path must not depend on the value seed"""
    sig = hashlib.sha1(repr(run["ops"]).encode()).hexdigest()
    k = (c["ns"], c["name"], c["label"], c["D"])
    if k not in _SIG:
        _SIG[k] = sig
        STATS["paths"] += 1
    elif _SIG[k] != sig and not str(_SIG[k]).startswith("!"):
        _SIG[k] = "!" + sig
        STATS["unstable"] += 1
        STATS.setdefault("unstable_names", []).append(f"{c['name']}[{c['label']}]")


def impl_calls(c):  # noqa: F811  (adds the statistics)
    r = _impl_calls_plain(c)
    run = _RUNS[case_key(c)]
    _note_signature(c, run)
    STATS["aliasing"] += bool(r["alias"])
    STATS["raised"] += bool(r["err"])
    return r


def gen_calls2(rng: random.Random, tier: str):
    """every table entry × D with one value seed (quick; the oracle re-runs each entry with another seed and the
    two abstract traces are compared) / four (thorough)"""
    seeds = _n(tier, 1, 4)
    for e in T.CALLS:
        for D in e.dims:
            for k in range(seeds):
                yield {"ns": e.ns, "name": e.name, "label": e.label, "D": D, "seed": 1 + D + 1000 * k}


def coverage_from_runs() -> str:
    names = T.public_names()
    ok: Dict[str, set] = {"core": set(), "loss": set()}
    why: Dict[str, Dict[str, str]] = {"core": {}, "loss": {}}
    for e in T.CALLS:
        for D in e.dims:
            r = _RUNS.get(case_key({"ns": e.ns, "name": e.name, "label": e.label, "D": D, "seed": 1 + D}))
            if r is None:
                continue
            if r["err"] is None:
                ok[e.ns].add(e.name)
            else:
                why[e.ns].setdefault(e.name, r["err"])
    parts = []
    for ns, label in (("core", "deepali.core.functional"), ("loss", "deepali.losses.functional")):
        missing = {n: why[ns].get(n, "no table entry") for n in names[ns] if n not in ok[ns]}
        parts.append(f"{label}: {len(ok[ns] & set(names[ns]))}/{len(names[ns])} public names exercised"
                     + (f"; not callable: {missing}" if missing else ""))
    return "; ".join(parts) + f"; {len(T.CALLS)} table entries"


# ---------------------------------------------------------------------------- canonical table (ties the `decide` theorems to /repo)
def gen_canon(rng: random.Random, tier: str):
    for is_param in (True, False):
        for svf in (False, True):
            for acc in ("condition", "grid", "data", "unlink", "inverse", "matrix"):
                if acc == "matrix" and svf:
                    continue
                yield {"param": is_param, "svf": svf, "acc": acc}
    for acc in ("condition", "grid"):
        yield {"composite": True, "acc": acc}


def impl_canon(c):
    """the same call on a real transform: Translation / HomogeneousTransform (matrix) / StationaryVelocityFieldTransform;
    which classes of receiver state change: P = the shared `_parameters` container, E = the `exp` child module"""
    if c.get("composite"):
        return _impl_canon_composite(c)
    cls = "SVF" if c["svf"] else ("Homogeneous" if c["acc"] == "matrix" else "Translation")
    acc = {"condition": "cond"}.get(c["acc"], c["acc"])
    variant = {"grid": "ac", "data": "tensor", "inverse": "00"}.get(acc, "")
    sc = build_transform_scenario({"cls": cls, "kind": "param" if c["param"] else "buffer", "acc": acc, "variant": variant,
                                   "D": 2, "updated": True})
    rec, _, g = sc.run()
    ch = [_names(g, p) for p in _receiver_changes(rec, 0, 0)]
    out = set()
    for p in ch:
        if p.startswith("_parameters"):
            out.add("P")
        elif p.startswith("_modules.exp"):
            out.add("E")
        else:
            out.add(p)
    return sorted(out)


def _impl_canon_composite(c):
    """SequentialTransform with one buffer-held DisplacementFieldTransform child (updated: `u` buffered):
    A = the child's attributes (_args/_kwargs) change, B = the child's buffer containers change"""
    grid = _tgrid(2)
    child = make_leaf("Disp", "buffer", grid, 2)[0]
    t = S.SequentialTransform(child)
    t.update()
    if c["acc"] == "condition":
        sc = Scenario([t, (torch.rand(1, 3),)], [(0, 1, "tcopy 0 0 0 0 0 0 1", lambda s_, a: s_.condition(*a))])
    else:
        g2 = Grid(size=(17, 17), spacing=(0.5, 0.25), center=(1.0, -2.0), align_corners=True)
        sc = Scenario([t, g2], [(0, 1, "tcopy 0 0 0 0 0 0 1", lambda s_, a: s_.grid(a))])
    rec, _, g = sc.run()
    out = set()
    for p in [_names(g, q) for q in _receiver_changes(rec, 0, 0)]:
        if not p.startswith("_modules._transforms._modules.100."):
            out.add(p)
        elif "_buffers" in p or "_non_persistent" in p:
            out.add("B")
        else:
            out.add("A")
    return sorted(out)


def cmp_canon(c, r, out):
    if isinstance(r, str):
        return f"impl {r}"
    want = set()
    if out.startswith("changed"):
        nodes = [int(x) for x in out.split()[1].split(",")]
        names = {18: "A", 20: "B", 22: "B"} if c.get("composite") else {2: "P", 15: "E"}
        want = {names.get(n, f"node{n}") for n in nodes}
    elif out != "pure":
        return f"model {out}"
    if want != set(r):
        return f"canonical model says {sorted(want)} change; real transform: {r}"
    return None


STREAMS = [
    Stream("canon", gen_canon, impl_canon,
           lambda c: f"heap.canonc {c['acc']}" if c.get("composite") else f"heap.canon {int(c['param'])} {int(c['svf'])} {c['acc']}",
           cmp_canon, exhaustive=True,
           doc="the finite table of C15_transform_accessors_partial / _refuted (canonical object graphs inside Lean) against real "
               "transforms: which of {_parameters, exp child} change; and the canonical composite (F-15f/g) against a real "
               "SequentialTransform: which of {child attributes, child buffers} change"),
    Stream("calls", gen_calls2, impl_calls, line_calls, cmp_calls, exhaustive=True,
           doc="every entry of the argument table (all public names of core.functional and losses.functional, one entry per "
               "argument-form path, D in {2,3}; thorough: four value seeds): monitor verdict on the recorded op trace == direct observation "
               "of the arguments (bits, whole storage, _version, metadata); result-aliases-argument compared too"),
    Stream("methods", gen_methods, impl_calls, line_calls, cmp_calls, exhaustive=True,
           doc="getters of every transform class (tensor, disp, __call__, update, flow, points, matrix) for each parameter kind, "
               "traced like functions with the module's parameters as watched arguments"),
    Stream("grid_programs", gen_grid_programs, lambda c: _run_scenario(c, build_grid_scenario),
           lambda c: _line_scenario(c, build_grid_scenario), cmp_scenario(),
           nontrivial=lambda c: len(c["ops"]) > 1,
           doc="Grid and Cube: every with-argument accessor form / in-place setter / clone / write-through-getter once, then random "
               "short programs over a growing pool of copies: per step, the set of changed paths of every live object and the paths the "
               "result shares with its receiver == the slot model's prediction"),
    Stream("image_programs", gen_image_programs, lambda c: _run_scenario(c, build_image_scenario),
           lambda c: _line_scenario(c, build_image_scenario), cmp_scenario(_ignore_shr_image),
           nontrivial=lambda c: len(c["ops"]) > 1,
           doc="Image, ImageBatch, FlowField, FlowFields: grid(g), copy, deepcopy, grid_, in-place data writes and ~25 functional "
               "methods; same comparison"),
    Stream("transform_accessors", gen_transform_cases, lambda c: _run_scenario(c, build_transform_scenario),
           lambda c: _line_scenario(c, build_transform_scenario), cmp_scenario(lambda c, i: c["acc"] == "deep"), exhaustive=True,
           doc="7 leaf transform classes x 6 parameter kinds + 5 composites: condition / grid (same, equal, other size, other "
               "align_corners) / data (tensor, Parameter) / link / unlink / inverse (link, update_buffers) / matrix / copy / deepcopy: "
               "changed paths of the receiver (parameters, buffers, children, grid, args), raised-or-not and sharing == prediction of "
               "the transcribed __copy__ / Module.__setattr__ model"),
]

ORACLES = [
    Oracle("call_leaves_arguments", gen_calls, check_call,
           doc="direct before/after observation of every tensor argument for every table entry; in-place variants must mutate"),
    Oracle("getter_leaves_parameters", gen_methods, check_method,
           doc="transform getters leave parameters bit-identical (value, storage, version)"),
    Oracle("grid_accessors", gen_grid_programs, check_grid_program,
           doc="Grid/Cube non-underscore accessors leave every existing object unchanged; underscore setters do change their receiver"),
    Oracle("image_accessors", gen_image_programs, check_image_program,
           doc="Image/ImageBatch/FlowField(s) methods leave the receiver (data bits, grids) unchanged; in-place variants change it"),
    Oracle("transform_accessors", gen_transform_cases, check_transform_case,
           doc="with-argument accessors of transforms leave the receiver's full state and behaviour unchanged"),
    Oracle("deepcopy_independent", gen_deepcopy, check_deepcopy,
           doc="deep copies share no storage and are independent in both directions"),
]

ASSUMPTIONS = _Assumptions(ASSUMPTIONS + [
    "part 2: node identity = Python object identity (storages: StorageImpl address); contents compared bit-wise; the graph "
    "mirror covers __slots__ of Grid/Cube, tensor data + _grid + _axes of data tensors, and every __dict__ entry of modules "
    "except torch's bookkeeping (hooks other than forward-pre hooks, training flag)",
    "freshness of deep copies is established by evaluation on each concrete object graph (Lean: on the canonical shapes), not "
    "symbolically for all heaps; the independence theorem is general given that freshness",
])
TRUSTED = TRUSTED + ["torch.nn.Module.__setattr__/__delattr__/register_buffer semantics as transcribed in Model/Heap.lean (torch 2.14)"]


def _canon_to_transform_case(c: dict) -> dict:
    """a case of the `canon` stream as a case the `transform_accessors` oracle understands"""
    if c.get("composite"):
        return {"cls": "Seq(T,Disp)", "kind": "-", "acc": "cond" if c["acc"] == "condition" else "grid",
                "variant": "" if c["acc"] == "condition" else "size", "D": 2, "updated": True}
    cls = "SVF" if c["svf"] else ("Homogeneous" if c["acc"] == "matrix" else "Translation")
    acc = {"condition": "cond"}.get(c["acc"], c["acc"])
    return {"cls": cls, "kind": "param" if c["param"] else "buffer", "acc": acc,
            "variant": {"grid": "ac", "data": "tensor", "inverse": "00"}.get(acc, ""), "D": 2, "updated": True}


def search_cases(disagreements: List[dict]):
    """disagreeing stream cases are fed to the oracle of the same family (and only to an oracle that understands them)"""
    extra: Dict[str, List[dict]] = {}
    fam = {"calls": "call_leaves_arguments", "methods": "getter_leaves_parameters", "grid_programs": "grid_accessors",
           "image_programs": "image_accessors", "transform_accessors": "transform_accessors"}
    for d in disagreements[:200]:
        if d["stream"] == "canon":
            extra.setdefault("transform_accessors", []).append(_canon_to_transform_case(d["case"]))
        elif d["stream"] in fam:
            extra.setdefault(fam[d["stream"]], []).append(d["case"])
    return extra
