"""C15 part 1 — argument table: representative calls of every public name of
`deepali.core.functional` and `deepali.losses.functional`, one entry per argument-form *path*
(argument form, no-op branches, same-dtype casts, `mask=None`, channels-last flags, …), D ∈ {2, 3}.

An entry is `E(name, label, build, expect)`; `build(b)` gets a builder `b` (seeded tensor
constructors for dimension `b.D`) and returns `(callable, args, kwargs)`.  `expect` is `"pure"`
or `"mutates:<path>"` (documented in-place variants: trailing underscore, `inplace=True`, `out=`),
where `<path>` names the argument as the observer labels it (`a0`, `kw.out`, …).
"""
from __future__ import annotations

import math
from typing import Callable, Dict, List, NamedTuple

import torch

import deepali.core.functional as U
import deepali.losses.functional as L
from deepali.core.grid import Grid
from deepali.core.enum import PaddingMode, Sampling


class E(NamedTuple):
    ns: str          # "core" | "loss"
    name: str
    label: str
    build: Callable
    expect: str = "pure"
    dims: tuple = (2, 3)


class B:
    """Seeded constructors of small representative arguments for dimension D."""

    def __init__(self, D: int, seed: int):
        self.D = D
        self.g = torch.Generator().manual_seed(int(seed))

    # spatial shape (…, Y, X) and size (X, Y, …)
    @property
    def shape(self):
        return (7, 8) if self.D == 2 else (5, 6, 7)

    @property
    def size(self):
        return tuple(reversed(self.shape))

    def rand(self, *shape, dtype=torch.float32):
        return torch.rand(*shape, generator=self.g, dtype=dtype)

    def randn(self, *shape, dtype=torch.float32):
        return torch.randn(*shape, generator=self.g, dtype=dtype)

    def img(self, N=1, C=1, dtype=torch.float32, shape=None):
        return self.rand(*((N, C) + tuple(shape or self.shape)), dtype=dtype)

    def int_img(self, N=1, C=1, high=5, dtype=torch.int64):
        return torch.randint(0, high, (N, C) + self.shape, generator=self.g, dtype=dtype)

    def mask(self, N=1, C=1, dtype=torch.bool):
        m = self.rand(*((N, C) + self.shape)) > 0.3
        return m.to(dtype)

    def flow(self, N=1, amp=0.1, dtype=torch.float32, shape=None):
        return amp * self.randn(*((N, self.D) + tuple(shape or self.shape)), dtype=dtype)

    def cflow(self, N=1, amp=0.1):
        """channels-last flow (N, …, X, D)"""
        return self.flow(N, amp).movedim(1, -1).contiguous()

    def grid(self, ac=True):
        return Grid(shape=self.shape, spacing=(0.5, 1.5, 2.0)[: self.D], center=(1.0, -2.0, 3.0)[: self.D], align_corners=ac)

    def coords(self, N=1, jitter=0.05, dtype=torch.float32):
        x = Grid(shape=self.shape).coords(dtype=dtype).unsqueeze(0).repeat((N,) + (1,) * (self.D + 1))
        return x + jitter * self.randn(*x.shape, dtype=dtype)

    def pts(self, N=1, M=11, dtype=torch.float32):
        return self.rand(N, M, self.D, dtype=dtype) * 2 - 1

    def hom(self, N=1, dtype=torch.float32):
        D = self.D
        return torch.eye(D, D + 1, dtype=dtype).unsqueeze(0).repeat(N, 1, 1) + 0.05 * self.randn(N, D, D + 1, dtype=dtype)

    def aff(self, N=1):
        D = self.D
        return torch.eye(D).unsqueeze(0).repeat(N, 1, 1) + 0.05 * self.randn(N, D, D)

    def trans(self, N=1):
        return 0.1 * self.randn(N, self.D, 1)

    def rot(self, N=1):
        a = 0.3 * self.randn(N, 3)
        return U.euler_rotation_matrix(a) if self.D == 3 else U.euler_rotation_matrix(a[:, :1])

    def angles(self, N=1):
        return 0.3 * self.randn(N, 3 if self.D == 3 else 1)

    def quat(self, N=2):
        q = self.randn(N, 4)
        return q / q.norm(dim=1, keepdim=True)

    def kernel1d(self, n=3):
        k = self.rand(n) + 0.1
        return k / k.sum()

    def logits(self, N=1, C=1):
        return self.randn(*((N, C) + self.shape))

    def probs(self, N=1, C=1):
        return self.rand(*((N, C) + self.shape))

    def cps(self, N=1, stride=2):
        """cubic B-spline coefficients for `shape` and `stride`"""
        shp = U.cubic_bspline_control_point_grid_size(self.shape, stride)
        return 0.1 * self.randn(*((N, self.D) + tuple(shp)))


CALLS: List[E] = []


def core(name, label, build, expect="pure", dims=(2, 3)):
    CALLS.append(E("core", name, label, build, expect, dims))


def loss(name, label, build, expect="pure", dims=(2, 3)):
    CALLS.append(E("loss", name, label, build, expect, dims))


# ----------------------------------------------------------------------------- basic tensor functions
core("abspow", "int-exp", lambda b: (U.abspow, (b.randn(3, 4), 2), {}))
core("abspow", "float-exp", lambda b: (U.abspow, (b.randn(3, 4), 1.5), {}))
core("atanh", "default", lambda b: (U.atanh, (b.rand(3, 4) * 0.9,), {}))
core("max_difference", "two", lambda b: (U.max_difference, (b.img(), b.img()), {}))
core("max_difference", "same-object", lambda b: (lambda x: U.max_difference(x, x), (b.img(),), {}))
core("round_decimals", "decimals=0", lambda b: (U.round_decimals, (b.img(),), {}))
core("round_decimals", "decimals=3", lambda b: (U.round_decimals, (b.img(), 3), {}))
core("round_decimals", "decimals<0", lambda b: (U.round_decimals, (b.img() * 100, -1), {}))
core("round_decimals", "out=other", lambda b: (U.round_decimals, (b.img(), 2), {"out": torch.empty(b.img().shape)}), "mutates:kw.out")
core("round_decimals", "out=self", lambda b: (lambda x: U.round_decimals(x, 2, out=x), (b.img(),), {}), "mutates:a0")
core("round_decimals", "out=self,decimals=0", lambda b: (lambda x: U.round_decimals(x, 0, out=x), (b.img() * 10,), {}), "mutates:a0")
core("threshold", "min-max", lambda b: (U.threshold, (b.img(), 0.2, 0.8), {}))
core("threshold", "min-only", lambda b: (U.threshold, (b.img(), 0.5), {}))
core("threshold", "max-only", lambda b: (U.threshold, (b.img(), None, 0.5), {}))
core("threshold", "tensor-bounds", lambda b: (U.threshold, (b.img(), torch.tensor(0.2), torch.tensor(0.8)), {}))
core("as_tensor", "tensor-noop", lambda b: (U.as_tensor, (b.img(),), {}))
core("as_tensor", "tensor-same-dtype", lambda b: (U.as_tensor, (b.img(),), {"dtype": torch.float32}))
core("as_tensor", "tensor-cast", lambda b: (U.as_tensor, (b.img(),), {"dtype": torch.float64}))
core("as_tensor", "list-of-tensors", lambda b: (U.as_tensor, ([b.rand(()), b.rand(())],), {}))
core("as_tensor", "list", lambda b: (U.as_tensor, ([1.0, 2.0, 3.0],), {}))
core("as_float_tensor", "float-noop", lambda b: (U.as_float_tensor, (b.img(),), {}))
core("as_float_tensor", "int-cast", lambda b: (U.as_float_tensor, (b.int_img(),), {}))
core("as_float_tensor", "double", lambda b: (U.as_float_tensor, (b.img(dtype=torch.float64),), {}))
core("as_one_hot_tensor", "labels", lambda b: (U.as_one_hot_tensor, (b.int_img(high=4), 4), {}))
core("as_one_hot_tensor", "ignore-index", lambda b: (U.as_one_hot_tensor, (b.int_img(high=4), 4), {"ignore_index": 3}))
core("as_one_hot_tensor", "already-one-hot-same-dtype", lambda b: (U.as_one_hot_tensor, (b.img(C=4), 4), {}))
core("as_one_hot_tensor", "already-one-hot-cast", lambda b: (U.as_one_hot_tensor, (b.img(C=4), 4), {"dtype": torch.float64}))
core("atleast_1d", "tensor", lambda b: (U.atleast_1d, (b.rand(3),), {}))
core("atleast_1d", "scalar-tensor", lambda b: (U.atleast_1d, (b.rand(()),), {}))
core("atleast_1d", "cast", lambda b: (U.atleast_1d, (b.rand(3),), {"dtype": torch.float64}))
core("batched_index_select", "dim1", lambda b: (U.batched_index_select, (b.pts(2, 9), 1, torch.tensor([[0, 2], [1, 3]])), {}))
core("move_dim", "forward", lambda b: (U.move_dim, (b.img(C=2), 1, -1), {}))
core("move_dim", "backward", lambda b: (U.move_dim, (b.coords(), -1, 1), {}))
core("move_dim", "noop", lambda b: (U.move_dim, (b.img(C=2), 1, 1), {}))
core("unravel_coords", "default", lambda b: (U.unravel_coords, (torch.tensor([0, 5, 11]), b.size), {}))
core("unravel_index", "default", lambda b: (U.unravel_index, (torch.tensor([0, 5, 11]), b.shape), {}))
core("multinomial", "no-replacement", lambda b: (U.multinomial, (b.rand(2, 50), 5), {"generator": b.g}))
core("multinomial", "replacement", lambda b: (U.multinomial, (b.rand(2, 50), 5), {"replacement": True, "generator": b.g}))
core("multinomial", "large", lambda b: (U.multinomial, (b.rand(1, 2 ** 12), 7), {"generator": b.g}))
core("multinomial", "out=", lambda b: (U.multinomial, (b.rand(2, 50), 5), {"generator": b.g, "out": torch.empty(2, 5, dtype=torch.int64)}), "mutates:kw.out")

# ----------------------------------------------------------------------------- linear algebra / geometry
core("affine_flow", "grid-object", lambda b: (U.affine_flow, (b.hom(), b.grid()), {}))
core("affine_flow", "grid-tensor", lambda b: (U.affine_flow, (b.hom(), b.coords()), {}))
core("affine_flow", "channels-last", lambda b: (U.affine_flow, (b.hom(), b.grid()), {"channels_last": True}))
core("affine_flow", "translation", lambda b: (U.affine_flow, (b.trans(), b.grid()), {}))
core("affine_flow", "affine-no-translation", lambda b: (U.affine_flow, (b.aff(), b.grid(False)), {}))
core("affine_rotation_matrix", "hom", lambda b: (U.affine_rotation_matrix, (b.hom(2),), {}), "pure", (3,))
core("affine_rotation_matrix", "affine", lambda b: (U.affine_rotation_matrix, (b.aff(2),), {}), "pure", (3,))
core("affine_transform_points", "hom", lambda b: (U.affine_transform_points, (b.hom(), b.pts()), {}))
core("affine_transform_points", "grid-points", lambda b: (U.affine_transform_points, (b.hom(), b.coords()), {}))
core("affine_transform_vectors", "hom", lambda b: (U.affine_transform_vectors, (b.hom(), b.pts()), {}))
core("angle_axis_to_rotation_matrix", "default", lambda b: (U.angle_axis_to_rotation_matrix, (0.5 * b.randn(4, 3),), {}))
core("angle_axis_to_rotation_matrix", "small-angle", lambda b: (U.angle_axis_to_rotation_matrix, (1e-5 * b.randn(2, 3),), {}))
core("angle_axis_to_quaternion", "default", lambda b: (U.angle_axis_to_quaternion, (0.5 * b.randn(4, 3),), {}))
core("apply_affine_transform", "points", lambda b: (U.apply_affine_transform, (b.hom(), b.pts()), {}))
core("apply_affine_transform", "vectors", lambda b: (U.apply_affine_transform, (b.hom(), b.pts()), {"vectors": True}))
core("apply_affine_transform", "translation", lambda b: (U.apply_affine_transform, (b.trans(), b.pts()), {}))
core("apply_affine_transform", "affine", lambda b: (U.apply_affine_transform, (b.aff(), b.pts()), {}))
core("apply_affine_transform", "int-points", lambda b: (U.apply_affine_transform, (b.hom(), (b.pts() * 5).long()), {}))
core("apply_affine_transform", "double-points", lambda b: (U.apply_affine_transform, (b.hom(), b.pts(dtype=torch.float64)), {}))
core("as_homogeneous_matrix", "hom-noop", lambda b: (U.as_homogeneous_matrix, (b.hom(2),), {}))
core("as_homogeneous_matrix", "affine", lambda b: (U.as_homogeneous_matrix, (b.aff(2),), {}))
core("as_homogeneous_matrix", "translation", lambda b: (U.as_homogeneous_matrix, (b.trans()[0],), {}))
core("as_homogeneous_matrix", "cast", lambda b: (U.as_homogeneous_matrix, (b.hom(2),), {"dtype": torch.float64}))
core("as_homogeneous_tensor", "hom", lambda b: (U.as_homogeneous_tensor, (b.hom(2),), {}))
core("as_homogeneous_tensor", "vector", lambda b: (U.as_homogeneous_tensor, (b.rand(b.D),), {}))
core("as_homogeneous_tensor", "same-dtype", lambda b: (U.as_homogeneous_tensor, (b.aff(2),), {"dtype": torch.float32}))
core("euler_rotation_matrix", "tensor", lambda b: (U.euler_rotation_matrix, (b.angles(2),), {}))
core("euler_rotation_matrix", "order-XYZ", lambda b: (U.euler_rotation_matrix, (b.angles(2),), {"order": "XYZ"} if b.D == 3 else {}))
core("euler_rotation_matrix", "generic-order", lambda b: (U.euler_rotation_matrix, (b.angles(2),), {"order": "XYX"} if b.D == 3 else {}))
core("euler_rotation_matrix", "homogeneous", lambda b: (U.euler_rotation_matrix, (b.angles(2),), {"homogeneous": True}))
core("euler_rotation_matrix", "sequence", lambda b: (U.euler_rotation_matrix, ([0.1, 0.2, 0.3][: 3 if b.D == 3 else 1],), {}))
core("euler_rotation_angles", "default", lambda b: (U.euler_rotation_angles, (b.rot(2),), {}))
core("euler_rotation_angles", "order-ZXZ", lambda b: (U.euler_rotation_angles, (b.rot(2),), {"order": "ZXZ"} if b.D == 3 else {}))
core("euler_rotation_order", "default", lambda b: (U.euler_rotation_order, (), {"ndim": b.D}))
core("euler_rotation_order", "arg", lambda b: (U.euler_rotation_order, ("zxz" if b.D == 3 else "z",), {"ndim": b.D}))
for _a in ("trans", "aff", "hom"):
    for _b in ("trans", "aff", "hom"):
        core("hmm", f"{_a}*{_b}", lambda b, _a=_a, _b=_b: (U.hmm, (getattr(b, _a)(2), getattr(b, _b)(2)), {}))
        core("homogeneous_matmul", f"{_a}*{_b}", lambda b, _a=_a, _b=_b: (U.homogeneous_matmul, (getattr(b, _a)(2), getattr(b, _b)(2)), {}))
core("homogeneous_matmul", "single", lambda b: (U.homogeneous_matmul, (b.hom(2),), {}))
core("homogeneous_matmul", "three", lambda b: (U.homogeneous_matmul, (b.hom(2), b.aff(1), b.trans(2)), {}))
core("homogeneous_matmul", "broadcast", lambda b: (U.homogeneous_matmul, (b.hom(1), b.hom(3)), {}))
core("homogeneous_matmul", "unbatched", lambda b: (U.homogeneous_matmul, (b.hom()[0], b.hom()[0]), {}))
core("homogeneous_matrix", "affine", lambda b: (U.homogeneous_matrix, (b.aff(2),), {}))
core("homogeneous_matrix", "square-hom-noop", lambda b: (U.homogeneous_matrix, (torch.eye(b.D + 1).unsqueeze(0) + 0.01 * b.randn(1, b.D + 1, b.D + 1),), {}))
core("homogeneous_matrix", "square-hom+offset", lambda b: (U.homogeneous_matrix, (torch.eye(b.D + 1).unsqueeze(0) + 0.01 * b.randn(1, b.D + 1, b.D + 1),), {"offset": b.rand(b.D + 1)}))
core("homogeneous_matrix", "hom+offset", lambda b: (U.homogeneous_matrix, (b.hom(2),), {"offset": b.rand(b.D)}))
core("homogeneous_matrix", "affine+offset", lambda b: (U.homogeneous_matrix, (b.aff(2),), {"offset": b.rand(2, b.D)}))
core("homogeneous_matrix", "translation", lambda b: (U.homogeneous_matrix, (b.trans()[0],), {}))
core("homogeneous_matrix", "scalar-offset", lambda b: (U.homogeneous_matrix, (b.hom(2),), {"offset": torch.tensor(0.5)}))
core("homogeneous_transform", "hom-points", lambda b: (U.homogeneous_transform, (b.hom(), b.pts()), {}))
core("homogeneous_transform", "hom-vectors", lambda b: (U.homogeneous_transform, (b.hom(), b.pts()), {"vectors": True}))
core("homogeneous_transform", "trans-points", lambda b: (U.homogeneous_transform, (b.trans(), b.pts()), {}))
core("homogeneous_transform", "trans-vectors", lambda b: (U.homogeneous_transform, (b.trans(), b.pts()), {"vectors": True}))
core("homogeneous_transform", "aff-points", lambda b: (U.homogeneous_transform, (b.aff(), b.pts()), {}))
core("homogeneous_transform", "unbatched", lambda b: (U.homogeneous_transform, (b.hom()[0], b.pts()[0]), {}))
core("homogeneous_transform", "grid-shaped", lambda b: (U.homogeneous_transform, (b.hom(), b.coords()), {}))
core("homogeneous_transform", "int-points", lambda b: (U.homogeneous_transform, (b.hom(), (b.pts() * 5).long()), {}))
core("homogeneous_transform", "double-transform", lambda b: (U.homogeneous_transform, (b.hom(dtype=torch.float64), b.pts()), {}))
core("identity_transform", "shape", lambda b: (U.identity_transform, ((2, b.D),), {}))
core("identity_transform", "homogeneous", lambda b: (U.identity_transform, (b.D,), {"homogeneous": True}))
core("normalize_quaternion", "default", lambda b: (U.normalize_quaternion, (b.randn(3, 4),), {}))
core("quaternion_to_angle_axis", "default", lambda b: (U.quaternion_to_angle_axis, (b.quat(3),), {}))
core("quaternion_to_rotation_matrix", "default", lambda b: (U.quaternion_to_rotation_matrix, (b.quat(3),), {}))
core("quaternion_log_to_exp", "default", lambda b: (U.quaternion_log_to_exp, (0.3 * b.randn(3, 3),), {}))
core("quaternion_exp_to_log", "default", lambda b: (U.quaternion_exp_to_log, (b.quat(3),), {}))
core("rotation_matrix", "tensor", lambda b: (U.rotation_matrix, (b.angles(2),), {}))
core("rotation_matrix", "kwargs", lambda b: (U.rotation_matrix, (b.angles(2),), {"homogeneous": True}))
core("rotation_matrix_to_angle_axis", "default", lambda b: (U.rotation_matrix_to_angle_axis, (U.euler_rotation_matrix(0.3 * b.randn(2, 3)),), {}))
core("rotation_matrix_to_quaternion", "default", lambda b: (U.rotation_matrix_to_quaternion, (U.euler_rotation_matrix(0.3 * b.randn(2, 3)),), {}))
core("rotation_matrix_to_quaternion", "large-angle", lambda b: (U.rotation_matrix_to_quaternion, (U.euler_rotation_matrix(torch.tensor([[3.0, 0.1, 0.2], [0.1, 3.0, 0.0], [0.0, 0.1, 3.0]])),), {}))
core("scaling_transform", "tensor", lambda b: (U.scaling_transform, (b.rand(2, b.D) + 0.5,), {}))
core("scaling_transform", "homogeneous", lambda b: (U.scaling_transform, (b.rand(2, b.D) + 0.5,), {"homogeneous": True}))
core("scaling_transform", "same-dtype", lambda b: (U.scaling_transform, (b.rand(2, b.D) + 0.5,), {"dtype": torch.float32}))
core("shear_matrix", "tensor", lambda b: (U.shear_matrix, (0.2 * b.randn(2, 1 if b.D == 2 else 3),), {}))
core("shear_matrix", "homogeneous", lambda b: (U.shear_matrix, (0.2 * b.randn(2, 1 if b.D == 2 else 3),), {"homogeneous": True}))
core("tensordot", "dims=2", lambda b: (U.tensordot, (b.rand(3, 4, 5), b.rand(4, 5, 6)), {}))
core("tensordot", "dims=pair", lambda b: (U.tensordot, (b.rand(3, 4, 5), b.rand(5, 4, 2)), {"dims": ((1, 2), (1, 0))}))
core("tensordot", "dims=1", lambda b: (U.tensordot, (b.rand(3, 4), b.rand(4, 5)), {"dims": 1}))
core("translation", "tensor", lambda b: (U.translation, (b.rand(2, b.D),), {}))
core("translation", "homogeneous", lambda b: (U.translation, (b.rand(2, b.D),), {"homogeneous": True}))
core("translation", "same-dtype", lambda b: (U.translation, (b.rand(2, b.D),), {"dtype": torch.float32}))
core("vectordot", "default", lambda b: (U.vectordot, (b.pts(), b.pts()), {}))
core("vectordot", "weighted", lambda b: (U.vectordot, (b.pts(), b.pts()), {"w": b.rand(b.D)}))
core("vectordot", "dim", lambda b: (U.vectordot, (b.pts(), b.pts()), {"dim": 1}))
core("vector_rotation", "default", lambda b: (U.vector_rotation, (b.randn(4, 3), b.randn(4, 3)), {}))

# ----------------------------------------------------------------------------- data operations: pooling, conv
core("avg_pool", "default", lambda b: (U.avg_pool, (b.img(2, 2), 2), {}))
core("avg_pool", "stride-padding", lambda b: (U.avg_pool, (b.img(2, 2), 3), {"stride": 1, "padding": 1, "count_include_pad": False}))
core("avg_pool", "int-data", lambda b: (U.avg_pool, (b.int_img(2, 2).float(), 2), {"divisor_override": 1}))
core("max_pool", "default", lambda b: (U.max_pool, (b.img(2, 2), 2), {}))
core("max_pool", "stride-padding", lambda b: (U.max_pool, (b.img(2, 2), 3), {"stride": 1, "padding": 1}))
core("min_pool", "default", lambda b: (U.min_pool, (b.img(2, 2), 2), {}))
core("min_pool", "stride-padding", lambda b: (U.min_pool, (b.img(2, 2), 3), {"stride": 1, "padding": 1}))
core("conv", "separable", lambda b: (U.conv, (b.img(2, 2), b.kernel1d()), {}))
core("conv", "separable-padding", lambda b: (U.conv, (b.img(2, 2), b.kernel1d()), {"padding": PaddingMode.REPLICATE}))
core("conv", "separable-padding-str", lambda b: (U.conv, (b.img(2, 2), b.kernel1d()), {"padding": "replicate"}))
core("conv", "kernel-sequence", lambda b: (U.conv, (b.img(2, 2), [b.kernel1d() for _ in range(b.D)]), {"padding": PaddingMode.ZEROS}))
core("conv", "kernel-sequence-with-None", lambda b: (U.conv, (b.img(2, 2), [None] + [b.kernel1d() for _ in range(b.D - 1)]), {"padding": PaddingMode.REFLECT if b.D == 2 else PaddingMode.REPLICATE}))
core("conv", "all-None-noop", lambda b: (U.conv, (b.img(2, 2), [None] * b.D), {}))
core("conv", "dense-kernel", lambda b: (U.conv, (b.img(2, 2), b.rand(*((3,) * b.D))), {"padding": PaddingMode.ZEROS}))
core("conv", "dense-kernel-replicate", lambda b: (U.conv, (b.img(2, 2), b.rand(*((3,) * b.D))), {"padding": PaddingMode.REPLICATE}))
core("conv", "dense-2d-kernel-on-3d", lambda b: (U.conv, (b.img(2, 2), b.rand(3, 3)), {}), "pure", (3,))
core("conv", "int-padding", lambda b: (U.conv, (b.img(2, 2), b.kernel1d()), {"padding": 1}))
core("conv", "padding-none", lambda b: (U.conv, (b.img(2, 2), b.kernel1d()), {"padding": PaddingMode.NONE}))
core("conv", "int-data", lambda b: (U.conv, (b.int_img(2, 2, high=50), b.kernel1d()), {"padding": PaddingMode.REPLICATE}))
core("conv", "int-data-zeros", lambda b: (U.conv, (b.int_img(2, 2, high=50), b.kernel1d()), {}))
core("conv", "int-data-all-None", lambda b: (U.conv, (b.int_img(2, 2, high=50), [None] * b.D), {}))
core("conv", "double-kernel", lambda b: (U.conv, (b.img(2, 2), b.kernel1d().double()), {"padding": PaddingMode.REPLICATE}))
core("conv", "stride-2", lambda b: (U.conv, (b.img(2, 2), b.kernel1d()), {"stride": 2, "padding": PaddingMode.ZEROS}))
core("conv", "transpose", lambda b: (U.conv, (b.img(2, 2), b.kernel1d()), {"stride": 2, "transpose": True}))
core("conv1d", "default", lambda b: (U.conv1d, (b.img(2, 2), b.kernel1d()), {}))
core("conv1d", "dim-padding", lambda b: (U.conv1d, (b.img(2, 2), b.kernel1d()), {"dim": 2, "padding": "replicate"}))
core("conv1d", "dim-int-padding", lambda b: (U.conv1d, (b.img(2, 2), b.kernel1d()), {"dim": 2, "padding": 1}))
core("conv1d", "padding-none", lambda b: (U.conv1d, (b.img(2, 2), b.kernel1d()), {"padding": "none"}))
core("conv1d", "int-data", lambda b: (U.conv1d, (b.int_img(2, 2, high=50), b.kernel1d()), {"padding": "zeros"}))
core("conv1d", "dtype", lambda b: (U.conv1d, (b.img(2, 2), b.kernel1d()), {"dtype": torch.float64, "padding": 1}))
core("conv1d", "transpose", lambda b: (U.conv1d, (b.img(2, 2), b.kernel1d()), {"stride": 2, "transpose": True}))
core("dot_batch", "default", lambda b: (U.dot_batch, (b.img(2, 2), b.img(2, 2)), {}))
core("dot_batch", "weight", lambda b: (U.dot_batch, (b.img(2, 2), b.img(2, 2)), {"weight": b.img(2, 2)}))
core("dot_channels", "default", lambda b: (U.dot_channels, (b.img(2, 2), b.img(2, 2)), {}))
core("dot_channels", "weight", lambda b: (U.dot_channels, (b.img(2, 2), b.img(2, 2)), {"weight": b.img(2, 2)}))
core("dot_channels", "weight-broadcast", lambda b: (U.dot_channels, (b.img(2, 2), b.img(2, 2)), {"weight": b.img(2, 1)}))

# resampling
core("downsample", "levels=1", lambda b: (U.downsample, (b.img(2, 2),), {}))
core("downsample", "levels=0-noop", lambda b: (U.downsample, (b.img(2, 2), 0), {}))
core("downsample", "levels=2", lambda b: (U.downsample, (b.img(1, 1, shape=(16,) * b.D), 2), {}))
core("downsample", "levels=-1", lambda b: (U.downsample, (b.img(2, 2), -1), {}))
core("downsample", "sigma", lambda b: (U.downsample, (b.img(2, 2),), {"sigma": 0.7}))
core("downsample", "sigma=0", lambda b: (U.downsample, (b.img(2, 2),), {"sigma": 0}))
core("downsample", "dims", lambda b: (U.downsample, (b.img(2, 2),), {"dims": (0,)}))
core("downsample", "double", lambda b: (U.downsample, (b.img(2, 2, dtype=torch.float64),), {"sigma": 0.7}))
core("downsample", "min_size", lambda b: (U.downsample, (b.img(2, 2), 2), {"min_size": 4}))
core("downsample", "align_corners=False", lambda b: (U.downsample, (b.img(2, 2),), {"align_corners": False}))
core("upsample", "levels=1", lambda b: (U.upsample, (b.img(2, 2),), {}))
core("upsample", "levels=0-noop", lambda b: (U.upsample, (b.img(2, 2), 0), {}))
core("upsample", "levels=-1", lambda b: (U.upsample, (b.img(2, 2), -1), {}))
core("upsample", "sigma", lambda b: (U.upsample, (b.img(2, 2),), {"sigma": 0.7}))
core("upsample", "dims", lambda b: (U.upsample, (b.img(2, 2),), {"dims": (1,)}))
core("upsample", "align_corners=False", lambda b: (U.upsample, (b.img(2, 2),), {"align_corners": False}))
core("gaussian_pyramid", "levels=2", lambda b: (U.gaussian_pyramid, (b.img(1, 1, shape=(16,) * b.D), 2), {}))
core("gaussian_pyramid", "start=1", lambda b: (U.gaussian_pyramid, (b.img(1, 1, shape=(16,) * b.D), 2), {"start": 1}))
core("gaussian_pyramid", "levels=0", lambda b: (U.gaussian_pyramid, (b.img(2, 2), 0), {}))
core("crop", "margin", lambda b: (U.crop, (b.img(2, 2),), {"margin": 1}))
core("crop", "margin=0-noop", lambda b: (U.crop, (b.img(2, 2),), {"margin": 0}))
core("crop", "num", lambda b: (U.crop, (b.img(2, 2),), {"num": (1, 2) * b.D}))
core("crop", "negative=pad", lambda b: (U.crop, (b.img(2, 2),), {"margin": -1, "value": 2.0}))
core("crop", "mixed", lambda b: (U.crop, (b.img(2, 2),), {"num": (1, -1) * b.D, "mode": "replicate"}))
core("pad", "margin", lambda b: (U.pad, (b.img(2, 2),), {"margin": 1}))
core("pad", "margin=0-noop", lambda b: (U.pad, (b.img(2, 2),), {"margin": 0}))
core("pad", "num", lambda b: (U.pad, (b.img(2, 2),), {"num": (1, 2) * b.D, "mode": "reflect" if b.D == 2 else "replicate"}))
core("pad", "negative=crop", lambda b: (U.pad, (b.img(2, 2),), {"margin": -1}))
core("pad", "value", lambda b: (U.pad, (b.img(2, 2),), {"margin": 2, "value": 3.5}))
core("center_crop", "smaller", lambda b: (U.center_crop, (b.img(2, 2), 4), {}))
core("center_crop", "same-noop", lambda b: (U.center_crop, (b.img(2, 2), b.size), {}))
core("center_crop", "larger-ignored", lambda b: (U.center_crop, (b.img(2, 2), 20), {}))
core("center_pad", "larger", lambda b: (U.center_pad, (b.img(2, 2), 12), {}))
core("center_pad", "same-noop", lambda b: (U.center_pad, (b.img(2, 2), b.size), {}))
core("center_pad", "mode-value", lambda b: (U.center_pad, (b.img(2, 2), 11), {"mode": "constant", "value": 1.0}))
core("center_pad", "replicate", lambda b: (U.center_pad, (b.img(2, 2), 11), {"mode": "replicate"}))
core("fill_border", "copy", lambda b: (U.fill_border, (b.img(2, 2), 1), {"value": 9.0}))
core("fill_border", "margin-tuple", lambda b: (U.fill_border, (b.img(2, 2), (1, 2, 1)[: b.D]), {}))
core("fill_border", "margin=0", lambda b: (U.fill_border, (b.img(2, 2), 0), {}))
core("fill_border", "inplace", lambda b: (U.fill_border, (b.img(2, 2), 1), {"value": 9.0, "inplace": True}), "mutates:a0")
core("flatten_channels", "default", lambda b: (U.flatten_channels, (b.img(1, 3),), {}))
core("flatten_channels", "non-contiguous", lambda b: (U.flatten_channels, (b.img(3, 2).transpose(0, 1),), {}))
core("grid_resample", "scalar-spacing", lambda b: (U.grid_resample, (b.img(2, 2), 1.0, 2.0), {}))
core("grid_resample", "tuple-spacing", lambda b: (U.grid_resample, (b.img(2, 2), (1.0,) * b.D, (0.5, 1.0, 2.0)[: b.D]), {}))
core("grid_resample", "tensor-spacing", lambda b: (U.grid_resample, (b.img(2, 2), torch.ones(b.D), torch.full((b.D,), 1.5)), {}))
core("grid_resample", "same-spacing", lambda b: (U.grid_resample, (b.img(2, 2), 1.0, 1.0), {}))
core("grid_resample", "nearest-padding", lambda b: (U.grid_resample, (b.img(2, 2), 1.0, 0.7), {"mode": "nearest", "padding": "border"}))
core("grid_resample", "const-padding", lambda b: (U.grid_resample, (b.img(2, 2), 1.0, 0.7), {"padding": 2.5}))
core("grid_reshape", "tuple", lambda b: (U.grid_reshape, (b.img(2, 2), tuple(n + 2 for n in b.shape)), {}))
core("grid_reshape", "args", lambda b: (U.grid_reshape, (b.img(2, 2),) + tuple(n + 1 for n in b.shape), {}))
core("grid_reshape", "same-shape", lambda b: (U.grid_reshape, (b.img(2, 2), b.shape), {}))
core("grid_reshape", "nearest", lambda b: (U.grid_reshape, (b.img(2, 2), tuple(n + 2 for n in b.shape)), {"mode": "nearest"}))
core("grid_reshape", "align_corners=False", lambda b: (U.grid_reshape, (b.img(2, 2), tuple(n * 2 for n in b.shape)), {"align_corners": False}))
core("grid_resize", "tuple", lambda b: (U.grid_resize, (b.img(2, 2), tuple(n + 2 for n in b.size)), {}))
core("grid_resize", "int", lambda b: (U.grid_resize, (b.img(2, 2), 9), {}))
core("grid_resize", "tensor-size", lambda b: (U.grid_resize, (b.img(2, 2), torch.tensor(b.size) + 1), {}))
core("grid_resize", "same-size", lambda b: (U.grid_resize, (b.img(2, 2), b.size), {}))
core("grid_resize", "double", lambda b: (U.grid_resize, (b.img(2, 2, dtype=torch.float64), 9), {"align_corners": False}))
core("grid_resize", "bspline-mode", lambda b: (U.grid_resize, (b.img(2, 2), 9), {"mode": "bicubic"}), "pure", (2,))
core("grid_sample", "default", lambda b: (U.grid_sample, (b.img(1, 2), b.coords()), {}))
core("grid_sample", "batch-expand-data", lambda b: (U.grid_sample, (b.img(1, 2), b.coords(3)), {}))
core("grid_sample", "unbatched-grid", lambda b: (U.grid_sample, (b.img(2, 2), b.coords()[0]), {}))
core("grid_sample", "nearest", lambda b: (U.grid_sample, (b.img(1, 2), b.coords()), {"mode": "nearest"}))
core("grid_sample", "border", lambda b: (U.grid_sample, (b.img(1, 2), b.coords(jitter=0.5)), {"padding": "border"}))
core("grid_sample", "reflection", lambda b: (U.grid_sample, (b.img(1, 2), b.coords(jitter=0.5)), {"padding": PaddingMode.REFLECT}))
core("grid_sample", "const-padding-same-dtype", lambda b: (U.grid_sample, (b.img(1, 2), b.coords(jitter=0.5)), {"padding": 3.0}))
core("grid_sample", "const-padding-expand", lambda b: (U.grid_sample, (b.img(1, 2), b.coords(2, jitter=0.5)), {"padding": 3.0}))
core("grid_sample", "const-padding-int-data", lambda b: (U.grid_sample, (b.int_img(1, 2, high=100), b.coords(jitter=0.5)), {"padding": 3}))
core("grid_sample", "const-padding-double-grid", lambda b: (U.grid_sample, (b.img(1, 2), b.coords(jitter=0.5, dtype=torch.float64)), {"padding": 3.0}))
core("grid_sample", "const-padding=0", lambda b: (U.grid_sample, (b.img(1, 2), b.coords(jitter=0.5)), {"padding": 0}))
core("grid_sample", "int-data-nearest", lambda b: (U.grid_sample, (b.int_img(1, 2), b.coords()), {"mode": "nearest"}))
core("grid_sample", "align_corners=False", lambda b: (U.grid_sample, (b.img(1, 2), b.coords()), {"align_corners": False}))
core("grid_sample_mask", "bool", lambda b: (U.grid_sample_mask, (b.mask(), b.coords()), {}))
core("grid_sample_mask", "float-threshold", lambda b: (U.grid_sample_mask, (b.img(), b.coords()), {"threshold": 0.5}))
core("grid_sample_mask", "uint8", lambda b: (U.grid_sample_mask, (b.mask(dtype=torch.uint8), b.coords(2)), {}))
core("image_slice", "default", lambda b: (U.image_slice, (b.img(2, 2),), {}), "pure", (3,))
core("image_slice", "offset", lambda b: (U.image_slice, (b.img(2, 2), 1), {}), "pure", (3,))
core("image_slice", "2d", lambda b: (U.image_slice, (b.img(2, 2),), {}), "pure", (2,))
for _m in ("unit", "center"):
    core("normalize_image", f"{_m}", lambda b, _m=_m: (U.normalize_image, (b.img(2, 2),), {"mode": _m}))
    core("normalize_image", f"{_m}-inplace", lambda b, _m=_m: (U.normalize_image, (b.img(2, 2),), {"mode": _m, "inplace": True}), "mutates:a0")
core("normalize_image", "zscore", lambda b: (U.normalize_image, (b.img(2, 2),), {"mode": "zscore", "min": 0.1, "max": 0.9}))
core("normalize_image", "zscore-inplace", lambda b: (U.normalize_image, (b.img(2, 2),), {"mode": "z-score", "min": 0.1, "max": 0.9, "inplace": True}), "mutates:a0")
core("normalize_image", "zscore-no-minmax", lambda b: (U.normalize_image, (b.img(2, 2),), {"mode": "zscore"}))
core("normalize_image", "unknown-mode-noop", lambda b: (U.normalize_image, (b.img(2, 2),), {"mode": "z"}))
core("normalize_image", "unknown-mode-noop-inplace", lambda b: (U.normalize_image, (b.img(2, 2),), {"mode": "z", "inplace": True}))
core("normalize_image", "unit-minmax", lambda b: (U.normalize_image, (b.img(2, 2),), {"mode": "unit", "min": 0.2, "max": 0.7}))
core("normalize_image", "unit-minmax-inplace", lambda b: (U.normalize_image, (b.img(2, 2),), {"mode": "unit", "min": 0.2, "max": 0.7, "inplace": True}), "mutates:a0")
core("normalize_image", "int-data", lambda b: (U.normalize_image, (b.int_img(2, 2, high=100),), {}))
core("normalize_image", "double", lambda b: (U.normalize_image, (b.img(2, 2, dtype=torch.float64),), {"mode": "center"}))
core("normalize_image", "constant-image", lambda b: (U.normalize_image, (torch.ones((1, 1) + b.shape),), {"mode": "unit"}))
core("rand_sample", "tensor", lambda b: (U.rand_sample, (b.img(2, 2), 5), {"generator": b.g}))
core("rand_sample", "sequence", lambda b: (U.rand_sample, ([b.img(2, 2), b.img(2, 2)], 5), {"generator": b.g}))
core("rand_sample", "mask", lambda b: (U.rand_sample, (b.img(2, 2), 5), {"mask": b.mask(2, 1), "generator": b.g}))
core("rand_sample", "float-mask", lambda b: (U.rand_sample, (b.img(2, 2), 5), {"mask": b.img(2, 1), "generator": b.g}))
core("rand_sample", "replacement", lambda b: (U.rand_sample, (b.img(2, 2), 5), {"replacement": True, "generator": b.g}))
core("rand_sample", "mask-replacement", lambda b: (U.rand_sample, (b.img(2, 2), 5), {"mask": b.mask(2, 1), "replacement": True, "generator": b.g}))
core("rescale", "default", lambda b: (U.rescale, (b.img(2, 2),), {}))
core("rescale", "min-max", lambda b: (U.rescale, (b.img(2, 2), 0, 255), {}))
core("rescale", "data-range", lambda b: (U.rescale, (b.img(2, 2), 0, 1), {"data_min": 0.2, "data_max": 0.8}))
core("rescale", "int-out", lambda b: (U.rescale, (b.img(2, 2), 0, 255), {"dtype": torch.uint8}))
core("rescale", "int-in", lambda b: (U.rescale, (b.int_img(2, 2, high=100), 0, 1), {}))
core("rescale", "same-dtype", lambda b: (U.rescale, (b.img(2, 2), 0, 1), {"dtype": torch.float32}))
core("rescale", "constant", lambda b: (U.rescale, (torch.ones((1, 1) + b.shape), 0, 1), {}))
# value-level no-ops: the output range equals the data range and data_min == 0, so every arithmetic step (shift, scale,
# offset) leaves the values unchanged; the in-place rounding / clamping that follows must still act on a temporary
def _range_img(b, hi):
    x = b.img(2, 2) * hi
    x.view(-1)[0], x.view(-1)[1] = 0.0, float(hi)
    return x
core("rescale", "identity-range-int-out", lambda b: (U.rescale, (_range_img(b, 255), 0, 255), {"dtype": torch.uint8}))
core("rescale", "identity-range-int-out-auto", lambda b: (U.rescale, (_range_img(b, 255),), {"dtype": torch.uint8}))
core("rescale", "identity-range-clamps", lambda b: (U.rescale, (_range_img(b, 3) - 1.0,), {"data_min": 0, "data_max": 1}))
core("rescale", "identity-range-float", lambda b: (U.rescale, (_range_img(b, 1), 0, 1), {}))
core("sample_image", "points", lambda b: (U.sample_image, (b.img(1, 2), b.pts()), {}))
core("sample_image", "grid-coords", lambda b: (U.sample_image, (b.img(1, 2), b.coords()), {}))
core("sample_image", "const-padding", lambda b: (U.sample_image, (b.img(1, 2), b.pts() * 1.5), {"padding": 1.5}))
core("sample_image", "nearest-border", lambda b: (U.sample_image, (b.img(1, 2), b.pts() * 1.5), {"mode": "nearest", "padding": "border"}))
core("sample_image", "batch-expand", lambda b: (U.sample_image, (b.img(1, 2), b.pts(3)), {}))
core("spatial_derivatives", "default", lambda b: (U.spatial_derivatives, (b.img(2, 2),), {}))
core("spatial_derivatives", "order=0", lambda b: (U.spatial_derivatives, (b.img(2, 2),), {"order": 0}))
core("spatial_derivatives", "order=0-sigma", lambda b: (U.spatial_derivatives, (b.img(2, 2),), {"order": 0, "sigma": 0.8}))
core("spatial_derivatives", "order=2", lambda b: (U.spatial_derivatives, (b.img(2, 2),), {"order": 2}))
core("spatial_derivatives", "which", lambda b: (U.spatial_derivatives, (b.img(2, 2),), {"which": ["x", "xy", "yy"]}))
for _m in ("forward_central_backward", "central", "forward", "backward", "sobel", "prewitt", "bspline", "gaussian"):
    core("spatial_derivatives", f"mode={_m}", lambda b, _m=_m: (U.spatial_derivatives, (b.img(2, 2),), {"mode": _m, "order": 1, **({"sigma": 0.8} if _m == "gaussian" else {})}))
core("spatial_derivatives", "sigma", lambda b: (U.spatial_derivatives, (b.img(2, 2),), {"sigma": 0.8}))
core("spatial_derivatives", "spacing-scalar", lambda b: (U.spatial_derivatives, (b.img(2, 2),), {"spacing": 0.5}))
core("spatial_derivatives", "spacing-tensor", lambda b: (U.spatial_derivatives, (b.img(2, 2),), {"spacing": torch.tensor([0.5, 1.0, 2.0][: b.D])}))
core("spatial_derivatives", "spacing-batch", lambda b: (U.spatial_derivatives, (b.img(2, 2),), {"spacing": torch.tensor([[0.5, 1.0, 2.0][: b.D], [1.0, 1.0, 1.0][: b.D]])}))
core("spatial_derivatives", "bspline-stride", lambda b: (U.spatial_derivatives, (b.img(2, 2),), {"mode": "bspline", "stride": 2, "order": 2}))
core("spatial_derivatives", "int-data", lambda b: (U.spatial_derivatives, (b.int_img(2, 2, high=100),), {}))
core("finite_differences", "default", lambda b: (U.finite_differences, (b.img(2, 2), 0), {}))
for _m in ("forward", "backward", "central", "forward_central_backward"):
    core("finite_differences", f"mode={_m}", lambda b, _m=_m: (U.finite_differences, (b.img(2, 2), 1), {"mode": _m}))
core("finite_differences", "order=0", lambda b: (U.finite_differences, (b.img(2, 2), "x"), {"order": 0}))
core("finite_differences", "dilation-spacing", lambda b: (U.finite_differences, (b.img(2, 2), 0), {"dilation": 2, "spacing": 0.5}))
core("finite_differences", "spacing-seq", lambda b: (U.finite_differences, (b.img(2, 2), 0), {"spacing": (0.5, 1.0)}), "pure", (2,))

# image generators (no tensor arguments; Grid arguments are watched)
for _n in ("empty_image", "grid_image", "ones_image", "zeros_image"):
    core(_n, "size", lambda b, _n=_n: (getattr(U, _n), (b.size,), {}))
    core(_n, "grid", lambda b, _n=_n: (getattr(U, _n), (b.grid(),), {}))
    core(_n, "shape-num", lambda b, _n=_n: (getattr(U, _n), (), {"shape": b.shape, "num": 2}))
    core(_n, "num=0", lambda b, _n=_n: (getattr(U, _n), (b.size,), {"num": 0}))
core("circle_image", "size", lambda b: (U.circle_image, ((16, 12),), {}), "pure", (2,))
core("circle_image", "grid", lambda b: (U.circle_image, (b.grid(),), {"radius": 2.0}), "pure", (2,))
core("circle_image", "shape-num", lambda b: (U.circle_image, (), {"shape": (12, 16), "num": 2, "dtype": torch.float32}), "pure", (2,))
core("circle_image", "sigma", lambda b: (U.circle_image, ((16, 12),), {"sigma": 1.0, "x_max": 9.0}), "pure", (2,))
core("circle_image", "sigma-float-num0", lambda b: (U.circle_image, ((16, 12),), {"sigma": 1.0, "dtype": torch.float32, "num": 0}), "pure", (2,))
core("cshape_image", "center", lambda b: (U.cshape_image, ((16, 12),), {"center": (6.0, 8.0)}), "pure", (2,))
core("cshape_image", "grid-radius", lambda b: (U.cshape_image, (b.grid(),), {"center": (3.0, 4.0), "radius": 3.0, "width": 1.0}), "pure", (2,))
core("cshape_image", "sigma", lambda b: (U.cshape_image, ((16, 12),), {"center": (6.0, 8.0), "sigma": 1.0}), "pure", (2,))
core("cshape_image", "sigma-float-num0", lambda b: (U.cshape_image, ((16, 12),), {"center": (6.0, 8.0), "sigma": 1.0, "dtype": torch.float32, "num": 0}), "pure", (2,))
core("cshape_image", "no-center", lambda b: (U.cshape_image, ((16, 12),), {}), "pure", (2,))
core("grid_image", "stride-inverted", lambda b: (U.grid_image, (b.size,), {"stride": 2, "inverted": True}))
core("zeros_image", "channels", lambda b: (U.zeros_image, (b.size,), {"channels": 3, "dtype": torch.float64}))

# ----------------------------------------------------------------------------- flows
core("compose_flows", "default", lambda b: (U.compose_flows, (b.flow(), b.flow()), {}))
core("compose_flows", "align_corners=False", lambda b: (U.compose_flows, (b.flow(), b.flow()), {"align_corners": False}))
core("compose_flows", "double", lambda b: (U.compose_flows, (b.flow(dtype=torch.float64), b.flow(dtype=torch.float64)), {}))
core("compose_flows", "same-object", lambda b: (lambda u: U.compose_flows(u, u), (b.flow(),), {}))
for _k in range(0, 6):
    core("compose_svfs", f"bch_terms={_k}", lambda b, _k=_k: (U.compose_svfs, (b.flow(), b.flow()), {"bch_terms": _k}))
core("compose_svfs", "mode-sigma-spacing", lambda b: (U.compose_svfs, (b.flow(), b.flow()), {"mode": "central", "sigma": 0.7, "spacing": 0.5}))
core("curl", "default", lambda b: (U.curl, (b.flow(),), {}))
core("curl", "mode-sigma", lambda b: (U.curl, (b.flow(),), {"mode": "central", "sigma": 0.7}))
core("denormalize_flow", "default", lambda b: (U.denormalize_flow, (b.flow(),), {}))
core("denormalize_flow", "size", lambda b: (U.denormalize_flow, (b.flow(),), {"size": torch.Size(b.shape)}))
core("denormalize_flow", "size-tensor", lambda b: (U.denormalize_flow, (b.flow(),), {"size": torch.tensor(b.size)}))
core("denormalize_flow", "channels-last", lambda b: (U.denormalize_flow, (b.flow().movedim(1, -1).contiguous(),), {"channels_last": True, "size": torch.Size(b.shape)}))
core("denormalize_flow", "align_corners=False", lambda b: (U.denormalize_flow, (b.flow(),), {"align_corners": False, "side_length": 1}))
core("normalize_flow", "default", lambda b: (U.normalize_flow, (b.flow(amp=2.0),), {}))
core("normalize_flow", "size", lambda b: (U.normalize_flow, (b.flow(amp=2.0),), {"size": torch.Size(b.shape)}))
core("normalize_flow", "channels-last", lambda b: (U.normalize_flow, (b.flow(amp=2.0).movedim(1, -1).contiguous(),), {"channels_last": True, "size": torch.Size(b.shape)}))
core("normalize_flow", "align_corners=False", lambda b: (U.normalize_flow, (b.flow(amp=2.0),), {"align_corners": False}))
core("normalize_flow", "int-data", lambda b: (U.normalize_flow, ((b.flow(amp=3.0)).long(),), {}))
core("denormalize_grid", "default", lambda b: (U.denormalize_grid, (b.coords(),), {}))
core("denormalize_grid", "size", lambda b: (U.denormalize_grid, (b.pts(),), {"size": torch.Size(b.shape)}))
core("denormalize_grid", "channels-first", lambda b: (U.denormalize_grid, (b.coords().movedim(-1, 1).contiguous(),), {"channels_last": False, "size": torch.Size(b.shape)}))
core("denormalize_grid", "align_corners=False", lambda b: (U.denormalize_grid, (b.coords(),), {"align_corners": False}))
core("normalize_grid", "default", lambda b: (U.normalize_grid, (b.coords() * 3 + 3,), {}))
core("normalize_grid", "size", lambda b: (U.normalize_grid, (b.pts() * 3 + 3,), {"size": torch.Size(b.shape)}))
core("normalize_grid", "channels-first", lambda b: (U.normalize_grid, ((b.coords() * 3 + 3).movedim(-1, 1).contiguous(),), {"channels_last": False, "size": torch.Size(b.shape)}))
core("normalize_grid", "int-data", lambda b: (U.normalize_grid, ((b.coords() * 3 + 3).long(),), {}))
core("divergence", "default", lambda b: (U.divergence, (b.flow(),), {}))
core("divergence", "mode-sigma-spacing", lambda b: (U.divergence, (b.flow(),), {"mode": "central", "sigma": 0.7, "spacing": 0.5}))
core("divergence_free_flow", "scalar-potential-2d", lambda b: (U.divergence_free_flow, (b.img(1, 1),), {}), "pure", (2,))
core("divergence_free_flow", "two-potentials-3d", lambda b: (U.divergence_free_flow, (b.img(1, 2),), {}), "pure", (3,))
core("divergence_free_flow", "vector-potential-3d", lambda b: (U.divergence_free_flow, (b.img(1, 3),), {}), "pure", (3,))
core("divergence_free_flow", "spacing-sigma", lambda b: (U.divergence_free_flow, (b.img(1, 1 if b.D == 2 else 3),), {"spacing": 1.0, "sigma": 0.7, "mode": "central"}))
core("expv", "default", lambda b: (U.expv, (b.flow(),), {}))
core("expv", "steps=0-noop", lambda b: (U.expv, (b.flow(),), {"steps": 0}))
core("expv", "steps=0-scale", lambda b: (U.expv, (b.flow(),), {"steps": 0, "scale": 0.5}))
core("expv", "steps=0-inverse", lambda b: (U.expv, (b.flow(),), {"steps": 0, "inverse": True}))
core("expv", "steps=1", lambda b: (U.expv, (b.flow(),), {"steps": 1}))
core("expv", "scale-inverse", lambda b: (U.expv, (b.flow(),), {"scale": 0.5, "steps": 3, "inverse": True}))
core("expv", "scale=1-steps=2", lambda b: (U.expv, (b.flow(),), {"scale": 1, "steps": 2}))
core("expv", "sampling-padding", lambda b: (U.expv, (b.flow(),), {"sampling": "nearest", "padding": "zeros", "align_corners": False, "steps": 2}))
core("flow_derivatives", "default", lambda b: (U.flow_derivatives, (b.flow(),), {}))
core("flow_derivatives", "which", lambda b: (U.flow_derivatives, (b.flow(),), {"which": ["du/dx", "dv/dy", "du/dxy"]}))
core("flow_derivatives", "order=2", lambda b: (U.flow_derivatives, (b.flow(),), {"order": 2}))
core("flow_derivatives", "order=0", lambda b: (U.flow_derivatives, (b.flow(),), {"order": 0}))
core("flow_derivatives", "mode-sigma-spacing-stride", lambda b: (U.flow_derivatives, (b.flow(),), {"mode": "bspline", "sigma": 0.7, "spacing": 0.5, "stride": 2}))
core("jacobian_det", "default", lambda b: (U.jacobian_det, (b.flow(),), {}))
core("jacobian_det", "no-identity", lambda b: (U.jacobian_det, (b.flow(),), {"add_identity": False}))
core("jacobian_det", "mode-sigma-spacing", lambda b: (U.jacobian_det, (b.flow(),), {"mode": "central", "sigma": 0.7, "spacing": 0.5}))
core("jacobian_det", "batch", lambda b: (U.jacobian_det, (b.flow(2),), {}))
core("jacobian_dict", "default", lambda b: (U.jacobian_dict, (b.flow(),), {}))
core("jacobian_dict", "add-identity", lambda b: (U.jacobian_dict, (b.flow(),), {"add_identity": True}))
core("jacobian_matrix", "default", lambda b: (U.jacobian_matrix, (b.flow(),), {}))
core("jacobian_matrix", "add-identity", lambda b: (U.jacobian_matrix, (b.flow(),), {"add_identity": True, "mode": "central"}))
core("lie_bracket", "default", lambda b: (U.lie_bracket, (b.flow(), b.flow()), {}))
core("lie_bracket", "mode-sigma-spacing", lambda b: (U.lie_bracket, (b.flow(), b.flow()), {"mode": "central", "sigma": 0.7, "spacing": 0.5}))
core("lie_bracket", "same-object", lambda b: (lambda v: U.lie_bracket(v, v), (b.flow(),), {}))
core("logv", "default", lambda b: (U.logv, (b.flow(amp=0.03),), {"num_iters": 2}))
core("logv", "num_iters=0", lambda b: (U.logv, (b.flow(amp=0.03),), {"num_iters": 0}))
core("logv", "bch-sigma-none", lambda b: (U.logv, (b.flow(amp=0.03),), {"num_iters": 2, "bch_terms": 3, "sigma": None, "exp_steps": 3}))
core("sample_flow", "points", lambda b: (U.sample_flow, (b.flow(), b.pts()), {}))
core("sample_flow", "grid-coords", lambda b: (U.sample_flow, (b.flow(), b.coords()), {}))
core("sample_flow", "padding", lambda b: (U.sample_flow, (b.flow(), b.pts() * 1.5), {"padding": "zeros", "align_corners": False}))
core("sample_flow", "batch-expand-flow", lambda b: (U.sample_flow, (b.flow(1), b.pts(2)), {}))
core("sample_flow", "batch-expand-coords", lambda b: (U.sample_flow, (b.flow(2), b.pts(1)), {}))
core("warp_grid", "default", lambda b: (U.warp_grid, (b.flow(), b.coords()), {}))
core("warp_grid", "batch-expand-grid", lambda b: (U.warp_grid, (b.flow(2), b.coords(1)), {}))
core("warp_grid", "align_corners=False", lambda b: (U.warp_grid, (b.flow(), b.coords()), {"align_corners": False}))
core("warp_points", "default", lambda b: (U.warp_points, (b.flow(), b.pts()), {}))
core("warp_points", "batch-expand", lambda b: (U.warp_points, (b.flow(1), b.pts(2)), {}))
core("warp_points", "grid-shaped", lambda b: (U.warp_points, (b.flow(), b.coords()), {}))
core("warp_image", "flow", lambda b: (U.warp_image, (b.img(1, 2), b.coords()), {"flow": b.cflow()}))
core("warp_image", "flow=None", lambda b: (U.warp_image, (b.img(1, 2), b.coords()), {}))
core("warp_image", "unbatched-grid-flow", lambda b: (U.warp_image, (b.img(1, 2), b.coords()[0]), {"flow": b.cflow()[0]}))
core("warp_image", "mode-padding", lambda b: (U.warp_image, (b.img(1, 2), b.coords()), {"flow": b.cflow(), "mode": "nearest", "padding": 1.0}))
core("warp_image", "batch", lambda b: (U.warp_image, (b.img(2, 2), b.coords(2)), {"flow": b.cflow(1)}))
core("warp_image", "batch-expand-data", lambda b: (U.warp_image, (b.img(1, 2), b.coords(2)), {"flow": b.cflow(2), "padding": 2.0}))
core("zeros_flow", "size", lambda b: (U.zeros_flow, (b.size,), {}))
core("zeros_flow", "grid", lambda b: (U.zeros_flow, (b.grid(),), {}))
core("zeros_flow", "shape-num", lambda b: (U.zeros_flow, (), {"shape": b.shape, "num": 2}))

# ----------------------------------------------------------------------------- point sets
core("bounding_box", "default", lambda b: (U.bounding_box, (b.pts()[0],), {}))
core("distance_matrix", "default", lambda b: (U.distance_matrix, (b.pts(2, 7), b.pts(2, 9)), {}))
core("closest_point_distances", "default", lambda b: (U.closest_point_distances, (b.pts(2, 7), b.pts(2, 9)), {}))
core("closest_point_distances", "split", lambda b: (U.closest_point_distances, (b.pts(2, 7), b.pts(2, 9)), {"split_size": 4}))
core("closest_point_indices", "default", lambda b: (U.closest_point_indices, (b.pts(2, 7), b.pts(2, 9)), {}))
core("closest_point_indices", "split", lambda b: (U.closest_point_indices, (b.pts(2, 7), b.pts(2, 9)), {"split_size": 4}))
core("polyline_directions", "default", lambda b: (U.polyline_directions, (b.pts(),), {}))
core("polyline_directions", "normalize", lambda b: (U.polyline_directions, (b.pts(),), {"normalize": True, "repeat_last": False}))
core("polyline_tangents", "default", lambda b: (U.polyline_tangents, (b.pts(),), {}))
core("polyline_tangents", "normalize", lambda b: (U.polyline_tangents, (b.pts(),), {"normalize": True, "repeat_first": False}))
core("transform_grid", "linear", lambda b: (U.transform_grid, (b.hom(), b.coords()), {}))
core("transform_grid", "flow", lambda b: (U.transform_grid, (b.flow(), b.coords()), {}))
core("transform_grid", "flow-align_corners=False", lambda b: (U.transform_grid, (b.flow(), b.coords()), {"align_corners": False}))
core("transform_points", "linear", lambda b: (U.transform_points, (b.hom(), b.pts()), {}))
core("transform_points", "translation", lambda b: (U.transform_points, (b.trans(), b.pts()), {}))
core("transform_points", "flow", lambda b: (U.transform_points, (b.flow(), b.pts()), {}))
core("transform_points", "flow-batch-expand", lambda b: (U.transform_points, (b.flow(1), b.pts(2)), {}))

# ----------------------------------------------------------------------------- B-splines
core("bspline_interpolation_weights", "int-stride", lambda b: (U.bspline_interpolation_weights, (3, 2), {}))
core("bspline_interpolation_weights", "tuple-stride", lambda b: (U.bspline_interpolation_weights, (3, (2, 3, 4)[: b.D]), {}))
core("bspline_interpolation_weights", "degree=2", lambda b: (U.bspline_interpolation_weights, (2, 3), {}))
core("bspline_interpolation_weights", "degree=5", lambda b: (U.bspline_interpolation_weights, (5, 2), {"dtype": torch.float64}))
core("cubic_bspline_control_point_grid", "int-stride", lambda b: (U.cubic_bspline_control_point_grid, (b.grid(), 2), {}))
core("cubic_bspline_control_point_grid", "tuple-stride", lambda b: (U.cubic_bspline_control_point_grid, (b.grid(), (2, 3, 2)[: b.D]), {}))
core("cubic_bspline_control_point_grid_size", "tuple", lambda b: (U.cubic_bspline_control_point_grid_size, (b.size, 2), {}))
core("cubic_bspline_control_point_grid_size", "int", lambda b: (U.cubic_bspline_control_point_grid_size, (17, 4), {}))
core("evaluate_cubic_bspline", "stride", lambda b: (U.evaluate_cubic_bspline, (b.cps(),), {"stride": 2}))
core("evaluate_cubic_bspline", "stride-shape", lambda b: (U.evaluate_cubic_bspline, (b.cps(),), {"stride": 2, "shape": torch.Size(b.shape)}))
core("evaluate_cubic_bspline", "stride-size", lambda b: (U.evaluate_cubic_bspline, (b.cps(),), {"stride": 2, "size": torch.Size(b.size)}))
core("evaluate_cubic_bspline", "transpose", lambda b: (U.evaluate_cubic_bspline, (b.cps(),), {"stride": 2, "shape": torch.Size(b.shape), "transpose": True}))
core("evaluate_cubic_bspline", "kernel", lambda b: (U.evaluate_cubic_bspline, (b.cps(),), {"stride": 2, "kernel": U.bspline_interpolation_weights(3, 2)}))
core("evaluate_cubic_bspline", "kernel-seq", lambda b: (U.evaluate_cubic_bspline, (b.cps(),), {"stride": 2, "kernel": [U.bspline_interpolation_weights(3, 2) for _ in range(b.D)]}))
core("evaluate_cubic_bspline", "derivative", lambda b: (U.evaluate_cubic_bspline, (b.cps(),), {"stride": 2, "derivative": 1}))
core("evaluate_cubic_bspline", "derivative-tuple", lambda b: (U.evaluate_cubic_bspline, (b.cps(),), {"stride": 2, "derivative": (1, 0, 2)[: b.D]}))
core("subdivide_cubic_bspline", "all-dims", lambda b: (U.subdivide_cubic_bspline, (b.cps(),), {}))
core("subdivide_cubic_bspline", "one-dim", lambda b: (U.subdivide_cubic_bspline, (b.cps(),), {"dims": 0}))
core("subdivide_cubic_bspline", "dims-seq", lambda b: (U.subdivide_cubic_bspline, (b.cps(),), {"dims": ("x", "y")}))
core("subdivide_cubic_bspline", "no-dims", lambda b: (U.subdivide_cubic_bspline, (b.cps(),), {"dims": ()}))


# ----------------------------------------------------------------------------- losses
def _pairwise(name, fn, extra=None, masks=True, multi=True):
    loss(name, "default", lambda b: (fn, (b.img(2, 1), b.img(2, 1)), dict(extra or {})))
    loss(name, "same-object", lambda b: ((lambda x, **kw: fn(x, x, **kw)), (b.img(2, 1),), dict(extra or {})))
    if multi:
        loss(name, "multi-channel", lambda b: (fn, (b.img(2, 2), b.img(2, 2)), dict(extra or {})))
    if masks:
        loss(name, "mask-bool", lambda b: (fn, (b.img(2, 1), b.img(2, 1)), dict(extra or {}, mask=b.mask(2, 1))))
        loss(name, "mask-float", lambda b: (fn, (b.img(2, 1), b.img(2, 1)), dict(extra or {}, mask=b.img(2, 1))))
        loss(name, "mask-batch1", lambda b: (fn, (b.img(2, 1), b.img(2, 1)), dict(extra or {}, mask=b.mask(1, 1))))


for _n in ("mse_loss", "ssd_loss", "mae_loss", "l1_loss", "huber_loss", "smooth_l1_loss"):
    _f = getattr(L, _n)
    _pairwise(_n, _f)
    for _r in ("none", "sum", "mean"):
        loss(_n, f"reduction={_r}", lambda b, _f=_f, _r=_r: (_f, (b.img(2, 1), b.img(2, 1)), {"reduction": _r}))
    loss(_n, "norm-float", lambda b, _f=_f: (_f, (b.img(2, 1), b.img(2, 1)), {"norm": 2.0}))
    loss(_n, "norm-tensor", lambda b, _f=_f: (_f, (b.img(2, 1), b.img(2, 1)), {"norm": torch.tensor(2.0)}))
    loss(_n, "norm-mask", lambda b, _f=_f: (_f, (b.img(2, 1), b.img(2, 1)), {"norm": torch.tensor(2.0), "mask": b.mask(2, 1)}))
loss("huber_loss", "delta", lambda b: (L.huber_loss, (b.img(2, 1), b.img(2, 1)), {"delta": 0.2}))
loss("smooth_l1_loss", "beta", lambda b: (L.smooth_l1_loss, (b.img(2, 1), b.img(2, 1)), {"beta": 0.2}))
loss("elementwise_loss", "custom-fn", lambda b: (L.elementwise_loss, ("custom", lambda a, c, reduction="none": (a - c).abs(), b.img(2, 1), b.img(2, 1)), {"mask": b.mask(2, 1), "norm": 2.0}))
loss("elementwise_loss", "inplace-aware-fn", lambda b: (L.elementwise_loss, ("sq", lambda a, c, reduction="none": a.sub(c).square(), b.img(2, 1), b.img(2, 1)), {"reduction": "sum"}))

_pairwise("ncc_loss", L.ncc_loss, masks=False)
loss("ncc_loss", "reduction=none", lambda b: (L.ncc_loss, (b.img(2, 1), b.img(2, 1)), {"reduction": "none"}))
loss("ncc_loss", "mask-image-shaped", lambda b: (L.ncc_loss, (b.img(2, 1), b.img(2, 1)), {"mask": b.mask(2, 1)}))
_pairwise("lcc_loss", L.lcc_loss, {"kernel_size": 3})
loss("lcc_loss", "kernel-tuple", lambda b: (L.lcc_loss, (b.img(2, 1), b.img(2, 1)), {"kernel_size": (3, 5, 3)[: b.D], "reduction": "none"}))
_pairwise("wlcc_loss", L.wlcc_loss, {"kernel_size": 3})
loss("wlcc_loss", "source-target-mask", lambda b: (L.wlcc_loss, (b.img(2, 1), b.img(2, 1)), {"kernel_size": 3, "source_mask": b.mask(2, 1), "target_mask": b.img(2, 1)}))
loss("wlcc_loss", "all-masks", lambda b: (L.wlcc_loss, (b.img(2, 1), b.img(2, 1)), {"kernel_size": 3, "mask": b.mask(2, 1), "source_mask": b.img(2, 1), "target_mask": b.img(2, 1)}))
# every dtype pairing of the two per-image masks without a joint mask (a mask that already has the compute dtype is NOT copied
# by `.float()`, so an in-place combination of the two would write into the caller's tensor; seeded change C15-10)
for _sm in ("float32", "bool", "float64", "uint8"):
    for _tm in ("float32", "bool", "float64"):
        loss("wlcc_loss", f"masks-{_sm}-{_tm}", lambda b, _sm=_sm, _tm=_tm: (
            L.wlcc_loss, (b.img(2, 1), b.img(2, 1)),
            {"kernel_size": 3, "source_mask": b.mask(2, 1, dtype=getattr(torch, _sm)), "target_mask": b.mask(2, 1, dtype=getattr(torch, _tm))}))
loss("wlcc_loss", "target-mask-only", lambda b: (L.wlcc_loss, (b.img(2, 1), b.img(2, 1)), {"kernel_size": 3, "target_mask": b.img(2, 1)}))
loss("wlcc_loss", "source-mask-only", lambda b: (L.wlcc_loss, (b.img(2, 1), b.img(2, 1)), {"kernel_size": 3, "source_mask": b.img(2, 1)}))
_pairwise("mi_loss", L.mi_loss, {"num_bins": 8}, multi=False)
loss("mi_loss", "vmin-vmax", lambda b: (L.mi_loss, (b.img(2, 1), b.img(2, 1)), {"num_bins": 8, "vmin": 0.0, "vmax": 1.0}))
loss("mi_loss", "num_samples", lambda b: (L.mi_loss, (b.img(2, 1), b.img(2, 1)), {"num_bins": 8, "num_samples": 20}))
loss("mi_loss", "sample_ratio-mask", lambda b: (L.mi_loss, (b.img(2, 1), b.img(2, 1)), {"num_bins": 8, "sample_ratio": 0.5, "mask": b.mask(2, 1)}))
loss("mi_loss", "normalized", lambda b: (L.mi_loss, (b.img(2, 1), b.img(2, 1)), {"num_bins": 8, "normalized": True}))
_pairwise("nmi_loss", L.nmi_loss, {"num_bins": 8}, multi=False)

for _n in ("dice_score", "dice_loss"):
    _f = getattr(L, _n)
    loss(_n, "default", lambda b, _f=_f: (_f, (b.probs(2, 1), b.mask(2, 1).float()), {}))
    loss(_n, "multi-channel", lambda b, _f=_f: (_f, (b.probs(2, 3), b.probs(2, 3)), {}))
    loss(_n, "weight", lambda b, _f=_f: (_f, (b.probs(2, 1), b.mask(2, 1).float()), {"weight": b.img(2, 1)}))
    loss(_n, "bool-target", lambda b, _f=_f: (_f, (b.probs(2, 1), b.mask(2, 1)), {}))
    loss(_n, "int-target", lambda b, _f=_f: (_f, (b.probs(2, 1), b.mask(2, 1).long()), {}))
    loss(_n, "reduction=none", lambda b, _f=_f: (_f, (b.probs(2, 1), b.mask(2, 1).float()), {"reduction": "none"}))
    loss(_n, "same-object", lambda b, _f=_f: ((lambda x: _f(x, x)), (b.probs(2, 1),), {}))
for _n in ("tversky_index", "tversky_loss"):
    _f = getattr(L, _n)
    loss(_n, "default", lambda b, _f=_f: (_f, (b.probs(2, 1), b.mask(2, 1).float()), {}))
    loss(_n, "alpha-beta", lambda b, _f=_f: (_f, (b.probs(2, 1), b.mask(2, 1).float()), {"alpha": 0.3, "beta": 0.7}))
    loss(_n, "alpha-only", lambda b, _f=_f: (_f, (b.probs(2, 1), b.mask(2, 1).float()), {"alpha": 0.3}))
    loss(_n, "labels-target", lambda b, _f=_f: (_f, (b.probs(2, 3), b.int_img(2, 1, high=3)[:, 0]), {}))
    loss(_n, "normalize", lambda b, _f=_f: (_f, (b.logits(2, 3), b.probs(2, 3)), {"normalize": True}))
    loss(_n, "normalize-binary", lambda b, _f=_f: (_f, (b.logits(2, 1), b.mask(2, 1).float()), {"normalize": True}))
    loss(_n, "binarize", lambda b, _f=_f: (_f, (b.probs(2, 3), b.probs(2, 3)), {"binarize": True}))
    loss(_n, "binarize-binary", lambda b, _f=_f: (_f, (b.probs(2, 1), b.mask(2, 1).float()), {"binarize": True}))
    loss(_n, "weight", lambda b, _f=_f: (_f, (b.probs(2, 2), b.probs(2, 2)), {"weight": b.img(2, 1)}))
    loss(_n, "weight-full", lambda b, _f=_f: (_f, (b.probs(2, 2), b.probs(2, 2)), {"weight": b.img(2, 2)}))
    loss(_n, "one-hot-target", lambda b, _f=_f: (_f, (b.probs(2, 3), b.probs(2, 3)), {"reduction": "none"}))
for _n in ("tversky_index_with_logits", "tversky_loss_with_logits"):
    _f = getattr(L, _n)
    loss(_n, "default", lambda b, _f=_f: (_f, (b.logits(2, 1), b.mask(2, 1).float()), {}))
    loss(_n, "multi-class", lambda b, _f=_f: (_f, (b.logits(2, 3), b.int_img(2, 1, high=3)[:, 0]), {"alpha": 0.3, "beta": 0.7}))
    loss(_n, "binarize-weight", lambda b, _f=_f: (_f, (b.logits(2, 2), b.probs(2, 2)), {"binarize": True, "weight": b.img(2, 1)}))
loss("tversky_loss", "gamma", lambda b: (L.tversky_loss, (b.probs(2, 1), b.mask(2, 1).float()), {"gamma": 1.5}))
loss("tversky_loss_with_logits", "gamma", lambda b: (L.tversky_loss_with_logits, (b.logits(2, 1), b.mask(2, 1).float()), {"gamma": 1.5}))
for _n in ("binary_cross_entropy_with_logits", "balanced_binary_cross_entropy_with_logits"):
    _f = getattr(L, _n)
    loss(_n, "default", lambda b, _f=_f: (_f, (b.logits(2, 1), b.mask(2, 1).float()), {}))
    loss(_n, "weight", lambda b, _f=_f: (_f, (b.logits(2, 1), b.mask(2, 1).float()), {"weight": b.img(2, 1)}))
    loss(_n, "reduction=none", lambda b, _f=_f: (_f, (b.logits(2, 1), b.mask(2, 1).float()), {"reduction": "none"}))
    loss(_n, "reduction=sum", lambda b, _f=_f: (_f, (b.logits(2, 1), b.mask(2, 1).float()), {"reduction": "sum"}))
loss("focal_loss_with_logits", "default", lambda b: (L.focal_loss_with_logits, (b.logits(2, 1), b.mask(2, 1).float()), {}))
loss("focal_loss_with_logits", "weight-alpha-gamma", lambda b: (L.focal_loss_with_logits, (b.logits(2, 1), b.mask(2, 1).float()), {"weight": b.img(2, 1), "alpha": 0.5, "gamma": 1.0}))
loss("focal_loss_with_logits", "reduction=none", lambda b: (L.focal_loss_with_logits, (b.logits(2, 1), b.mask(2, 1).float()), {"reduction": "none"}))
loss("label_smoothing", "labels", lambda b: (L.label_smoothing, (b.int_img(2, 1, high=4),), {"num_classes": 4}))
loss("label_smoothing", "one-hot", lambda b: (L.label_smoothing, (b.mask(2, 4).float(),), {}))
loss("label_smoothing", "ignore-index", lambda b: (L.label_smoothing, (b.int_img(2, 1, high=4),), {"num_classes": 4, "ignore_index": 3, "alpha": 0.2}))
loss("label_smoothing", "binary", lambda b: (L.label_smoothing, (b.mask(2, 1).long(),), {"num_classes": 2}))
loss("kld_loss", "default", lambda b: (L.kld_loss, (b.randn(2, 8), 0.1 * b.randn(2, 8)), {}))
loss("kld_loss", "reduction=none", lambda b: (L.kld_loss, (b.randn(2, 8), 0.1 * b.randn(2, 8)), {"reduction": "none"}))

_REG = ("grad_loss", "bending_loss", "bending_energy", "be_loss", "curvature_loss", "diffusion_loss", "divergence_loss",
        "elasticity_loss", "total_variation_loss", "tv_loss")
for _n in _REG:
    _f = getattr(L, _n)
    _x = {"first_parameter": 1.0, "second_parameter": 0.5} if _n == "elasticity_loss" else {}
    loss(_n, "default", lambda b, _f=_f, _x=_x: (_f, (b.flow(2),), dict(_x)))
    loss(_n, "mode-sigma-spacing", lambda b, _f=_f, _x=_x: (_f, (b.flow(2),), dict(_x, mode="central", sigma=0.7, spacing=0.5)))
    loss(_n, "reduction=none", lambda b, _f=_f, _x=_x: (_f, (b.flow(2),), dict(_x, reduction="none")))
    loss(_n, "reduction=sum-bspline", lambda b, _f=_f, _x=_x: (_f, (b.flow(2),), dict(_x, reduction="sum", mode="bspline", stride=2)))
    loss(_n, "spacing-tensor", lambda b, _f=_f, _x=_x: (_f, (b.flow(2),), dict(_x, spacing=torch.tensor([0.5, 1.0, 2.0][: b.D]))))
loss("grad_loss", "p=1-q=None", lambda b: (L.grad_loss, (b.flow(2),), {"p": 1, "q": None}))
loss("grad_loss", "p=1.5-q=2", lambda b: (L.grad_loss, (b.flow(2),), {"p": 1.5, "q": 2}))
loss("elasticity_loss", "no-parameters", lambda b: (L.elasticity_loss, (b.flow(2),), {}))
loss("elasticity_loss", "shear-poisson", lambda b: (L.elasticity_loss, (b.flow(2),), {"shear_modulus": 1.0, "poissons_ratio": 0.3}))
loss("lame_parameters", "lambda-mu", lambda b: (L.lame_parameters, (), {"first_parameter": 1.0, "second_parameter": 0.5}))
for _n in ("bspline_bending_loss", "bspline_bending_energy", "bspline_be_loss"):
    _f = getattr(L, _n)
    loss(_n, "default", lambda b, _f=_f: (_f, (b.cps(2, 1),), {}))
    loss(_n, "stride", lambda b, _f=_f: (_f, (b.cps(2, 2),), {"stride": 2}))
    loss(_n, "stride-tuple-none", lambda b, _f=_f: (_f, (b.cps(2, 2),), {"stride": (2,) * b.D, "reduction": "none"}))
loss("inverse_consistency_loss", "default", lambda b: (L.inverse_consistency_loss, (b.flow(2), b.flow(2)), {}))
loss("inverse_consistency_loss", "grid-margin", lambda b: (L.inverse_consistency_loss, (b.flow(2), b.flow(2)), {"grid": b.grid(), "margin": 1}))
loss("inverse_consistency_loss", "mask", lambda b: (L.inverse_consistency_loss, (b.flow(2), b.flow(2)), {"mask": b.mask(2, 1)}))
loss("inverse_consistency_loss", "units=voxel", lambda b: (L.inverse_consistency_loss, (b.flow(2), b.flow(2)), {"units": "voxel"}))
loss("inverse_consistency_loss", "units=world-grid", lambda b: (L.inverse_consistency_loss, (b.flow(2), b.flow(2)), {"units": "world", "grid": b.grid(False), "reduction": "none"}))
loss("inverse_consistency_loss", "batch1-forward", lambda b: (L.inverse_consistency_loss, (b.flow(1), b.flow(2)), {}))
loss("inverse_consistency_loss", "same-object", lambda b: ((lambda u: L.inverse_consistency_loss(u, u)), (b.flow(2),), {}))
loss("masked_loss", "mask=None", lambda b: (L.masked_loss, (b.img(2, 1),), {}))
loss("masked_loss", "mask", lambda b: (L.masked_loss, (b.img(2, 1), b.mask(2, 1)), {}))
loss("masked_loss", "mask-batch1", lambda b: (L.masked_loss, (b.img(2, 1), b.img(1, 1)), {}))
loss("masked_loss", "mask-multichannel", lambda b: (L.masked_loss, (b.img(2, 2), b.mask(2, 2)), {"name": "x"}))
loss("masked_loss", "inplace", lambda b: (L.masked_loss, (b.img(2, 1), b.mask(2, 1)), {"inplace": True}), "mutates:a0")
loss("masked_loss", "inplace-mask=None", lambda b: (L.masked_loss, (b.img(2, 1),), {"inplace": True}))
loss("reduce_loss", "mean", lambda b: (L.reduce_loss, (b.img(2, 1),), {}))
loss("reduce_loss", "sum", lambda b: (L.reduce_loss, (b.img(2, 1), "sum"), {}))
loss("reduce_loss", "none-noop", lambda b: (L.reduce_loss, (b.img(2, 1), "none"), {}))
loss("reduce_loss", "mean-mask", lambda b: (L.reduce_loss, (b.img(2, 1), "mean", b.mask(2, 1)), {}))
loss("reduce_loss", "sum-mask", lambda b: (L.reduce_loss, (b.img(2, 1), "sum", b.img(2, 1)), {}))
loss("reduce_loss", "none-mask", lambda b: (L.reduce_loss, (b.img(2, 1), "none", b.mask(2, 1)), {}))


def public_names() -> Dict[str, List[str]]:
    core_names = sorted(set(U.__all__) | {n for n in dir(U) if not n.startswith("_") and callable(getattr(U, n))
                                          and getattr(getattr(U, n), "__module__", "").startswith("deepali.core")})
    loss_names = sorted(set(L.__all__) | {n for n in dir(L) if not n.startswith("_") and callable(getattr(L, n))
                                          and getattr(getattr(L, n), "__module__", "") == "deepali.losses.functional"
                                          and not isinstance(getattr(L, n), type)})
    return {"core": core_names, "loss": loss_names}
