"""C16 — image similarity and overlap losses satisfy their defining axioms.

Correspondence: deepali.losses.functional.* and deepali.losses.image.* against the Lean model
(Deepali/Model/Losses.lean, driver ops `loss.*`).  Oracles: the axioms of the property text stated
directly on the deepali API (identical inputs, range, symmetry, affine invariance of NCC/LCC, mask
handling incl. every documented mask shape, norm scaling, reductions, Dice/Tversky facts).
"""
from __future__ import annotations

import itertools
import math
import random
import struct
import sys
from fractions import Fraction
from typing import List, Optional

import torch
import torch.nn.functional as F

from deepali.losses import functional as L
from deepali.losses import image as LI

from lib import proto
from lib.core import Oracle, Stream, close

PROP = "C16"
if hasattr(sys, "set_int_max_str_digits"):
    sys.set_int_max_str_digits(0)   # wlcc: exact rationals with > 4300 digits
RTOL64 = 1e-9   # float64 paths (ssd/mse/l1/mae/huber/smooth_l1/mi/nmi): <= ~1e3 flops x 1.1e-16 x conditioning << 1e-9
RTOL32 = 2e-4   # paths the code casts to float32 (`.float()` in ncc/lcc/wlcc/dice/tversky): window/image sums of
#                 <= ~250 terms x 6e-8, times the conditioning of 1 - a^2/(bc) on the generated (non-degenerate) images
TINY = 1e-5     # literal in mi_loss

ASSUMPTIONS = [
    "floats are the exact rationals they denote; IEEE rounding is covered by the correspondence tolerance "
    f"(rtol {RTOL64} on float64 paths; {RTOL32} where the code itself casts to float32 via `.float()`: ncc, lcc, "
    "wlcc, dice, tversky — inputs there are float32-representable so model and code see the same numbers), "
    "never by a theorem",
    "exp (Parzen window) and log (entropies) of mi_loss are computed by the harness in float64 and passed to the "
    "model as tables keyed by argument; the model checks that every argument it forms is in the table (1e-11 rel.)",
    "mi_loss is modelled without random sampling (num_samples/sample_ratio None) and for C = 1 "
    "(the code's `x.sub(bin_center)` only broadcasts for C = 1); tversky_index without normalize (sigmoid/softmax); "
    "label-map targets of multi-class predictions are integral (the code requires an int64 tensor for `scatter_`; the "
    "stream sends them as `long`)",
    "masks/weights sum to a non-zero value; windows are non-degenerate for the affine-invariance oracle",
    "torch primitives (avg_pool*d, broadcasting, sum/mean, round, linspace, bmm) behave as documented; "
    "avg_pool and broadcasting are re-checked against torch on every run (stream `prim`)",
]
TRUSTED = ["model file Deepali/Model/Losses.lean is a hand transcription of losses/functional.py (masked_loss, "
           "reduce_loss, elementwise_loss, ssd/mse/l1/mae/huber/smooth_l1, ncc, lcc, wlcc, mi/nmi, dice, tversky), "
           "core/image.py (avg_pool, dot_channels), core/math.py (max_difference), losses/image.py + base.py "
           "(module -> functional mapping, in harness/props/c16.py `_module_call`); tied to /repo by the streams below",
           "mi_loss: the few Python lines computing bin width, sigma, normalisation constant and torch.linspace "
           "centres are replicated by the harness (`_mi_parts`) and handed to the model as inputs"]
RULE = ("cases drawn from one PRNG; D in {2,3}; N,C in {1,2,3}; spatial sizes 2..6; value kinds dyadic/uniform/gauss/"
        "binary/prob; mask kinds none/full/(N,1)/(1,C)/(1,1) x bool/float weights (+ malformed batch/channel/spatial); "
        "reductions none/mean/sum; kernel sizes incl. tuples, larger than the image, even; eps in {1e-15, 2^-10, 1/2}; "
        "bins 3..8; functional forms and module classes; image data is generated from the seed stored in the case; "
        "distinct after JSON canonicalisation; non-trivial = mask present or C>1 or N>1 or D=3 or non-default option")

REDS = ["none", "mean", "sum"]
MASK_KINDS = ["full", "n1", "1c", "11"]


def _n(tier, quick, thorough, search=None):
    return {"quick": quick, "thorough": thorough, "search": search or max(quick, thorough // 4)}[tier]


def _f32(v: float) -> float:
    return struct.unpack("f", struct.pack("f", v))[0]


# ------------------------------------------------------------------ data generation (deterministic from the case)
def _values(r: random.Random, n: int, kind: str, f32: bool) -> List[float]:
    if kind == "dyadic":
        v = [r.randint(0, 64) / 16 for _ in range(n)]
    elif kind == "uniform":
        v = [r.random() for _ in range(n)]
    elif kind == "gauss":
        v = [r.gauss(1.0, 2.0) for _ in range(n)]
    elif kind == "binary":
        v = [float(r.random() < 0.5) for _ in range(n)]
    elif kind == "prob":
        v = [r.choice([0.0, 1.0, r.random(), r.random()]) for _ in range(n)]
    elif kind.startswith("labels"):
        v = [float(r.randrange(int(kind[6:]))) for _ in range(n)]
    elif kind == "const":
        v = [1.5] * n
    else:
        raise ValueError(kind)
    return [_f32(x) for x in v] if f32 else v


def _tensor(r, shape, kind, f32):
    n = 1
    for s in shape:
        n *= s
    return torch.tensor(_values(r, n, kind, f32), dtype=torch.float64).reshape(shape)


def _mask_shape(shape, kind):
    N, C, sp = shape[0], shape[1], list(shape[2:])
    return {"full": [N, C] + sp, "n1": [N, 1] + sp, "1c": [1, C] + sp, "11": [1, 1] + sp,
            "badbatch": [N + 2, 1] + sp, "badchan": [N, C + 2] + sp, "badsp": [N, 1] + sp[:-1] + [sp[-1] + 1],
            "nosp": [N] + sp}[kind]


def _mask(r, shape, kind, dtype):
    if kind is None:
        return None
    ms = _mask_shape(shape, kind)
    n = 1
    for s in ms:
        n *= s
    per = n // ms[0]          # every batch item keeps at least one sample (ncc/mi divide by the masked sum per item)
    if dtype == "bool":
        v = [r.random() < 0.6 for _ in range(n)]
        for k in range(ms[0]):
            v[k * per + r.randrange(per)] = True
        return torch.tensor(v, dtype=torch.bool).reshape(ms)
    v = [r.choice([0.0, 0.0, 0.25, 0.5, 1.0, 1.0]) for _ in range(n)]
    for k in range(ms[0]):
        v[k * per + r.randrange(per)] = 1.0
    return torch.tensor(v, dtype=torch.float64).reshape(ms)


def _shape(r: random.Random, D=None, maxc=2, maxn=2, lo=2, hi=5):
    D = D or r.choice([2, 3])
    hi = hi if D == 2 else min(hi, 4)
    return [r.randint(1, maxn), r.randint(1, maxc)] + [r.randint(lo, hi) for _ in range(D)]


def _build(c, f32=False):
    """(x, y, mask) from the case alone."""
    r = random.Random(c["seed"])
    x = _tensor(r, c["shape"], c.get("vkind", "uniform"), f32)
    y = _tensor(r, c.get("yshape", c["shape"]), c.get("ykind", c.get("vkind", "uniform")), f32)
    m = _mask(r, c["shape"], c.get("mask"), c.get("mdtype", "bool"))
    return x, y, m


def T(t: Optional[torch.Tensor]) -> str:
    vals = t.double().flatten().tolist()
    return f"{t.ndim} " + " ".join(str(s) for s in t.shape) + (" " if vals else "") + " ".join(proto.fr(v) for v in vals)


def OT(t: Optional[torch.Tensor]) -> str:
    return "-" if t is None else "+ " + T(t)


def OR(v) -> str:
    return "-" if v is None else "+ " + proto.fr(v)


def NL(xs) -> str:
    xs = list(xs)
    return f"{len(xs)} " + " ".join(str(int(v)) for v in xs) if xs else "0"


def _res(t: torch.Tensor):
    return {"shape": list(t.shape), "values": proto.flat(t), "dtype": str(t.dtype)}


def _cmp(r, out, rtol, shape=None):
    """generic comparison of an implementation result with the model's output line."""
    if isinstance(r, str):
        if out.startswith("err:"):
            ik, mk = r.split(":")[1], out.split(":")[1]
            mk = "value" if mk == "index" else mk
            return None if ik == mk else f"error kinds differ: impl {r} vs model {out}"
        return f"impl raised {r}, model gave {out[:80]}"
    if proto.is_error(out):
        return f"model says {out}, impl returned a value of shape {r['shape']}"
    m = proto.parse_vec(out)
    if shape is not None and r["shape"] != list(shape):
        return f"impl output shape {r['shape']}, expected {list(shape)}"
    return close(r["values"], m, rtol)


def _nontrivial(c):
    return bool(c.get("mask")) or c["shape"][0] > 1 or c["shape"][1] > 1 or len(c["shape"]) == 5 or bool(c.get("opt"))


def _seed(rng):
    return rng.randrange(1 << 40)


def _maskpick(rng, bad=True):
    k = rng.choice([None, None] + MASK_KINDS * 2 + (["badbatch", "badchan", "badsp"] if bad else []))
    return k, rng.choice(["bool", "float"])


# ------------------------------------------------------------------ stream: torch primitives the model relies on
def gen_prim(rng, tier):
    for _ in range(_n(tier, 24, 300)):
        shape = _shape(rng, hi=6)
        D = len(shape) - 2
        ks = [rng.choice([1, 3, 3, 5, 7]) for _ in range(D)]
        yield {"op": "pool", "kind": rng.choice(["sum", "mean"]), "shape": shape, "ks": ks, "seed": _seed(rng),
               "vkind": "dyadic"}
    for _ in range(_n(tier, 16, 200)):
        shape = _shape(rng, maxc=3, maxn=3)
        yield {"op": "expand", "shape": shape, "mask": rng.choice(MASK_KINDS), "mdtype": "float", "seed": _seed(rng)}


def impl_prim(c):
    x, _, m = _build(c)
    if c["op"] == "pool":
        fn = {2: F.avg_pool2d, 3: F.avg_pool3d}[len(c["shape"]) - 2]
        kw = dict(kernel_size=tuple(c["ks"]), stride=1, padding=tuple(k // 2 for k in c["ks"]))
        out = fn(x, divisor_override=1, **kw) if c["kind"] == "sum" else fn(x, count_include_pad=False, **kw)
        return _res(out)
    return _res(m.expand_as(x))


def line_prim(c):
    x, _, m = _build(c)
    if c["op"] == "pool":
        return f"loss.pool {c['kind']} {T(x)} {NL(c['ks'])}"
    return f"loss.expand {NL(c['shape'])} {T(m)}"


def cmp_prim(c, r, out):
    return _cmp(r, out, 1e-12, c["shape"])


# ------------------------------------------------------------------ stream: masked_loss / reduce_loss alone
def gen_reduce(rng, tier):
    for _ in range(_n(tier, 40, 600)):
        shape = _shape(rng, maxc=3, maxn=3)
        mk, md = _maskpick(rng)
        yield {"shape": shape, "mask": mk, "mdtype": md, "red": rng.choice(REDS), "seed": _seed(rng), "vkind": "gauss"}
    # the shape logic of masked_loss on every small shape pair (exhaustive table)
    if tier != "search":
        dims = [1, 2, 3]
        for ls in [[n] for n in dims] + [[n, c] for n in dims for c in dims] + \
                  [[n, c, s] for n in (1, 2) for c in (1, 2) for s in (2, 3)]:
            for ms in [[n, c] for n in dims for c in dims] + [[n, c, s] for n in dims for c in dims for s in (2, 3)] + \
                      [[n, c, s, 2] for n in (1, 2) for c in (1, 2) for s in (2, 3)]:
                yield {"check": True, "ls": ls, "ms": ms}


def impl_reduce(c):
    if c.get("check"):
        loss = torch.zeros(c["ls"], dtype=torch.float64)
        mask = torch.ones(c["ms"], dtype=torch.float64)
        L.masked_loss(loss, mask, "x")
        return "ok"
    x, _, m = _build(c)
    loss = L.masked_loss(x, m, "reduce")
    return _res(L.reduce_loss(loss, c["red"], m))


def line_reduce(c):
    if c.get("check"):
        return f"loss.masked_check {NL(c['ls'])} {NL(c['ms'])}"
    x, _, m = _build(c)
    # masked_loss followed by reduce_loss == pointwise core with f(x, y) = x: use the ssd op on sqrt-free data?
    # simpler: send loss values and expanded mask to `loss.reduce` after the model's own shape check
    if m is not None and c["mask"].startswith("bad"):
        return f"loss.masked_check {NL(c['shape'])} {NL(list(m.shape))}"
    if m is None:
        vals = proto.flat(x)
        return f"loss.reduce {c['red']} {len(vals)} {proto.vec(vals)} -"
    me = m.double().expand_as(x)
    vals = proto.flat(x * me)
    return f"loss.reduce {c['red']} {len(vals)} {proto.vec(vals)} + {proto.vec(proto.flat(me))}"


def cmp_reduce(c, r, out):
    if c.get("check"):
        if r == "ok":
            return None if out == "ok" else f"impl accepts, model says {out}"
        if out == "ok":
            return f"model accepts, impl {r}"
        return _cmp(r, out, 0)
    return _cmp(r, out, RTOL64, c["shape"] if c["red"] == "none" else [])


# ------------------------------------------------------------------ stream: pointwise losses (float64 path)
PW_FN = ["mse_loss", "ssd_loss", "mae_loss", "l1_loss", "huber_loss", "smooth_l1_loss"]
PW_MOD = ["L2ImageLoss", "SSD", "L1ImageLoss", "HuberImageLoss", "SmoothL1ImageLoss"]


def gen_pointwise(rng, tier):
    for _ in range(_n(tier, 300, 4000)):
        shape = _shape(rng)
        mk, md = _maskpick(rng)
        api = rng.choice(["fn", "fn", "module"])
        c = {"api": api, "shape": shape, "mask": mk, "mdtype": md, "seed": _seed(rng),
             "vkind": rng.choice(["uniform", "gauss", "dyadic"]),
             "norm": rng.choice([None, None, 2.5, 0.125, 0.0, -1.0, "tensor"]), "param": None}
        if api == "fn":
            c["loss"] = rng.choice(PW_FN)
            c["red"] = rng.choice(REDS + [None])
        else:
            c["loss"] = rng.choice(PW_MOD)
            c["red"] = None
            if rng.random() < 0.3:
                c["norm"] = "auto"   # NormalizedPairwiseImageLoss(source, target)
        if c["loss"] in ("huber_loss", "smooth_l1_loss", "HuberImageLoss", "SmoothL1ImageLoss"):
            c["param"] = rng.choice([None, 0.5, 1.0, 2.0, 0.25])
        if rng.random() < 0.04:
            c["yshape"] = shape[:-1] + [shape[-1] + 1]
        c["opt"] = bool(c["param"] or c["norm"])
        yield c


def _norm_arg(c, x, y):
    n = c["norm"]
    if n == "tensor":
        return torch.tensor([1.75], dtype=torch.float64)
    return n


def impl_pointwise(c):
    x, y, m = _build(c)
    if c["api"] == "fn":
        kw = {}
        if c["red"] is not None:
            kw["reduction"] = c["red"]
        if c["param"] is not None:
            kw["delta" if c["loss"] == "huber_loss" else "beta"] = c["param"]
        return _res(getattr(L, c["loss"])(x, y, mask=m, norm=_norm_arg(c, x, y), **kw))
    cls = getattr(LI, c["loss"])
    kw = {}
    if c["param"] is not None:
        kw["delta" if c["loss"] == "HuberImageLoss" else "beta"] = c["param"]
    mod = cls(x, y, **kw) if c["norm"] == "auto" else cls(norm=_norm_arg(c, x, y) if c["norm"] is not None else False, **kw)
    out = mod(x, y, mask=m)
    return {**_res(out), "norm": None if mod.norm is None else float(torch.as_tensor(mod.norm).double())}


_PW_DEFAULT_RED = {"mse_loss": "mean", "ssd_loss": "sum", "mae_loss": "mean", "l1_loss": "mean", "huber_loss": "mean",
                   "smooth_l1_loss": "mean", "L2ImageLoss": "mean", "SSD": "sum", "L1ImageLoss": "mean",
                   "HuberImageLoss": "mean", "SmoothL1ImageLoss": "mean"}


def _pw_kind(c):
    l = c["loss"]
    if l in ("mse_loss", "ssd_loss", "L2ImageLoss", "SSD"):
        return "ssd"
    if l in ("mae_loss", "l1_loss", "L1ImageLoss"):
        return "l1"
    p = 1.0 if c["param"] is None else c["param"]
    if l in ("huber_loss", "HuberImageLoss"):
        return f"huber {proto.fr(p)}"
    if l == "SmoothL1ImageLoss":
        # image.py SmoothL1ImageLoss.forward @204 does not pass `beta` on: the functional default 1.0 is used
        return f"smoothl1 {proto.fr(1.0)}"
    return f"smoothl1 {proto.fr(p)}"


def line_pointwise(c):
    x, y, m = _build(c)
    red = c["red"] or _PW_DEFAULT_RED[c["loss"]]
    n = c["norm"]
    if n == "tensor":
        n = 1.75
    if n == "auto":
        # the norm is an input here (its own stream `norm` ties max_difference to the model)
        smin, smax, tmin, tmax = x.min(), x.max(), y.min(), y.max()
        n = float(torch.max(torch.abs(smax - tmin), torch.abs(tmax - smin)).square())
    return f"loss.pointwise {_pw_kind(c)} {red} {T(x)} {T(y)} {OT(m)} {OR(n)}"


def cmp_pointwise(c, r, out):
    red = c["red"] or _PW_DEFAULT_RED[c["loss"]]
    return _cmp(r, out, RTOL64, c["shape"] if red == "none" else [])


def gen_norm(rng, tier):
    for _ in range(_n(tier, 20, 300)):
        shape = _shape(rng)
        yield {"shape": shape, "seed": _seed(rng), "vkind": rng.choice(["gauss", "uniform"]),
               "which": rng.choice(["both", "source", "target"]), "cls": rng.choice(PW_MOD)}


def impl_norm(c):
    x, y, _ = _build(c)
    cls = getattr(LI, c["cls"])
    mod = {"both": lambda: cls(x, y), "source": lambda: cls(source=x), "target": lambda: cls(target=y)}[c["which"]]()
    return _res(torch.as_tensor(mod.norm))


def line_norm(c):
    x, y, _ = _build(c)
    a, b = {"both": (x, y), "source": (x, x), "target": (y, y)}[c["which"]]
    return f"loss.max_difference_sq {T(a)} {T(b)}"


def cmp_norm(c, r, out):
    return _cmp(r, out, RTOL64, [])


# ------------------------------------------------------------------ stream: NCC
EPS = [1e-15, 1e-15, 2.0 ** -10, 0.5]


def gen_ncc(rng, tier):
    for _ in range(_n(tier, 100, 1200)):
        shape = _shape(rng)
        mk, md = _maskpick(rng)
        if rng.random() < 0.3:
            mk = None
        api = rng.choice(["fn", "fn", "module"])
        c = {"loss": "ncc", "api": api, "shape": shape, "mask": mk, "mdtype": md, "seed": _seed(rng),
             "vkind": rng.choice(["uniform", "gauss", "dyadic"]), "eps": rng.choice(EPS),
             "red": rng.choice(REDS + [None]) if api == "fn" else None}
        if rng.random() < 0.04:
            c["yshape"] = shape[:-1] + [shape[-1] + 1]
        c["opt"] = c["eps"] != 1e-15
        yield c


def impl_ncc(c):
    x, y, m = _build(c, f32=True)
    if c["api"] == "fn":
        kw = {} if c["red"] is None else {"reduction": c["red"]}
        return _res(L.ncc_loss(x, y, mask=m, epsilon=c["eps"], **kw))
    return _res(LI.NCC(epsilon=c["eps"])(x, y, mask=m))


def line_ncc(c):
    x, y, m = _build(c, f32=True)
    return f"loss.ncc {c['red'] or 'mean'} {T(x)} {T(y)} {OT(m)} {proto.fr(c['eps'])}"


def cmp_ncc(c, r, out):
    return _cmp(r, out, RTOL32, [c["shape"][0]] if (c["red"] or "mean") == "none" else [])


# ------------------------------------------------------------------ stream: LCC / WLCC
def _ks(rng, D, allow_even=True):
    k = rng.choice([1, 3, 3, 3, 5, 7, 9] + ([2, 4] if allow_even else []))
    if rng.random() < 0.3:
        return [rng.choice([1, 3, 5]) for _ in range(D)], "tuple"
    return [k] * D, "int"


def gen_lcc(rng, tier):
    for _ in range(_n(tier, 80, 1000)):
        shape = _shape(rng)
        D = len(shape) - 2
        mk, md = _maskpick(rng)
        ks, kform = _ks(rng, D)
        api = rng.choice(["fn", "fn", "module"])
        c = {"loss": "lcc", "api": api, "shape": shape, "mask": mk, "mdtype": md, "seed": _seed(rng),
             "vkind": rng.choice(["uniform", "gauss", "dyadic", "dyadic"]), "eps": rng.choice(EPS), "ks": ks,
             "kform": kform, "red": rng.choice(REDS + [None]) if api == "fn" else None}
        if rng.random() < 0.03:
            c["ks"], c["kform"] = ks + [3], "tuple"     # wrong number of kernel sizes
        c["opt"] = True
        yield c


def _ksarg(c):
    return c["ks"][0] if c["kform"] == "int" else tuple(c["ks"])


def impl_lcc(c):
    x, y, m = _build(c, f32=True)
    if c["api"] == "fn":
        kw = {} if c["red"] is None else {"reduction": c["red"]}
        return _res(L.lcc_loss(x, y, mask=m, kernel_size=_ksarg(c), epsilon=c["eps"], **kw))
    return _res(LI.LCC(kernel_size=_ksarg(c), epsilon=c["eps"])(x, y, mask=m))


def line_lcc(c):
    x, y, m = _build(c, f32=True)
    return f"loss.lcc {c['red'] or 'mean'} {T(x)} {T(y)} {OT(m)} {NL(c['ks'])} {proto.fr(c['eps'])}"


def cmp_lcc(c, r, out):
    return _cmp(r, out, RTOL32, c["shape"] if (c["red"] or "mean") == "none" else [])


def gen_wlcc(rng, tier):
    for _ in range(_n(tier, 30, 400)):
        shape = _shape(rng)
        D = len(shape) - 2
        ks, kform = _ks(rng, D, allow_even=False)
        api = rng.choice(["fn", "fn", "module"])
        c = {"loss": "wlcc", "api": api, "shape": shape, "seed": _seed(rng), "vkind": rng.choice(["uniform", "dyadic"]),
             "eps": rng.choice([2.0 ** -10, 0.5, 2.0 ** -20]), "ks": ks, "kform": kform,
             "red": rng.choice(REDS + [None]) if api == "fn" else None,
             "masks": [rng.choice([None] + MASK_KINDS + (["badchan"] if rng.random() < 0.1 else [])) for _ in range(3)],
             "mdtype": rng.choice(["bool", "float"]), "opt": True}
        c["mask"] = next((k for k in c["masks"] if k), None)
        yield c


def _wlcc_masks(c):
    r = random.Random(c["seed"] + 17)
    return [_mask(r, c["shape"], k, c["mdtype"]) for k in c["masks"]]


def impl_wlcc(c):
    x, y, _ = _build({**c, "mask": None}, f32=True)
    m, sm, tm = _wlcc_masks(c)
    if c["api"] == "fn":
        kw = {} if c["red"] is None else {"reduction": c["red"]}
        return _res(L.wlcc_loss(x, y, mask=m, source_mask=sm, target_mask=tm, kernel_size=_ksarg(c),
                                epsilon=c["eps"], **kw))
    return _res(LI.WLCC(kernel_size=_ksarg(c), epsilon=c["eps"])(x, y, mask=m, source_mask=sm, target_mask=tm))


def line_wlcc(c):
    x, y, _ = _build({**c, "mask": None}, f32=True)
    m, sm, tm = _wlcc_masks(c)
    return (f"loss.wlcc {c['red'] or 'mean'} {T(x)} {T(y)} {OT(m)} {OT(sm)} {OT(tm)} {NL(c['ks'])} "
            f"{proto.fr(c['eps'])}")


def cmp_wlcc(c, r, out):
    return _cmp(r, out, RTOL32, c["shape"] if (c["red"] or "mean") == "none" else [])


# ------------------------------------------------------------------ stream: Dice
def gen_dice(rng, tier):
    for _ in range(_n(tier, 120, 1500)):
        shape = _shape(rng, maxc=3)
        mk, md = _maskpick(rng, bad=False)
        if rng.random() < 0.05:
            mk = "badchan"
        api = rng.choice(["dice_score", "dice_loss", "Dice"])
        c = {"loss": api, "api": "module" if api == "Dice" else "fn", "shape": shape, "mask": mk, "mdtype": md,
             "seed": _seed(rng), "vkind": rng.choice(["prob", "binary", "uniform"]),
             "ykind": rng.choice(["binary", "binary", "prob"]), "eps": rng.choice([1e-15, 1e-15, 2.0 ** -10, 1.0, 0.0]),
             "red": rng.choice(REDS + [None]) if api != "Dice" else None}
        if rng.random() < 0.04:
            c["yshape"] = shape[:-1] + [shape[-1] + 1]
        c["opt"] = c["eps"] != 1e-15
        yield c


def impl_dice(c):
    x, y, m = _build(c, f32=True)
    if c["api"] == "fn":
        kw = {} if c["red"] is None else {"reduction": c["red"]}
        return _res(getattr(L, c["loss"])(x, y, weight=m, epsilon=c["eps"], **kw))
    return _res(LI.Dice(epsilon=c["eps"])(x, y, mask=m))


def line_dice(c):
    x, y, m = _build(c, f32=True)
    op = "dice_score" if c["loss"] == "dice_score" else "dice_loss"
    return f"loss.{op} {c['red'] or 'mean'} {T(x)} {T(y)} {OT(m)} {proto.fr(c['eps'])}"


def cmp_dice(c, r, out):
    if c["eps"] == 0.0 and isinstance(r, dict) and any(v != v for v in map(float, r.get("values", []))):
        # epsilon = 0 and an item/channel whose (weighted) prediction and target are both empty: 0/0. The code returns
        # nan; Lean's total division returns 0 — the quotient is undefined, outside every theorem's hypothesis
        # (`C16_dice_*` require a positive denominator), so neither value is compared. The zero denominator is
        # re-established independently here before the case is set aside.
        x, y, m = _build(c, f32=True)
        w = torch.ones_like(x) if m is None else m.to(x.dtype).expand_as(x) if m.dim() == x.dim() else m.unsqueeze(1).to(x.dtype).expand_as(x)
        den = (x * w).flatten(2).sum(2) + (y * w).flatten(2).sum(2)
        if bool((den == 0).any()):
            return None
    return _cmp(r, out, RTOL32, c["shape"][:2] if (c["red"] or "mean") == "none" else [])


# ------------------------------------------------------------------ stream: Tversky
def gen_tversky(rng, tier):
    for _ in range(_n(tier, 160, 2000)):
        shape = _shape(rng, maxc=3)
        N, C, sp = shape[0], shape[1], shape[2:]
        tform = rng.choice(["same", "same", "single", "two", "labels", "labels"])
        tshape = {"same": shape, "single": [N, 1] + sp, "two": [N, 2] + sp, "labels": [N] + sp}[tform]
        wk = rng.choice([None, None, "full", "n1", "nosp", "11", "badchan"])
        ab = rng.choice([(None, None), (0.5, 0.5), (0.3, 0.7), (0.7, None), (None, 0.25), (1.0, 1.0), (0.0, 1.0)])
        which = "tversky_loss" if rng.random() < 0.4 else "tversky_index"
        c = {"loss": which, "shape": shape, "yshape": tshape, "mask": wk, "mdtype": rng.choice(["bool", "float"]),
             "seed": _seed(rng), "vkind": rng.choice(["prob", "binary", "uniform"]),
             "ykind": rng.choice(["binary", "binary", "prob"]), "eps": rng.choice([1e-15, 1e-15, 2.0 ** -10, 1.0]),
             "alpha": ab[0], "beta": ab[1], "binarize": rng.random() < 0.3, "red": rng.choice(REDS + [None]),
             "gamma": rng.choice([None, None, 0.0, 1.0, 2.0, 3.0, 1.5, 2.5, 0.5]), "opt": True, "tform": tform}
        if tform == "labels" and C > 1:
            # multi-class prediction + label map (N, ..., X): one-hot encoded by the code (int64 labels required);
            # occasionally one label outside [0, C) -> scatter_ raises RuntimeError
            c["ykind"] = f"labels{C}"
            c["longlabels"] = True
            c["badlabel"] = rng.choice([None] * 7 + [C, -1])
        yield c


def _tv_mask(c, x):
    """tversky weights are shaped after y (after narrowing): build from the *prediction* shape with C as given."""
    r = random.Random(c["seed"] + 5)
    return _mask(r, c["shape"], c["mask"], c["mdtype"])


def _ab(c):
    a, b = c["alpha"], c["beta"]
    if a is None and b is None:
        a = b = 0.5
    elif a is None:
        a = 1 - b
    elif b is None:
        b = 1 - a
    return a, b


def _tv_xy(c):
    x, y, _ = _build({**c, "mask": None}, f32=True)
    if c.get("longlabels"):
        y = y.long()
        if c.get("badlabel") is not None:
            y.view(-1)[y.numel() // 2] = c["badlabel"]
    return x, y


def impl_tversky(c):
    x, y = _tv_xy(c)
    w = _tv_mask(c, x)
    kw = {} if c["red"] is None else {"reduction": c["red"]}
    if c["loss"] == "tversky_loss":
        return _res(L.tversky_loss(x, y, weight=w, alpha=c["alpha"], beta=c["beta"], gamma=c["gamma"],
                                   epsilon=c["eps"], binarize=c["binarize"], **kw))
    return _res(L.tversky_index(x, y, weight=w, alpha=c["alpha"], beta=c["beta"], epsilon=c["eps"],
                                binarize=c["binarize"], **kw))


def line_tversky(c):
    x, y = _tv_xy(c)
    w = _tv_mask(c, x)
    a, b = _ab(c)      # tversky_index @249-254 (Python glue)
    red = c["red"] or "mean"
    if c["loss"] == "tversky_loss":
        tbl = []
        g = c["gamma"]
        if g is not None and g > 1 and g != int(g):
            # non-integral focal exponent: t -> t**gamma is tabulated at the values 1 - TI (transcendental)
            try:
                t = 1 - L.tversky_index(x, y, weight=w, alpha=c["alpha"], beta=c["beta"], epsilon=c["eps"],
                                        binarize=c["binarize"], reduction="none").double().flatten()
                tbl = sorted(set((float(v), float(v) ** g) for v in t.tolist()))
            except Exception:
                tbl = []
        return (f"loss.tversky_loss {red} {T(x)} {T(y)} {OT(w)} {proto.fr(a)} {proto.fr(b)} {proto.fr(c['eps'])} "
                f"{1 if c['binarize'] else 0} {OR(g)} {_table(tbl)}")
    return (f"loss.tversky_index {red} {T(x)} {T(y)} {OT(w)} {proto.fr(a)} {proto.fr(b)} {proto.fr(c['eps'])} "
            f"{1 if c['binarize'] else 0}")


def cmp_tversky(c, r, out):
    return _cmp(r, out, RTOL32)


# ------------------------------------------------------------------ stream: mutual information
def _mi_parts(x, y, mask, vmin, vmax, B):
    """the Python-level glue of mi_loss @1016-1058 and the float64 intermediate values whose exp/log are tabulated."""
    if vmin is None:
        vmin = torch.min(x.min(), y.min()).item()
    if vmax is None:
        vmax = torch.max(x.max(), y.max()).item()
    bin_width = (vmax - vmin) / B
    cen = torch.linspace(vmin, vmax, B, requires_grad=False).unsqueeze(1).type_as(x)
    sd = bin_width * (1 / (2 * math.sqrt(2 * math.log(2))))
    nrm = 1 / math.sqrt(2 * math.pi) * sd
    tss = 2 * sd ** 2
    parts = {"cen": cen.flatten().tolist(), "tss": tss, "nrm": nrm, "exp": [], "log": []}
    try:
        xf, yf = x.flatten(2), y.flatten(2)
        ax = xf.sub(cen).square().div(tss).neg()
        ay = yf.sub(cen).square().div(tss).neg()
        pwx, pwy = ax.exp().mul(nrm), ay.exp().mul(nrm)
        if mask is not None:
            pwx = pwx.mul(mask.flatten(2))     # mi_loss @1067-1068: weight of each sample in the joint histogram
        hist = pwx.bmm(pwy.transpose(1, 2))
        norm = hist.flatten(1).sum(1).add(TINY)
        pj = hist / norm.view(-1, 1, 1)
        pi, pt = pj.sum(2), pj.sum(1)
        ea = torch.cat([ax.flatten(), ay.flatten()])
        la = torch.cat([pi.flatten(), pt.flatten(), pj.flatten()]).add(TINY)
        parts["exp"] = sorted(set(zip(ea.tolist(), ea.exp().tolist())))
        parts["log"] = sorted(set(zip(la.tolist(), la.log().tolist())))
    except RuntimeError:
        pass
    return parts


def _table(t):
    return f"{len(t)} " + " ".join(f"{proto.fr(k)} {proto.fr(v)}" for k, v in t) if t else "0"


def gen_mi(rng, tier):
    for _ in range(_n(tier, 30, 250)):
        D = rng.choice([2, 3])
        shape = [rng.randint(1, 2), 1] + [rng.randint(2, 4 if D == 2 else 3) for _ in range(D)]
        if rng.random() < 0.08:
            shape[1] = 2
        mk = rng.choice([None, None, "n1", "11", "n1", "badsp", "1c" if shape[1] > 1 else "n1"])
        api = rng.choice(["mi_loss", "nmi_loss", "MI", "NMI"])
        vm = rng.choice([None, None, (0.0, 1.0), (-0.5, 1.5)])
        c = {"loss": api, "api": "module" if api in ("MI", "NMI") else "fn", "shape": shape, "mask": mk,
             "mdtype": rng.choice(["bool", "float"]), "seed": _seed(rng), "vkind": rng.choice(["uniform", "dyadic01"]),
             "bins": rng.choice([3, 4, 5, 6, 8]), "vmin": vm and vm[0], "vmax": vm and vm[1], "opt": True}
        if c["vkind"] == "dyadic01":
            c["vkind"] = "uniform"
        yield c


def _mi_normalized(c):
    # losses/image.py: NMI.__init__ passes normalized=True to MI.__init__ (fix da87845)
    return c["loss"] in ("nmi_loss", "NMI")


def impl_mi(c):
    x, y, m = _build(c)
    kw = dict(vmin=c["vmin"], vmax=c["vmax"], num_bins=c["bins"])
    if c["loss"] == "mi_loss":
        return _res(L.mi_loss(x, y, mask=m, **kw))
    if c["loss"] == "nmi_loss":
        return _res(L.nmi_loss(x, y, mask=m, **kw))
    return _res(getattr(LI, c["loss"])(**kw)(x, y, mask=m))


def line_mi(c):
    x, y, m = _build(c)
    p = _mi_parts(x, y, m.double() if m is not None and m.shape[1:2] == (1,) and m.shape[2:] == x.shape[2:] else None,
                  c["vmin"], c["vmax"], c["bins"])
    return (f"loss.mi {1 if _mi_normalized(c) else 0} {T(x)} {T(y)} {OT(m)} {c['bins']} {proto.vec(p['cen'])} "
            f"{proto.fr(TINY)} {proto.fr(p['tss'])} {proto.fr(p['nrm'])} {proto.fr(1e-11)} "
            f"{_table(p['exp'])} {_table(p['log'])}")


def cmp_mi(c, r, out):
    return _cmp(r, out, RTOL64, [])


STREAMS = [
    Stream("prim", gen_prim, impl_prim, line_prim, cmp_prim, nontrivial=lambda c: True,
           doc="torch primitives as modelled: avg_pool2d/3d(stride 1, pad k//2, divisor_override=1 | "
               "count_include_pad=False) vs boxWin; expand_as vs bcastIdx"),
    Stream("reduce", gen_reduce, impl_reduce, line_reduce, cmp_reduce, nontrivial=lambda c: True,
           doc="masked_loss + reduce_loss alone: all mask kinds x reductions; the shape checks of masked_loss on an "
               "exhaustive table of small (loss shape, mask shape) pairs"),
    Stream("pointwise", gen_pointwise, impl_pointwise, line_pointwise, cmp_pointwise, nontrivial=_nontrivial,
           doc="mse/ssd/mae/l1/huber/smooth_l1 functional + L2ImageLoss/SSD/L1ImageLoss/HuberImageLoss/"
               "SmoothL1ImageLoss modules; masks, reductions, norm (None/positive/0/negative/tensor/auto), delta/beta"),
    Stream("norm", gen_norm, impl_norm, line_norm, cmp_norm, nontrivial=lambda c: True,
           doc="NormalizedPairwiseImageLoss(source, target).norm == max_difference(...)^2"),
    Stream("ncc", gen_ncc, impl_ncc, line_ncc, cmp_ncc, nontrivial=_nontrivial,
           doc="ncc_loss / NCC: eps, reductions, masks of every documented kind x bool/float weights (weighted means, "
               "centred images times mask) and malformed masks (rejections compared)"),
    Stream("lcc", gen_lcc, impl_lcc, line_lcc, cmp_lcc, nontrivial=_nontrivial,
           doc="lcc_loss / LCC: kernel sizes (int, tuple, > image, even, wrong length), eps, masks, reductions"),
    Stream("wlcc", gen_wlcc, impl_wlcc, line_wlcc, cmp_wlcc, nontrivial=_nontrivial,
           doc="wlcc_loss / WLCC: every combination of mask/source_mask/target_mask (incl. derived product mask)"),
    Stream("dice", gen_dice, impl_dice, line_dice, cmp_dice, nontrivial=_nontrivial,
           doc="dice_score / dice_loss / Dice: weights of every broadcastable shape, eps (incl. 0), reductions"),
    Stream("tversky", gen_tversky, impl_tversky, line_tversky, cmp_tversky, nontrivial=_nontrivial,
           doc="tversky_index: alpha/beta defaults, binarize, target formats (same/single/two-channel/labels), weight "
               "formats; label maps of multi-class predictions (one-hot by the code, incl. out-of-range labels); "
               "tversky_loss = (1 - TI)^gamma with gamma None/0/1/integral/non-integral (tabulated)/< 1 (rejected)"),
    Stream("mi", gen_mi, impl_mi, line_mi, cmp_mi, nontrivial=_nontrivial,
           doc="mi_loss / nmi_loss / MI / NMI: bins, vmin/vmax given or derived, masks; exp/log tabulated"),
]


# =================================================================== property oracles (implementation only)
def _t32(*vals):
    return 2e-4 * max([1.0] + [float(abs(v)) for v in vals])


def _maxabs(t):
    return float(t.abs().max()) if t.numel() else 0.0


def _call(name, x, y, mask=None, red=None, **kw):
    """uniform access to every loss under test (functional forms and modules)."""
    rk = {} if red is None else {"reduction": red}
    if name in PW_FN:
        return getattr(L, name)(x, y, mask=mask, **rk, **kw)
    if name == "ncc_loss":
        return L.ncc_loss(x, y, mask=mask, **rk, **kw)
    if name == "lcc_loss":
        return L.lcc_loss(x, y, mask=mask, **rk, **kw)
    if name == "wlcc_loss":
        return L.wlcc_loss(x, y, mask=mask, **rk, **kw)
    if name in ("dice_score", "dice_loss", "tversky_index", "tversky_loss"):
        return getattr(L, name)(x, y, weight=mask, **rk, **kw)
    if name in ("mi_loss", "nmi_loss"):
        return getattr(L, name)(x, y, mask=mask, **kw)
    raise KeyError(name)


ALL_RED = PW_FN + ["ncc_loss", "lcc_loss", "wlcc_loss", "dice_score", "dice_loss", "tversky_index", "tversky_loss"]
KW = {"lcc_loss": {"kernel_size": 3}, "wlcc_loss": {"kernel_size": 3}, "mi_loss": {"num_bins": 6},
      "nmi_loss": {"num_bins": 6}}
OVERLAP = ("dice_score", "dice_loss", "tversky_index", "tversky_loss")


def _known_exc(name, e):
    """map the (since repaired, commit 830fa90) defect that hit every call of tversky_loss to its specific key."""
    if name == "tversky_loss" and isinstance(e, TypeError) and "gamma" in str(e):
        return ("C16:tversky_loss:gamma-typeerror",
                f"tversky_loss raises for every input: TypeError: {e}")
    return None


def _data(c, n=2, kind=None):
    r = random.Random(c["seed"])
    overlap = c["loss"] in OVERLAP
    kind = kind or ("binary" if overlap else c.get("vkind", "uniform"))
    return [_tensor(r, c["shape"], kind, True) for _ in range(n)], r


# ---- identical inputs -> documented minimum
def check_identical(c):
    name = c["loss"]
    (x, y), r = _data(c)
    kw = KW.get(name, {})
    try:
        if name in ("mi_loss", "nmi_loss"):
            same, other = float(_call(name, x, x.clone(), **kw)), float(_call(name, x, y, **kw))
            if not same <= other + 1e-9:
                return (f"C16:{name}:identical", f"{name}(x,x)={same} is not the minimum: {name}(x,y)={other}")
            return None
        v = _call(name, x, x.clone(), red="none", **kw)
    except Exception as e:
        return _known_exc(name, e) or (f"C16:{name}:identical:exception", f"{type(e).__name__}: {e}")
    want = 1.0 if name in ("dice_score", "tversky_index") else 0.0
    tol = 0.0 if name in PW_FN else 5e-4
    if _maxabs(v - want) > tol:
        return (f"C16:{name}:identical", f"{name}(x, x) = {v.flatten()[:4].tolist()} instead of {want}")
    return None


# ---- range
def check_range(c):
    name = c["loss"]
    (x, y), r = _data(c, kind="prob" if c["loss"] in OVERLAP else None)
    kw = KW.get(name, {})
    try:
        v = _call(name, x, y, **({} if name in ("mi_loss", "nmi_loss") else {"red": "none"}), **kw)
    except Exception as e:
        return _known_exc(name, e) or (f"C16:{name}:range:exception", f"{type(e).__name__}: {e}")
    lo, hi = {"nmi_loss": (0.0, 2.0), "mi_loss": (-math.inf, 1e-4)}.get(
        name, (0.0, math.inf) if name in PW_FN else (0.0, 1.0))
    if float(v.min()) < lo - 1e-5 or float(v.max()) > hi + 1e-5:
        return (f"C16:{name}:range", f"{name} = [{float(v.min())}, {float(v.max())}] outside documented [{lo}, {hi}]")
    return None


# ---- symmetry
def check_symmetric(c):
    name = c["loss"]
    (x, y), r = _data(c, kind="prob" if c["loss"] in OVERLAP else None)
    kw = dict(KW.get(name, {}))
    if name.startswith("tversky"):
        kw.update(alpha=0.5, beta=0.5)
    try:
        rk = {} if name in ("mi_loss", "nmi_loss") else {"red": "none"}
        a, b = _call(name, x, y, **rk, **kw), _call(name, y, x, **rk, **kw)
    except Exception as e:
        return _known_exc(name, e) or (f"C16:{name}:symmetric:exception", f"{type(e).__name__}: {e}")
    tol = 1e-9 if name in PW_FN + ["mi_loss", "nmi_loss"] else _t32()
    if _maxabs(a - b) > tol:
        return (f"C16:{name}:symmetric", f"{name}(x,y) - {name}(y,x) = {_maxabs(a - b):.3e}")
    return None


# ---- affine invariance of NCC / LCC
def check_affine(c):
    name = c["loss"]
    (x, y), r = _data(c, kind="dyadic")
    a = r.choice([-1, 1]) * r.choice([0.5, 2.0, 3.0, 0.25, 1.5])
    b = r.choice([-2.0, 0.75, 1.0, 4.0])
    kw = KW.get(name, {})
    side = c.get("side", "source")
    x2, y2 = (a * x + b, y) if side == "source" else ((x, a * y + b) if side == "target" else (a * x + b, -a * y - b))
    v0, v1 = _call(name, x, y, red="none", **kw), _call(name, x2, y2, red="none", **kw)
    if _maxabs(v0 - v1) > 1e-3:
        return (f"C16:{name}:affine", f"{name} changes by {_maxabs(v0 - v1):.3e} under intensity map {a}*x+{b} ({side})")
    return None


# ---- masks: every documented shape accepted, masked-out samples ignored, mean over the masked region
MASKED = PW_FN + ["ncc_loss", "lcc_loss", "wlcc_loss", "dice_score", "dice_loss", "tversky_index", "tversky_loss",
                  "mi_loss", "nmi_loss"]


def _documented_masks(name, shape):
    if name in ("mi_loss", "nmi_loss"):
        return ["n1", "11"]          # (1|N, 1, ..., X); same shape as input for C = 1
    if name in ("tversky_index", "tversky_loss"):
        return ["full", "n1", "nosp"]    # (N, ..., X) or (N, 1|C, ..., X)
    return MASK_KINDS


def check_mask(c):
    name, shape = c["loss"], c["shape"]
    (x, y), r = _data(c, kind="prob" if name in OVERLAP else None)
    kw = KW.get(name, {})
    kind = c["mask"]
    if kind not in _documented_masks(name, shape):
        return None
    m = _mask(r, shape, kind, c["mdtype"])
    me = (m if kind != "nosp" else m.unsqueeze(1)).expand(shape)
    scalar = name in ("mi_loss", "nmi_loss")
    rk = {} if scalar else {"red": "none"}
    try:
        v = _call(name, x, y, mask=m, **rk, **kw)
    except Exception as e:
        if name == "ncc_loss":
            return ("C16:ncc_loss:mask-shape", f"ncc_loss(mask of shape {list(m.shape)} for images {shape}) raises "
                    f"{type(e).__name__}: {e}")
        if _known_exc(name, e):
            return _known_exc(name, e)
        if name in ("tversky_index", "tversky_loss") and shape[1] == 1:
            return ("C16:tversky_index:weight-binary", f"{name}(binary prediction {shape}, weight "
                    f"{list(m.shape)}) raises {type(e).__name__}: {e}")
        return (f"C16:{name}:mask-shape:{kind}", f"{name}(mask {list(m.shape)} for images {shape}) raises "
                f"{type(e).__name__}: {e}")
    # (a) samples where the mask is zero do not influence the value
    z = me.double() == 0
    x2 = torch.where(z, torch.tensor(_values(r, x.numel(), "uniform", True), dtype=x.dtype).reshape(shape) * 7 - 3, x)
    y2 = torch.where(z, torch.tensor(_values(r, x.numel(), "uniform", True), dtype=x.dtype).reshape(shape) * 7 - 3, y)
    pointwise = name in PW_FN or name in OVERLAP or scalar or name == "ncc_loss"
    if pointwise:
        kw2 = dict(kw)
        if scalar:
            kw2.update(vmin=0.0, vmax=1.0)
            v = _call(name, x, y, mask=m, **kw2)
        v2 = _call(name, x2, y2, mask=m, **rk, **kw2)
        if _maxabs(v - v2) > (1e-9 if name in PW_FN or scalar else _t32()):
            return (f"C16:{name}:mask-ignored", f"{name} changes by {_maxabs(v - v2):.3e} when samples with mask==0 change")
    if name == "ncc_loss":
        # the axioms of NCC also hold for its masked form: 0 on identical images, invariant under a*x+b
        same = _call(name, x, x.clone(), mask=m, red="none")
        # items whose masked samples are (nearly) constant have zero variance: a^2/(b c + eps) = 0/eps, the loss is 1 by the
        # epsilon law (as for an unmasked constant image) - outside "identical, non-constant" (hypothesis of
        # C16_ncc_masked_identical)
        w = me.double().reshape(shape[0], -1)
        xf = x.double().reshape(shape[0], -1)
        mean_w = (xf * w).sum(1, keepdim=True) / w.sum(1, keepdim=True)
        var_w = (((xf - mean_w) * w) ** 2).sum(1)
        ok = var_w > 1e-4
        if ok.any() and _maxabs(same.flatten()[ok]) > 5e-4:
            return ("C16:ncc_loss:identical-masked", f"ncc_loss(x, x, mask) = {same.flatten()[:4].tolist()}")
        xa = _tensor(r, shape, "dyadic", True)
        a, b = r.choice([-2.0, 0.5, 3.0]), r.choice([-1.0, 0.75, 4.0])
        v0, v1 = _call(name, xa, y, mask=m, red="none"), _call(name, a * xa + b, y, mask=m, red="none")
        if _maxabs(v0 - v1) > 1e-3:
            return ("C16:ncc_loss:affine-masked", f"masked ncc_loss changes by {_maxabs(v0 - v1):.3e} under {a}*x+{b}")
    # (b) mean over the masked region / weighting of local scores
    if name in PW_FN or name in ("lcc_loss",):
        none = _call(name, x, y, red="none", **kw)
        mean = _call(name, x, y, mask=m, red="mean", **kw)
        want = (none * me).sum() / me.sum()
        if abs(float(mean) - float(want)) > (1e-9 if name in PW_FN else _t32()) * max(1.0, abs(float(want))):
            return (f"C16:{name}:mask-mean", f"masked mean {float(mean)} != sum(mask*loss)/sum(mask) = {float(want)}")
    if scalar and c["mdtype"] == "bool":
        # MI restricted to the masked region == MI of the selected samples (same bins)
        for n in range(shape[0]):
            mn = me[n:n + 1].bool()
            if int(mn.sum()) < 2:
                continue
            full = _call(name, x[n:n + 1], y[n:n + 1], mask=mn, vmin=0.0, vmax=1.0, **kw)
            sel = _call(name, x[n:n + 1][mn].reshape(1, 1, -1, 1), y[n:n + 1][mn].reshape(1, 1, -1, 1),
                        vmin=0.0, vmax=1.0, **kw)
            if bool((~mn).any()) and abs(float(full) - float(sel)) > 1e-6:
                return (f"C16:{name.replace('nmi', 'mi')}:mask-zero-samples",
                        f"{name} with mask = {float(full):.6f}, on the masked samples alone = {float(sel):.6f}: "
                        "samples with mask==0 are counted as intensity-0 pairs in the joint histogram")
    return None


def gen_mask(rng, tier):
    for _ in range(_n(tier, 3, 60, 15)):
        for name in MASKED:
            for kind in MASK_KINDS + ["nosp"]:
                shape = _oshape(rng, name)
                if kind not in _documented_masks(name, shape):
                    continue
                yield {"loss": name, "shape": shape, "seed": _seed(rng), "mask": kind,
                       "mdtype": rng.choice(["bool", "float"])}


# ---- reductions and norm
def check_reductions(c):
    name, shape = c["loss"], c["shape"]
    (x, y), r = _data(c, kind="prob" if name in OVERLAP else None)
    kw = KW.get(name, {})
    m = None
    if c["mask"] and name != "ncc_loss" and not (name.startswith("tversky") and c["mask"] in ("1c", "11")):
        m = _mask(r, shape, c["mask"], c["mdtype"])   # (ncc rejects every mask: oracle `mask`; tversky documents (N, ...))
    try:
        none = _call(name, x, y, mask=m, red="none", **kw)
        mean = _call(name, x, y, mask=m, red="mean", **kw)
        total = _call(name, x, y, mask=m, red="sum", **kw)
    except Exception as e:
        return _known_exc(name, e) or (f"C16:{name}:reductions:exception", f"{type(e).__name__}: {e}")
    tol = (1e-9 if name in PW_FN else 2e-5) * max(1.0, _maxabs(total))
    if mean.ndim != 0 or total.ndim != 0:
        return (f"C16:{name}:reduction:shape", f"'mean'/'sum' not scalar: {list(mean.shape)}, {list(total.shape)}")
    if abs(float(total) - float(none.double().sum())) > tol:
        return (f"C16:{name}:reduction:sum", f"'sum' {float(total)} != sum of 'none' {float(none.double().sum())}")
    masked_mean = m is not None and name not in OVERLAP
    want = float(none.double().sum() / m.expand_as(none).double().sum()) if masked_mean else float(none.double().mean())
    if abs(float(mean) - want) > tol:
        return (f"C16:{name}:reduction:mean", f"'mean' {float(mean)} != " +
                ("sum('none')/sum(mask)" if masked_mean else "mean of 'none'") + f" = {want}")
    return None


def check_norm(c):
    name = c["loss"]
    (x, y), r = _data(c)
    m = _mask(r, c["shape"], c["mask"], c["mdtype"]) if c["mask"] else None
    k = c["norm"]
    for red in REDS:
        base = _call(name, x, y, mask=m, red=red)
        got = _call(name, x, y, mask=m, red=red, norm=k)
        want = base / k if k > 0 else base
        if _maxabs(got - want) > 1e-9 * max(1.0, _maxabs(want)):
            return (f"C16:{name}:norm", f"{name}(norm={k}, reduction={red}) != loss/norm")
    return None


# ---- overlap facts
def check_overlap(c):
    (x, y), r = _data(c, kind="binary")
    w = _mask(r, c["shape"], c["mask"], c["mdtype"]) if c["mask"] else None
    d_same = L.dice_score(x, x.clone(), weight=w, reduction="none")
    if _maxabs(d_same - 1) > 1e-6:
        return ("C16:dice:identical", f"dice_score(x,x) = {d_same.flatten().tolist()}")
    t_same = L.tversky_index(x, x.clone(), weight=w, reduction="none")
    if _maxabs(t_same - 1) > 1e-6:
        return ("C16:tversky:identical", f"tversky_index(x,x) = {t_same.flatten().tolist()}")
    d, d2 = L.dice_score(x, y, weight=w, reduction="none"), L.dice_score(y, x, weight=w, reduction="none")
    if _maxabs(d - d2) > 1e-6:
        return ("C16:dice:symmetric", "dice_score(x,y) != dice_score(y,x)")
    t = L.tversky_index(x, y, weight=w, alpha=0.5, beta=0.5, reduction="none")
    if _maxabs(t - d) > 1e-5:
        return ("C16:tversky:half-is-dice", f"tversky_index(alpha=beta=0.5) = {t.flatten().tolist()} but "
                f"dice_score = {d.flatten().tolist()}")
    dl = L.dice_loss(x, y, weight=w, reduction="none")
    if _maxabs(dl - (1 - d)) > 1e-6:
        return ("C16:dice_loss:one-minus-score", "dice_loss != 1 - dice_score")
    try:
        tl = L.tversky_loss(x, y, weight=w, alpha=0.5, beta=0.5, reduction="none")
    except Exception as e:
        return _known_exc("tversky_loss", e) or ("C16:tversky_loss:exception", f"{type(e).__name__}: {e}")
    if _maxabs(tl - (1 - t)) > 1e-6:
        return ("C16:tversky_loss:one-minus-index", "tversky_loss != 1 - tversky_index")
    if _maxabs(tl - dl) > 1e-5:
        return ("C16:tversky_loss:half-is-dice-loss", "tversky_loss(alpha=beta=0.5) != dice_loss on binary inputs")
    for g in (2.0, 3.0):
        tg = L.tversky_loss(x, y, weight=w, alpha=0.3, beta=0.7, gamma=g, reduction="none")
        t1 = L.tversky_loss(x, y, weight=w, alpha=0.3, beta=0.7, reduction="none")
        if _maxabs(tg - t1 ** g) > 1e-5:
            return ("C16:tversky_loss:focal", f"tversky_loss(gamma={g}) != (1 - TI)^gamma")
    same = L.tversky_loss(x, x.clone(), weight=w, alpha=0.3, beta=0.7, gamma=2.0, reduction="none")
    if _maxabs(same) > 1e-6:
        return ("C16:tversky_loss:identical", f"tversky_loss(x, x) = {same.flatten().tolist()}")
    # the documented target / prediction encodings of one binary segmentation: foreground channel (N,1,..), one-hot
    # (N,2,..) and label map (N,..). A segmentation compared with itself gives 1 in every mixed encoding, and the index of
    # two segmentations does not depend on the encoding either is given in.
    if x.shape[1] == 1 and w is None:
        x2, y2 = torch.cat([1 - x, x], 1), torch.cat([1 - y, y], 1)
        enc = {"pred1-target2": (x, y2), "pred2-target1": (x2, y), "pred2-target2": (x2, y2)[:2] and (x2, y2),
               "pred1-labels": (x, y.squeeze(1)), "pred2-labels": (x2, y.squeeze(1).long())}
        ident = {"pred1-target2": (x, x2), "pred2-target1": (x2, x), "pred1-labels": (x, x.squeeze(1)),
                 "pred2-labels": (x2, x.squeeze(1).long())}
        for k, (a, b) in ident.items():
            try:
                ti = L.tversky_index(a, b.clone(), alpha=0.3, beta=0.7, reduction="none")
            except ValueError as e:
                # F-16f (repaired by 03f6276): multi-class prediction + label map raised in as_one_hot_tensor
                return (f"C16:tversky:identical:{k}", f"tversky_index(prediction {list(a.shape)}, target "
                        f"{list(b.shape)} [{k}]) raises ValueError: {e}")
            ti = ti[:, -1:]                                     # foreground class
            if _maxabs(ti - 1) > 1e-6:
                return (f"C16:tversky:identical:{k}", f"tversky_index of a segmentation with itself ({k}) = {ti.flatten().tolist()}")
        ref = L.tversky_index(x, y, alpha=0.3, beta=0.7, reduction="none")
        for k, (a, b) in enc.items():
            ti = L.tversky_index(a, b, alpha=0.3, beta=0.7, reduction="none")[:, -1:]
            if _maxabs(ti - ref) > 1e-5:
                return (f"C16:tversky:encoding:{k}", f"tversky_index differs between encodings: {k} gives "
                        f"{ti.flatten().tolist()}, foreground channels give {ref.flatten().tolist()}")
    return None


# ---- module classes agree with their functional forms and keep the documented range
def check_modules(c):
    (x, y), r = _data(c, kind="uniform")
    x, y = x[:, :1], y[:, :1]
    m = _mask(r, list(x.shape), c["mask"], c["mdtype"]) if c["mask"] in ("n1", "11") else None
    pairs = [
        ("L2ImageLoss", lambda: LI.L2ImageLoss()(x, y, m), lambda: L.mse_loss(x, y, m)),
        ("SSD", lambda: LI.SSD()(x, y, m), lambda: L.ssd_loss(x, y, m)),
        ("L1ImageLoss", lambda: LI.L1ImageLoss()(x, y, m), lambda: L.mae_loss(x, y, m)),
        ("HuberImageLoss", lambda: LI.HuberImageLoss(delta=0.5)(x, y, m), lambda: L.huber_loss(x, y, m, delta=0.5)),
        ("LCC", lambda: LI.LCC(kernel_size=3)(x, y, m), lambda: L.lcc_loss(x, y, m, kernel_size=3)),
        ("WLCC", lambda: LI.WLCC(kernel_size=3)(x, y, m), lambda: L.wlcc_loss(x, y, m, kernel_size=3)),
        ("Dice", lambda: LI.Dice()(x, y, m), lambda: L.dice_loss(x, y, m)),
        ("MI", lambda: LI.MI(num_bins=6)(x, y, m), lambda: L.mi_loss(x, y, m, num_bins=6)),
        ("NCC", lambda: LI.NCC()(x, y), lambda: L.ncc_loss(x, y)),
    ]
    for name, a, b in pairs:
        va, vb = a(), b()
        if _maxabs(va - vb) > 1e-6:
            return (f"C16:{name}:module-vs-functional", f"{name}() = {float(va)} but functional form = {float(vb)}")
    # the documented forms of `norm` of the normalised pairwise classes: None / True = max_difference(source, target)^2
    # (recomputed here from the extrema), False = 1, a number = that number; with both, one or no reference image
    fn_of = {"L2ImageLoss": L.mse_loss, "SSD": L.ssd_loss, "L1ImageLoss": L.mae_loss, "HuberImageLoss": L.huber_loss,
             "SmoothL1ImageLoss": L.smooth_l1_loss}
    for cname, fn in fn_of.items():
        cls = getattr(LI, cname, None)
        if cls is None:
            continue
        for which, (a, b) in (("both", (x, y)), ("source", (x, None)), ("target", (None, y)), ("neither", (None, None))):
            lo = [t for t in (a, b) if t is not None]
            if lo:
                p, q = (a if a is not None else b), (b if b is not None else a)
                md = max(abs(float(p.max()) - float(q.min())), abs(float(q.max()) - float(p.min()))) ** 2
            else:
                md = 1.0
            for flag, want in ((None, md), (True, md), (False, 1.0), (3.5, 3.5), (1.0, 1.0), (1, 1.0),
                               (torch.tensor(1.0), 1.0)):
                mod = cls(a, b, norm=flag)
                got, base = mod(x, y, m), fn(x, y, m)
                if _maxabs(got * want - base) > 1e-6 * max(1.0, abs(float(base))):
                    return (f"C16:{cname}:norm-flag:{flag}:{which}",
                            f"{cname}(source/target={which}, norm={flag})(x, y) = {float(got):.6g}, documented: "
                            f"{float(base):.6g} / {want:.6g} = {float(base) / want:.6g}")
    v = float(LI.NMI(num_bins=6)(x, y, m))
    f = float(L.nmi_loss(x, y, m, num_bins=6))
    if v < -1e-5 or v > 2 + 1e-5 or abs(v - f) > 1e-6:
        return ("C16:NMI:not-normalized", f"NMI()(x, y) = {v} (documented range [0, 2]; nmi_loss gives {f}): the class "
                "never passes normalized=True and returns plain (negative) MI")
    return None


def _oshape(rng, name, D=None):
    """oracle image shape: 3-D sizes >= 3 (torch's avg_pool3d rejects images smaller than the kernel, a torch
    limitation outside the property); MI needs C = 1 and enough samples for the estimate to be meaningful."""
    D = D or rng.choice([2, 3])
    shape = _shape(rng, D, lo=3 if D == 3 else 2)
    if name in ("mi_loss", "nmi_loss"):
        shape[1] = 1
        shape[2:] = [rng.randint(6, 8) for _ in range(2)] if D == 2 else [rng.randint(3, 4) for _ in range(3)]
    return shape


def _gen_simple(names, quick, thorough, search=None, masks=(None,), **extra):
    def gen(rng, tier):
        for _ in range(_n(tier, quick, thorough, search)):
            for name in names:
                shape = _oshape(rng, name)
                c = {"loss": name, "shape": shape, "seed": _seed(rng), "mask": rng.choice(list(masks)),
                     "mdtype": rng.choice(["bool", "float"])}
                for k, v in extra.items():
                    c[k] = rng.choice(v)
                yield c
    return gen


SYM = PW_FN + ["ncc_loss", "lcc_loss", "wlcc_loss", "dice_score", "dice_loss", "tversky_index", "tversky_loss",
              "mi_loss", "nmi_loss"]
IDENT = SYM

# ---- a loss is a function of its arguments: evaluating it twice with the same tensors gives the same value, and the
#      mask tensors handed in are not written to (wlcc_loss takes separate source / target masks)
def gen_repeat(rng, tier):
    for _ in range(_n(tier, 30, 400, 80)):
        yield {"loss": rng.choice(["wlcc_loss", "wlcc_loss", "lcc_loss", "ncc_loss", "mse_loss", "mi_loss", "dice_loss"]),
               "shape": [max(3, n) if k >= 2 else n for k, n in enumerate(_shape(rng, hi=6))], "seed": _seed(rng),
               "mdtype": rng.choice(["float", "float", "bool"]), "red": rng.choice(REDS), "sep": rng.random() < 0.7}


def check_repeat(c):
    (x, y), r = _data(c, kind="binary" if c["loss"] == "dice_loss" else "uniform")
    name = c["loss"]
    sm = _mask(r, c["shape"], "n1", c["mdtype"])
    tm = _mask(r, c["shape"], "n1", c["mdtype"])
    if c["mdtype"] == "float":
        sm, tm = sm.float() * 0.75 + 0.25 * (sm > 0), tm.float()
    if name == "mi_loss":
        x, y = x[:, :1], y[:, :1]
        sm, tm = sm[:, :1], tm[:, :1]

    def f():
        if name == "wlcc_loss" and c["sep"]:
            return L.wlcc_loss(x, y, source_mask=sm, target_mask=tm, kernel_size=3, reduction=c["red"])
        if name in ("wlcc_loss", "lcc_loss"):
            return getattr(L, name)(x, y, mask=sm, kernel_size=3, reduction=c["red"])
        if name == "mi_loss":
            return L.mi_loss(x, y, mask=sm, num_bins=6, vmin=0.0, vmax=1.0)
        return _call(name, x, y, mask=sm, red=c["red"])
    keep = [t.clone() for t in (x, y, sm, tm)]
    a = f()
    b = f()
    for nm, t, k in zip(("input", "target", "mask / source_mask", "target_mask"), (x, y, sm, tm), keep):
        if not torch.equal(t, k):
            return (f"C16:{name}:writes-argument", f"{name} changed its argument '{nm}' (max abs change "
                    f"{float((t.double() - k.double()).abs().max()):.3g})")
    if a.shape != b.shape or _maxabs(a - b) > 0:
        return (f"C16:{name}:repeat", f"{name} evaluated twice with the same tensors gives different values (diff {_maxabs(a - b):.3g})")
    return None


ORACLES = [
    Oracle("repeat", gen_repeat, check_repeat, nontrivial=lambda c: True,
           doc="evaluating a loss twice with the same tensors gives the same value; images and mask tensors are not written to"),
    Oracle("identical", _gen_simple(IDENT, 3, 60, 15), check_identical, nontrivial=_nontrivial,
           doc="loss(x, x) is 0 / the documented minimum (dice_score, tversky_index: 1; MI: not above MI(x, y))"),
    Oracle("range", _gen_simple(IDENT, 3, 60, 15), check_range, nontrivial=_nontrivial,
           doc="documented range: pointwise >= 0; ncc/lcc/wlcc/dice/tversky in [0,1]; nmi in [0,2]"),
    Oracle("symmetric", _gen_simple(SYM, 3, 60, 15), check_symmetric, nontrivial=_nontrivial,
           doc="loss(x, y) == loss(y, x) (tversky with alpha == beta)"),
    Oracle("affine", _gen_simple(["ncc_loss", "lcc_loss"], 12, 300, 60, side=("source", "target", "both")),
           check_affine, nontrivial=_nontrivial, doc="ncc/lcc invariant under a*x+b, a != 0 (default eps)"),
    Oracle("mask", gen_mask, check_mask, nontrivial=lambda c: True,
           doc="every documented mask shape accepted; samples with mask 0 ignored; masked mean over sum(mask); "
               "lcc weights local scores; MI restricted to the masked samples"),
    Oracle("reductions", _gen_simple(ALL_RED, 3, 60, 15, masks=[None] + MASK_KINDS), check_reductions,
           nontrivial=_nontrivial, doc="'mean' and 'sum' are the mean (over sum(mask) with a mask) and sum of 'none'"),
    Oracle("norm", _gen_simple(PW_FN, 3, 60, 15, masks=[None] + MASK_KINDS, norm=(2.0, 0.37, 12.5)), check_norm,
           nontrivial=_nontrivial, doc="loss(norm=c) == loss / c for every reduction"),
    Oracle("overlap", _gen_simple(["overlap"], 12, 300, 60, masks=[None, "full", "n1"]), check_overlap,
           nontrivial=_nontrivial, doc="dice/tversky: identical binary = 1, symmetric, tversky(1/2,1/2) = dice (index and loss), losses = 1 - score, "
                                   "focal tversky_loss(gamma) = (1 - TI)^gamma"),
    Oracle("modules", _gen_simple(["modules"], 6, 100, 30, masks=[None, "n1", "11"]), check_modules,
           nontrivial=_nontrivial, doc="losses.image classes == functional forms; every documented form of `norm` (None / True / False / number) x (both / one / no reference image) of the normalised pairwise classes; NMI within its documented range"),
]


def search_cases(disagreements: List[dict]):
    """oracle cases on the shapes/losses of disagreeing correspondence cases."""
    fn_of = {"L2ImageLoss": "mse_loss", "SSD": "ssd_loss", "L1ImageLoss": "mae_loss", "HuberImageLoss": "huber_loss",
             "SmoothL1ImageLoss": "smooth_l1_loss", "ncc": "ncc_loss", "lcc": "lcc_loss", "wlcc": "wlcc_loss",
             "Dice": "dice_loss", "MI": "mi_loss", "NMI": "nmi_loss"}
    extra = {o.name: [] for o in ORACLES}
    for dsg in disagreements[:40]:
        c = dsg["case"]
        if "shape" not in c or "loss" not in c or len(c["shape"]) < 4:
            continue
        name = fn_of.get(c["loss"], c["loss"])
        shape = list(c["shape"])
        if len(shape) == 5:     # avg_pool3d needs sizes >= kernel (3) — a torch limitation, not the property
            shape[2:] = [max(3, n) for n in shape[2:]]
        if name in ("mi_loss", "nmi_loss"):
            shape[1] = 1
        base = {"loss": name, "shape": shape, "seed": c.get("seed", 1), "mask": None, "mdtype": "bool"}
        if name in IDENT:
            extra["identical"].append(base)
            extra["range"].append(base)
        if name in SYM:
            extra["symmetric"].append(base)
        if name in ("ncc_loss", "lcc_loss"):
            extra["affine"] += [{**base, "side": s} for s in ("source", "target")]
        if name in ALL_RED:
            for mk in [None] + MASK_KINDS:
                extra["reductions"].append({**base, "mask": mk})
        if name in MASKED:
            for mk in _documented_masks(name, shape):
                extra["mask"] += [{**base, "mask": mk, "mdtype": d} for d in ("bool", "float")]
        if name in PW_FN:
            extra["norm"].append({**base, "norm": 2.0, "mask": "full"})
        if name in OVERLAP:
            extra["overlap"].append({**base, "loss": "overlap"})
        extra["modules"].append({**base, "loss": "modules"})
    return extra
