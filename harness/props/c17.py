"""C17 — deformation regularisers have the right null space, sign, scaling and units."""
from __future__ import annotations

import itertools
import math
import random
from fractions import Fraction
from typing import Dict, List, Optional

import torch

from deepali.core import Grid
from deepali.core.bspline import cubic_bspline_interpolation_weights  # noqa: F401  (weights_line uses it)
from deepali.core.enum import FlowDerivativeKeys as FK
from deepali.core.enum import SpatialDerivativeKeys as SK
from deepali.core.image import spatial_derivatives
from deepali.losses import bspline as LB
from deepali.losses import flow as LF
from deepali.losses import functional as L

from lib import proto
from lib.core import Oracle, Stream, close
from props.c12 import (DYADIC, FD_MODES, _beta3, _exact_f32, _n, cmp_err, data_line, f32, gen_spacing, hx, index_coords,
                       make_data, sizes_x_first, spacing_arg, spacing_line, spacing_matrix, spacing_matrix_true, unhx,
                       weights_line)

PROP = "C17"
# tiny tensors: intra-op threading only adds contention (5 s vs 75 s for the oracle budget on a loaded machine)
import os as _os
if "VERIF_THREADS" not in _os.environ:
    torch.set_num_threads(1)
# float64 paths.  A regulariser value is a sum of <= 27 squares of derivative values d = (difference of <= 9 data
# values) / h^order, i.e. < 500 flops: the rounding error is < 500 x 1.1e-16 x (|data| / h^order)^power.  1e-9 relative to
# max(1, (|data|/h^order)^power, |model value|) leaves four orders of margin and is far below any modelled defect
# (a missing factor 2, a wrong key, a wrong factor in a unit conversion change values by >= 1e-2 relative).
RTOL64 = 1e-9
# spacing=None: the code rounds 2/(n-1) to float32 inside spatial_derivatives (6e-8 relative per factor, at most h^-4);
# mode='bspline': the code forms prod spacing^order in float32.  The model uses the exact quotient.
RTOL_SP32 = 2e-6
KINDS = ["bending", "curvature", "diffusion", "tv", "grad", "divergence", "elasticity"]
ALL_MODES = [None] + FD_MODES + ["bspline"]
REDS = ["mean", "sum", "none"]

ASSUMPTIONS = [
    "floats are the exact rationals they denote; IEEE rounding is covered by the correspondence tolerance "
    f"(rtol {RTOL64} float64; {RTOL_SP32} where the code itself rounds the spacing to float32), never by a theorem",
    "sqrt (inverse consistency norm, lame_parameters) and powers with non-integer exponents (grad_loss p, q) are computed by the "
    "harness in float64 and passed to the model as tables (argument, value); the model looks its exact argument up with a "
    "relative check of 1e-9 and fails visibly otherwise; theorems carry `r*r = x and r >= 0` / monotonicity hypotheses",
    "lame_parameters: the comparisons `< 0` and `< 1e-9` are decided on exact values; the one input family whose float result "
    "lies within rounding of a threshold ((lambda, E = 0): mu = (sqrt(9 lambda^2) - 3 lambda)/4) is not generated",
    "mode='gaussian' and sigma > 0 (Gaussian pre-smoothing) are not modelled (they need exp); they are exercised by the "
    "property oracles only (null space / scaling / sign)",
    "mode='bspline': the cubic B-spline weights are taken from cubic_bspline_interpolation_weights as given (proved in C14)",
    "'interior' for the padded schemes = margin-2 points for second derivatives, margin-1 for first derivatives (DESIGN 5.0 I-3); "
    "the reduced loss of an affine field being non-zero for a padded scheme is reported as a finding, not carved out",
    "inverse_consistency_loss is modelled for batch size 1, flow fields sampled on the grid passed as `grid` (grid_reshape is then "
    "the identity), and float margins for which int(margin*n) agrees in float and exact arithmetic",
    "module classes (losses.flow.*, losses.bspline.BSplineBending) only forward their attributes (checked by the `loss` stream "
    "with via=module and by the `modules` oracle)",
]
TRUSTED = ["model file Deepali/Model/Regularizers.lean is a hand transcription of losses/functional.py (grad_loss, bending_loss, "
           "curvature_loss, diffusion_loss, divergence_loss, lame_parameters, elasticity_loss, total_variation_loss, "
           "inverse_consistency_loss), core/flow.py (denormalize_flow, warp_grid, warp_points), core/pointset.py "
           "(transform_grid, transform_points) on top of Model/{FD,FlowCalc,FlowOps,Losses}.lean; tied to /repo by the streams below"]
RULE = ("cases drawn from one PRNG: 7 regularisers x 8 modes (default, 6 finite-difference schemes, bspline) x D in {2,3} x "
        "shapes 5..8 (2-D) / 5..6 (3-D) x N in {1,2} x spacing forms (none/scalar/vector/per-item matrix; dyadic or float32-rounded) x "
        "strides 1..3 (bspline) x reductions x functional / module class x affine, quadratic, random dyadic fields, plus linear "
        "(3-dimensional) and mis-shaped inputs; lame_parameters: all 96 presence patterns of (material, 5 optional constants) enumerated; "
        "inverse consistency: 4 operand-kind pairs x either align_corners x 3 units x 3 reductions x margins x masks; "
        "non-trivial = field not constant, or a non-default parameter; distinct after JSON canonicalisation")


# ------------------------------------------------------------------ helpers
def table_line(pairs, tol: float = 1e-9) -> str:
    """`tol n k1 v1 …` sorted by key, duplicates removed (keys are float64 values). `tol`: how far (relative to 1+|x|)
    the model's exact argument may lie from the float64 argument the harness computed."""
    d = {}
    for k, v in pairs:
        d[float(k)] = float(v)
    ks = sorted(d)
    head = f"{proto.fr(Fraction(tol).limit_denominator(10**12))} {len(ks)}"
    return head + (" " + " ".join(f"{proto.fr(k)} {proto.fr(d[k])}" for k in ks) if ks else "")


def opt_line(v) -> str:
    return "-" if v is None else "+ " + proto.fr(v)


def strides_of(c) -> List[int]:
    st = c.get("stride")
    if st is None:
        st = 1
    return [st] * c["D"] if isinstance(st, int) else list(st)


def stride_arg(c):
    st = c.get("stride")
    return tuple(st) if isinstance(st, list) else st


def eff_mode(c) -> str:
    m = c.get("mode")
    if m is None:
        return "sobel" if c["kind"] in ("bending", "curvature") else "forward_central_backward"
    return m


def deriv_order(kind: str) -> int:
    return 2 if kind in ("bending", "curvature") else 1


def loss_power(c) -> float:
    k = c["kind"]
    if k == "tv":
        return 1.0
    if k == "grad":
        p = c["p"] if c["p"] else 1.0
        q = c["q"] if c["q"] is not None else (1.0 / c["p"])
        q = 1.0 if q == 0 else q
        return float(p) * float(q)
    return 2.0


LAME_NAMES = ["first_parameter", "second_parameter", "shear_modulus", "poissons_ratio", "youngs_modulus"]


def lame_kwargs(lm: dict) -> dict:
    kw = {k: lm.get(k) for k in LAME_NAMES}
    kw["material_name"] = lm.get("material_name")
    return kw


def lame_line(lm: dict) -> str:
    mat = lm.get("material_name")
    mt = "none" if not mat else ("rubber" if mat == "rubber" else "other")
    toks = [mt] + [opt_line(lm.get(k)) for k in LAME_NAMES]
    lam, E = lm.get("first_parameter"), lm.get("youngs_modulus")
    pairs = []
    if lam is not None and E is not None:
        arg = float(E) ** 2 + 9 * float(lam) ** 2 + 2 * float(E) * float(lam)
        if arg >= 0:
            pairs.append((arg, math.sqrt(arg)))
    return " ".join(toks) + " " + table_line(pairs)


def call_lame(lm: dict):
    try:
        return L.lame_parameters(**lame_kwargs(lm))
    except ZeroDivisionError as e:
        return f"err:zerodiv:{e}"


# ------------------------------------------------------------------ stream: derivative keys (exhaustive)
def gen_keys(rng, tier):
    for D in (2, 3):
        yield {"D": D}


def impl_keys(c):
    D = c["D"]
    which = sorted(FK.unique(FK.all(spatial_dims=D, order=2)))
    return {"bending": list(which), "curvature": list(FK.curvature(spatial_dims=D)), "grad": list(SK.all(spatial_dims=D, order=1))}


def line_keys(c):
    return f"reg.keys {c['D']}"


def cmp_keys(c, r, out):
    if isinstance(r, str):
        return cmp_err(r, out)
    parts = out.split("|")
    if len(parts) != 3:
        return f"model output {out[:80]}"
    m = [[unhx(t) for t in p.split(",")] if p != "-" else [] for p in parts]
    want = [r["bending"], r["curvature"], r["grad"]]
    return None if m == want else f"impl {want} vs model {m}"


# ------------------------------------------------------------------ stream: regularisers
def gen_shape_for(rng, D, mode):
    if D == 2:
        return [rng.randint(5, 8) for _ in range(2)]
    return [rng.randint(5, 6) for _ in range(3)]


def gen_lame_valid(rng) -> dict:
    """a material parameter pair accepted by the code."""
    lam = rng.choice([0.0, 0.25, 0.5, 1.5, 2.0, 0.3])
    mu = rng.choice([0.0, 0.125, 0.5, 0.75, 1.0, 0.7])
    if lam + mu == 0:
        mu = 0.5
    nu = lam / (2 * (lam + mu))
    E = mu * (3 * lam + 2 * mu) / (lam + mu)
    pair = rng.choice(["lm", "lm", "lG", "lnu", "Gnu", "GE", "mE", "lE", "nuE", "rubber", "G"])
    if pair == "lm":
        return {"first_parameter": lam, "second_parameter": mu}
    if pair == "lG":
        return {"first_parameter": lam, "shear_modulus": mu}
    if pair == "lnu" and nu != 0:
        return {"first_parameter": lam, "poissons_ratio": nu}
    if pair == "Gnu":
        return {"shear_modulus": mu, "poissons_ratio": nu}
    if pair == "GE" and mu != 0:
        return {"shear_modulus": mu, "youngs_modulus": E}
    if pair == "mE" and mu != 0:
        return {"second_parameter": mu, "youngs_modulus": E}
    if pair == "lE":
        return {"first_parameter": lam, "youngs_modulus": E}
    if pair == "nuE":
        return {"poissons_ratio": nu, "youngs_modulus": E}
    if pair == "rubber":
        return {"material_name": "rubber"}
    if pair == "G":
        return {"shear_modulus": mu}          # one parameter only: rejected
    return {"first_parameter": lam, "second_parameter": mu}


def gen_pq(rng):
    p = rng.choice([0, 1, 2, 2, 3, 4, 2.0, 1.5, 2.5])
    q = rng.choice([1, 1, 0, 2, None, 0.5, 1.5, 1.0])
    if p == 0 and (q is None or isinstance(q, float) and q != int(q)):
        q = 1           # 1/0, or a fractional power of a possibly negative sum
    return p, q


def _loss_case(rng, kind, mode, D, tier):
    N = rng.choice([1, 1, 2])
    shape = gen_shape_for(rng, D, mode)
    c = {"kind": kind, "mode": mode, "D": D, "shape": shape, "N": N, "red": rng.choice(REDS), "input": "field",
         "spacing": gen_spacing(rng, N, D), "via": rng.choice(["functional", "functional", "module"]),
         "data": {"kind": rng.choice(["affine", "quadratic", "random", "random"]), "seed": rng.randrange(1 << 30), "dtype": "float64"}}
    if mode == "bspline":
        st = rng.choice([None, 1, 2, 3, "tuple"])
        c["stride"] = [rng.randint(1, 3) for _ in range(D)] if st == "tuple" else st
        if D == 3 and c["stride"] is not None:
            c["stride"] = 2 if isinstance(c["stride"], int) and c["stride"] > 2 else c["stride"]
    if kind == "grad":
        c["p"], c["q"] = gen_pq(rng)
    if kind == "elasticity":
        c["lame"] = gen_lame_valid(rng)
    return c


def gen_loss(rng, tier):
    for kind in KINDS:
        for mode in ALL_MODES:
            for D in (2, 3):
                k = _n(tier, 2 if D == 2 else 1, 24 if D == 2 else 8)
                for _ in range(k):
                    yield _loss_case(rng, kind, mode, D, tier)
    # linear transforms and mis-shaped tensors
    for kind in KINDS:
        for red in REDS:
            for inp in ("lin", "bad"):
                D = rng.choice([2, 3])
                c = {"kind": kind, "mode": rng.choice(ALL_MODES), "D": D, "shape": [5] * D, "N": rng.choice([1, 2]), "red": red,
                     "input": inp, "spacing": {"form": "none", "value": None, "tensor": False}, "via": rng.choice(["functional", "module"]),
                     "data": {"kind": "random", "seed": rng.randrange(1 << 30), "dtype": "float64"},
                     "linshape": rng.choice(["D1", "DD", "DD1"])}
                if kind == "grad":
                    c["p"], c["q"] = 2, 1
                if kind == "elasticity":
                    c["lame"] = gen_lame_valid(rng)
                yield c


def make_input(c) -> torch.Tensor:
    D, N = c["D"], c["N"]
    if c["input"] == "lin":
        g = torch.Generator().manual_seed(c["data"]["seed"])
        cols = {"D1": 1, "DD": D, "DD1": D + 1}[c.get("linshape", "DD1")]
        return torch.randint(-8, 9, (N, D, cols), generator=g).double() / 4
    if c["input"] == "bad":
        return make_data(c["data"], c["shape"], N, D + 1)
    return make_data(c["data"], c["shape"], N, D)


def _grad_q(c):
    return c["q"]


def call_loss(c, u: torch.Tensor, red: Optional[str] = None, via: Optional[str] = None, **override):
    kind = c["kind"]
    kw = dict(mode=c.get("mode"), spacing=spacing_arg(c["spacing"]), stride=stride_arg(c), reduction=red or c["red"])
    kw.update(override)
    via = via or c.get("via", "functional")
    if kind == "elasticity":
        kw.update(lame_kwargs(c["lame"]))
    if kind == "grad":
        kw.update(p=c["p"], q=_grad_q(c))
    try:
        if via == "module":
            cls = {"bending": LF.Bending, "curvature": LF.Curvature, "diffusion": LF.Diffusion, "tv": LF.TotalVariation,
                   "grad": LF.GradLoss, "divergence": LF.Divergence, "elasticity": LF.Elasticity}[kind]
            return cls(**kw)(u)
        fn = {"bending": L.bending_loss, "curvature": L.curvature_loss, "diffusion": L.diffusion_loss,
              "tv": L.total_variation_loss, "grad": L.grad_loss, "divergence": L.divergence_loss,
              "elasticity": L.elasticity_loss}[kind]
        return fn(u, **kw)
    except ZeroDivisionError as e:
        return f"err:zerodiv:{e}"


def hmin_of(c) -> float:
    if c["input"] != "field":
        return 1.0
    m = spacing_matrix(c["spacing"], c["N"], c["D"], c["shape"], flow=True)
    return min(min(r) for r in m)


def scale_of(c, u: torch.Tensor) -> float:
    o = deriv_order(c["kind"])
    base = max(1.0, float(u.abs().max())) / min(1.0, hmin_of(c)) ** o
    s = base ** max(1.0, loss_power(c))
    if c["kind"] == "elasticity":
        s *= 4.0
    if c["red"] == "sum" and c["input"] == "field":
        s *= u[:, 0].numel() * 27
    return s


def impl_loss(c):
    u = make_input(c)
    r = call_loss(c, u)
    if isinstance(r, str):
        return r
    return {"values": proto.flat(r), "scale": scale_of(c, u)}


def _first_derivs(c, u):
    """first derivatives as grad_loss requests them (for the tables of non-integer powers)."""
    D = c["D"]
    sp = spacing_arg(c["spacing"])
    if sp is None:
        sp = tuple(reversed([2 / (n - 1) for n in u.shape[2:]]))
    return spatial_derivatives(u, which=SK.all(spatial_dims=D, order=1), mode=c.get("mode"), spacing=sp, stride=stride_arg(c))


def pq_tokens(c, u) -> str:
    p, q = c["p"], c["q"]
    if q is None:
        q = 1.0 / p
    p_int = float(p) == int(p)
    q_int = float(q) == int(q)
    if p_int and q_int:
        return f"nat {int(p)} nat {int(q)}"
    deriv = _first_derivs(c, u)
    vals = [v.abs() for v in deriv.values()]
    # arguments are formed from derivatives computed with the float32-rounded spacing (see RTOL_SP32)
    tol = 1e-9 if rtol_of(c) == RTOL64 else 1e-5
    ptok = f"nat {int(p)}"
    if not p_int:
        allv = torch.cat([v.flatten() for v in vals])
        ptok = "fn " + table_line(zip(allv.tolist(), allv.pow(p).tolist()), tol)
    qtok = f"nat {int(q)}"
    if not q_int:
        s = None
        for v in deriv.values():
            if p == 1:
                w = v.abs()
            elif p != 0:
                w = v.pow(p) if p % 2 == 0 else v.abs().pow(p)
            else:
                w = v
            w = w.sum(dim=1)
            s = w if s is None else s + w
        s = s.flatten()
        qtok = "fn " + table_line(zip(s.tolist(), s.pow(q).tolist()), tol)
    return ptok + " " + qtok


def line_loss(c):
    kind = c["kind"]
    u = make_input(c)
    if kind == "grad":
        if c["input"] == "field":
            head = "grad " + pq_tokens(c, u)
        else:
            head = "grad nat 2 nat 1"
    elif kind == "elasticity":
        head = "elasticity " + lame_line(c["lame"])
    else:
        head = kind
    mode = c.get("mode") or "default"
    head += f" {mode} {c['red']}"
    if c["input"] == "lin":
        return f"reg.loss {head} lin"
    if c["input"] == "bad":
        return f"reg.loss {head} bad"
    D, N = c["D"], c["N"]
    st = strides_of(c)
    body = f"field {D} {sizes_x_first(c['shape'])} {N} {spacing_line(c['spacing'])} {' '.join(map(str, st))} "
    if eff_mode(c) == "bspline":
        body += weights_line(st) + " "
    return f"reg.loss {head} {body}" + data_line(u)


def rtol_of(c) -> float:
    if c["input"] != "field":
        return RTOL64
    if c["spacing"]["value"] is None or eff_mode(c) == "bspline" or not _exact_f32(c["spacing"]):
        return RTOL_SP32
    return RTOL64


def cmp_loss(c, r, out):
    if isinstance(r, str):
        return cmp_err(r, out)
    if proto.is_error(out):
        return f"model error {out}, impl returned {r['values'][:3]}"
    return close(r["values"], proto.parse_vec(out), rtol_of(c), r["scale"])


def nontrivial_loss(c):
    return c["input"] == "field" and c["data"]["kind"] != "constant"


# ------------------------------------------------------------------ stream: bspline bending aliases / BSplineBending module
def gen_bsb(rng, tier):
    for D in (2, 3):
        for _ in range(_n(tier, 4 if D == 2 else 2, 60 if D == 2 else 20)):
            st = rng.choice([1, 2, 3, "tuple"]) if D == 2 else rng.choice([1, 2, "tuple"])
            stride = [rng.randint(1, 3 if D == 2 else 2) for _ in range(D)] if st == "tuple" else st
            yield {"kind": "bending", "mode": "bspline", "D": D, "shape": gen_shape_for(rng, D, "bspline"), "N": rng.choice([1, 2]),
                   "red": rng.choice(REDS), "input": "field", "spacing": {"form": "none", "value": None, "tensor": False},
                   "stride": stride, "via": rng.choice(["bspline_bending_loss", "BSplineBending", "bspline_be_loss"]),
                   "data": {"kind": rng.choice(["affine", "quadratic", "random"]), "seed": rng.randrange(1 << 30), "dtype": "float64"}}


def impl_bsb(c):
    u = make_input(c)
    st = stride_arg(c)
    if c["via"] == "BSplineBending":
        r = LB.BSplineBending(stride=st, reduction=c["red"])(u)
    elif c["via"] == "bspline_be_loss":
        r = L.bspline_be_loss(u, stride=st, reduction=c["red"])
    else:
        r = L.bspline_bending_loss(u, stride=st, reduction=c["red"])
    return {"values": proto.flat(r), "scale": scale_of(c, u)}


# ------------------------------------------------------------------ stream: lame_parameters (presence patterns exhaustive)
LAME_VALUES = {"first_parameter": [0.0, 0.5, 1.5, 2.0, 0.3, -0.5, 1e-10], "second_parameter": [0.0, 0.25, 0.75, 1.0, 0.7, -1.0],
               "shear_modulus": [0.0, 0.25, 0.75, 1.0, 0.7, -1.0, 5e-10], "poissons_ratio": [0.0, 0.25, 0.3, 0.4999, 0.5, -0.25, 0.75],
               "youngs_modulus": [0.0, 1.0, 2.0, 2.25, 0.9, 3.0]}


def gen_lame(rng, tier):
    for mat in (None, "rubber", "steel"):
        for bits in itertools.product([0, 1], repeat=5):
            for _ in range(_n(tier, 1, 6) if sum(bits) != 2 else _n(tier, 4, 60)):
                lm = {"material_name": mat}
                for name, b in zip(LAME_NAMES, bits):
                    if b:
                        lm[name] = rng.choice(LAME_VALUES[name]) if rng.random() < 0.7 else round(rng.uniform(0.01, 3.0), 3)
                if lm.get("first_parameter") is not None and lm.get("youngs_modulus") == 0.0 and sum(bits) == 2:
                    # (lambda, E = 0): mu = (-3 lambda + sqrt(9 lambda^2)) / 4 sits exactly on the `< 0` threshold, which
                    # float rounding of the square root decides either way (see ASSUMPTIONS)
                    lm["youngs_modulus"] = 1.0
                yield {"lame": lm}
    for _ in range(_n(tier, 30, 600)):      # consistent pairs derived from one (lambda, mu)
        yield {"lame": gen_lame_valid(rng)}


def impl_lame(c):
    r = call_lame(c["lame"])
    if isinstance(r, str):
        return r
    return {"values": [float(r[0]), float(r[1])], "scale": 1.0}


def line_lame(c):
    return "reg.lame " + lame_line(c["lame"])


def cmp_lame(c, r, out):
    if isinstance(r, str):
        return cmp_err(r, out)
    if proto.is_error(out):
        return f"model error {out}, impl returned {r['values']}"
    return close(r["values"], proto.parse_vec(out), RTOL64, r["scale"])


# ------------------------------------------------------------------ stream: inverse_consistency_loss
def gen_affine_map(rng, D, small=True):
    amp = 0.15 if small else 0.5
    A = [[(1.0 if i == j else 0.0) + round(rng.uniform(-amp, amp), 3) for j in range(D)] for i in range(D)]
    t = [round(rng.uniform(-amp, amp), 3) for _ in range(D)]
    return A, t


def inv_affine(A, t):
    M = torch.tensor(A, dtype=torch.float64)
    Mi = torch.linalg.inv(M)
    ti = -(Mi @ torch.tensor(t, dtype=torch.float64))
    return Mi.tolist(), ti.tolist()


def _transform_spec(rng, D, A, t, kind):
    if kind == "flow":
        return {"kind": "flow", "type": "affine", "A": A, "t": t}
    form = rng.choice(["hom", "hom", "aff", "trans"])
    return {"kind": "lin", "form": form, "A": A, "t": t}


def gen_ic(rng, tier):
    for fk, ik in itertools.product(["lin", "flow"], repeat=2):
        for ac in (True, False):
            for units in ("cube", "voxel", "world"):
                for red in REDS:
                    for _ in range(_n(tier, 1, 10)):
                        D = rng.choice([2, 2, 3])
                        shape = [rng.randint(5, 9) for _ in range(D)] if D == 2 else [rng.randint(5, 6) for _ in range(3)]
                        A, t = gen_affine_map(rng, D)
                        exact = rng.random() < 0.4
                        if exact:
                            Ai, ti = inv_affine(A, t)
                        else:
                            Ai, ti = gen_affine_map(rng, D)
                        fwd = _transform_spec(rng, D, A, t, fk)
                        inv = _transform_spec(rng, D, Ai, ti, ik)
                        for s in (fwd, inv):
                            if s["kind"] == "flow" and rng.random() < 0.4:
                                s["type"], s["seed"], s["amp"] = "random", rng.randrange(1 << 30), rng.choice([0.05, 0.2, 0.6])
                        margin = rng.choice([0, 0, 1, 2, 0.125, 0.25, 0.2, -1, 3, 1.5, 0.0, 7])
                        mask = rng.choice([None, None, "binary", "float", "zero", "bad"])
                        yield {"D": D, "shape": shape, "ac": ac, "spacing": [rng.choice([0.5, 1.0, 1.5, 0.7, 2.0]) for _ in range(D)],
                               "fwd": fwd, "inv": inv, "margin": margin, "mask": mask, "mask_seed": rng.randrange(1 << 30),
                               "units": units, "red": red}


def ic_grid(c) -> Grid:
    return Grid(shape=tuple(c["shape"]), spacing=tuple(c["spacing"]), align_corners=c["ac"])


def ic_tensor(c, spec, grid: Grid) -> torch.Tensor:
    D = c["D"]
    A = torch.tensor(spec["A"], dtype=torch.float64)
    t = torch.tensor(spec["t"], dtype=torch.float64)
    if spec["kind"] == "lin":
        if spec["form"] == "trans":
            return t.reshape(1, D, 1)
        if spec["form"] == "aff":
            return A.reshape(1, D, D)
        return torch.cat([A, t.reshape(D, 1)], dim=1).reshape(1, D, D + 1)
    if spec["type"] == "random":
        g = torch.Generator().manual_seed(spec["seed"])
        return (torch.rand((1, D) + tuple(c["shape"]), generator=g, dtype=torch.float64) - 0.5) * 2 * spec["amp"]
    x = grid.coords(dtype=torch.float64).unsqueeze(0)                      # (1, …, X, D)
    y = torch.einsum("ij,...j->...i", A, x) + t
    return (y - x).movedim(-1, 1).contiguous()


def ic_mask(c) -> Optional[torch.Tensor]:
    kind = c.get("mask")
    if kind is None:
        return None
    g = torch.Generator().manual_seed(c["mask_seed"])
    shape = (1, 1) + tuple(c["shape"])
    if kind == "binary":
        return (torch.rand(shape, generator=g) < 0.6).to(torch.float64)
    if kind == "float":
        m = torch.rand(shape, generator=g, dtype=torch.float64)
        return torch.where(m < 0.3, torch.zeros_like(m), m)
    if kind == "zero":
        return torch.zeros(shape, dtype=torch.float64)
    return torch.ones((1, 2) + tuple(c["shape"]), dtype=torch.float64)      # bad: two channels


def margin_ok(c) -> bool:
    """float margins: int(margin * n) must agree in float and exact arithmetic (see ASSUMPTIONS)."""
    m = c["margin"]
    if isinstance(m, float) and 0 < m < 1:
        return all(int(m * n) == math.floor(Fraction(m) * n) for n in c["shape"])
    return True


def call_ic(c, red=None, units=None):
    grid = ic_grid(c)
    f = ic_tensor(c, c["fwd"], grid)
    i = ic_tensor(c, c["inv"], grid)
    return L.inverse_consistency_loss(f, i, grid=grid, margin=c["margin"], mask=ic_mask(c), units=units or c["units"],
                                      reduction=red or c["red"])


def impl_ic(c):
    r = call_ic(c)
    vals = proto.flat(r)
    if any(math.isnan(v) for v in vals):
        return "nan"
    return {"values": vals, "scale": 4.0 * max(c["shape"]) * max(c["spacing"])}


def _tr_line(c, spec, grid) -> str:
    D = c["D"]
    if spec["kind"] == "lin":
        A = [v for row in spec["A"] for v in row]
        if spec["form"] == "trans":
            return "lin trans " + proto.vec(spec["t"])
        if spec["form"] == "aff":
            return "lin aff " + proto.vec(A)
        return "lin hom " + proto.vec(A) + " " + proto.vec(spec["t"])
    return "flow " + data_line(ic_tensor(c, spec, grid)[0])


def line_ic(c):
    D = c["D"]
    grid = ic_grid(c)
    n = [int(v) for v in grid.size()]
    sp = proto.flat(grid.spacing())
    mask = ic_mask(c)
    if mask is None:
        mtok = "-"
    elif c["mask"] == "bad":
        mtok = "bad"
    else:
        mtok = "+ " + data_line(mask[0, 0])
    m = c["margin"]
    margin = f"float {proto.fr(m)}" if isinstance(m, float) else f"int {int(m)}"
    # sqrt table from the per-point values of the implementation: (v^2, v)
    pairs = []
    try:
        none = call_ic(c, red="none")
        pairs = [(v * v, v) for v in proto.flat(none) if not math.isnan(v)]
    except Exception:
        pairs = []
    return (f"reg.ic {D} {' '.join(map(str, n))} {1 if c['ac'] else 0} {proto.vec(sp)} {_tr_line(c, c['fwd'], grid)} "
            f"{_tr_line(c, c['inv'], grid)} {mtok} {margin} {c['units']} {c['red']} {table_line(pairs)}")


def cmp_ic(c, r, out):
    if c.get("mask") == "bad":
        # shape checks of the mask are Python glue: the model is not asked (driver answers bad-op)
        return None if isinstance(r, str) and r.startswith("err:value") else f"impl accepted a 2-channel mask: {r}"
    if r == "nan":
        return None if out == "nan" else f"impl nan vs model {out[:60]}"
    if isinstance(r, str):
        return cmp_err(r, out)
    if proto.is_error(out) or out == "nan":
        return f"model {out}, impl returned {r['values'][:3]}"
    return close(r["values"], proto.parse_vec(out), RTOL64, r["scale"])


def gen_ic_filtered(rng, tier):
    for c in gen_ic(rng, tier):
        if margin_ok(c):
            yield c


STREAMS = [
    Stream("keys", gen_keys, impl_keys, line_keys, cmp_keys, exhaustive=True,
           doc="derivative keys requested by bending_loss / curvature_loss / grad_loss for D in {2,3} (order included)"),
    Stream("loss", gen_loss, impl_loss, line_loss, cmp_loss, nontrivial=nontrivial_loss,
           doc="bending / curvature / diffusion / total variation / grad(p,q) / divergence / elasticity: functional forms and "
               "losses.flow module classes x 8 modes x D x N x spacing forms x strides x reductions x material parameter pairs; "
               "linear and mis-shaped inputs"),
    Stream("bspline_bending", gen_bsb, impl_bsb, line_loss, cmp_loss, nontrivial=nontrivial_loss,
           doc="bspline_bending_loss / bspline_be_loss / losses.bspline.BSplineBending x strides (scalar / per axis) x reductions"),
    Stream("lame", gen_lame, impl_lame, line_lame, cmp_lame,
           doc="lame_parameters: every presence pattern of (material_name, 5 optional constants) incl. rejected ones, zero, "
               "negative and tiny values, consistent pairs derived from one (lambda, mu)"),
    Stream("ic", gen_ic_filtered, impl_ic, line_ic, cmp_ic,
           doc="inverse_consistency_loss: (matrix | flow) x (matrix | flow) x align_corners x units x reductions x int/float margins "
               "(incl. rejected and emptying ones) x masks (binary / float / all-zero / mis-shaped), exact and inexact inverse pairs"),
]


# ================================================================== property oracles (implementation only)
OR_MODES = [None] + FD_MODES + ["bspline", "gaussian"]
EXACT_EVERYWHERE = (None, "forward_central_backward", "bspline")      # first derivatives of affine fields exact at every point
FUNCS = {"bending": L.bending_loss, "curvature": L.curvature_loss, "diffusion": L.diffusion_loss, "tv": L.total_variation_loss,
         "grad": L.grad_loss, "divergence": L.divergence_loss, "elasticity": L.elasticity_loss}
MODULES = {"bending": LF.Bending, "curvature": LF.Curvature, "diffusion": LF.Diffusion, "tv": LF.TotalVariation,
           "grad": LF.GradLoss, "divergence": LF.Divergence, "elasticity": LF.Elasticity}
LAME_OK = [dict(first_parameter=1.5, second_parameter=0.75), dict(first_parameter=0.0, shear_modulus=1.0),
           dict(first_parameter=0.5, second_parameter=0.0), dict(shear_modulus=0.5, poissons_ratio=0.25)]


def mname(mode) -> str:
    return mode or "default-mode"


def _or_case(rng, tier_n, kinds, modes):
    for kind in kinds:
        for mode in modes:
            for D in (2, 3):
                for _ in range(tier_n if D == 2 else max(1, tier_n // 2)):
                    N = rng.choice([1, 2])
                    shape = [rng.randint(5, 9) for _ in range(2)] if D == 2 else [rng.randint(5, 6) for _ in range(3)]
                    c = {"kind": kind, "mode": mode, "D": D, "N": N, "shape": shape, "seed": rng.randrange(1 << 30),
                         "spacing": gen_spacing(rng, N, D, allow_none=True, dyadic_only=True)}
                    if mode == "bspline":
                        c["stride"] = rng.choice([None, 1, 2, [rng.randint(1, 2) for _ in range(D)]])
                    if kind == "grad":
                        c["p"], c["q"] = rng.choice([(1, 1), (2, 1), (2, 0.5), (3, 1), (2, 2), (4, None), (1.5, 1)])
                    if kind == "elasticity":
                        c["lame"] = rng.choice(LAME_OK)
                    yield c


def or_kwargs(c, **extra):
    kw = dict(mode=c.get("mode"), spacing=spacing_arg(c["spacing"]), stride=stride_arg(c))
    if c["kind"] == "grad":
        kw.update(p=c["p"], q=c["q"])
    if c["kind"] == "elasticity":
        kw.update(c["lame"])
    kw.update(extra)
    return kw


def or_call(c, u, **extra):
    """the regulariser, or the finding raised by a call that must have a value (DESIGN 5.0 I-1)."""
    try:
        return FUNCS[c["kind"]](u, **or_kwargs(c, **extra)), None
    except RuntimeError as e:
        if c["kind"] == "elasticity" and c.get("mode") == "bspline":
            return None, ("C17:elasticity:bspline-mode:shape-error",
                          f"elasticity_loss(mode='bspline', stride={c.get('stride')}) on shape {c['shape']}: RuntimeError {str(e)[:90]}")
        raise


def affine_field(c, seed_off=0):
    """u(x) = A x + t with x = spacing-as-meant * index (per batch item); returns (A, t, u)."""
    D, N, shape = c["D"], c["N"], c["shape"]
    g = torch.Generator().manual_seed(c["seed"] + seed_off)
    sp = spacing_matrix_true(c["spacing"], N, D, shape)
    idx = index_coords(shape)
    A = torch.randint(-16, 17, (N, D, D), generator=g).double() / 8
    t = torch.randint(-16, 17, (N, D), generator=g).double() / 8
    x = torch.stack([idx * torch.tensor(sp[b], dtype=torch.float64).reshape(D, *[1] * D) for b in range(N)], 0)
    u = torch.einsum("nij,nj...->ni...", A, x) + t.reshape(N, D, *[1] * D)
    return A, t, u


def random_field(c, seed_off=1, amp=8.0):
    g = torch.Generator().manual_seed(c["seed"] + seed_off)
    return torch.randint(-64, 65, (c["N"], c["D"], *c["shape"]), generator=g).double() / (64 / amp)


def or_tol(c) -> float:
    return RTOL64 if (c["spacing"]["value"] is not None and _exact_f32(c["spacing"]) and c.get("mode") != "bspline") else RTOL_SP32


def or_scale(c, u, power=2.0) -> float:
    sp = spacing_matrix_true(c["spacing"], c["N"], c["D"], c["shape"])
    h = min(min(r) for r in sp)
    return (max(1.0, float(u.abs().max())) / min(1.0, h) ** deriv_order(c["kind"])) ** power


# ---- null space: bending / curvature of affine fields, and adding an affine field
def gen_affine_null(rng, tier):
    yield from _or_case(rng, _n(tier, 2, 12, 4), ["bending", "curvature"], OR_MODES)


def check_affine_null(c):
    _, _, u = affine_field(c)
    v = random_field(c)
    key = f"C17:{c['kind']}:{mname(c['mode'])}:affine-nonzero"
    r, f = or_call(c, u, reduction="mean")
    if f:
        return f
    lim = or_tol(c) * or_scale(c, u)
    if float(r.abs()) > lim:
        return (key, f"{c['kind']}_loss(mode={c['mode']!r}) of an affine field on shape {c['shape']} = {float(r):.4e} (> {lim:.1e}), not 0")
    a, _ = or_call(c, v, reduction="mean")
    b, _ = or_call(c, v + u, reduction="mean")
    lim = or_tol(c) * or_scale(c, v + u)
    if float((a - b).abs()) > lim:
        return (key, f"{c['kind']}_loss(mode={c['mode']!r}): adding an affine field changes the value by {float((a - b).abs()):.4e} (> {lim:.1e})")
    return None


# ---- translations: gradient-based terms vanish
def gen_translation(rng, tier):
    yield from _or_case(rng, _n(tier, 1, 8, 3), ["diffusion", "tv", "grad", "divergence", "elasticity", "bending", "curvature"], OR_MODES)


def check_translation(c):
    g = torch.Generator().manual_seed(c["seed"])
    t = torch.randint(-16, 17, (c["N"], c["D"]), generator=g).double() / 8
    u = t.reshape(c["N"], c["D"], *[1] * c["D"]).expand(c["N"], c["D"], *c["shape"]).clone()
    r, f = or_call(c, u, reduction="none")
    if f:
        return f
    if float(r.abs().max()) > 1e-9:
        return (f"C17:{c['kind']}:{mname(c['mode'])}:translation-nonzero",
                f"{c['kind']}_loss(mode={c['mode']!r}) of a translation = {float(r.abs().max()):.3e}")
    return None


# ---- analytic values on affine fields
def analytic_value(c, A) -> torch.Tensor:
    """per batch item value of the regulariser on u = A x + t (first derivatives = A)."""
    k = c["kind"]
    if k == "diffusion":
        return 0.5 * (A ** 2).sum(dim=(1, 2))
    if k == "tv":
        return A.abs().sum(dim=(1, 2))
    if k == "grad":
        p, q = c["p"], c["q"]
        q = 1.0 / p if q is None else q
        s = (A.abs() ** p).sum(dim=(1, 2))
        return s.abs() if q == 0 else s ** q
    if k == "divergence":
        return 0.5 * torch.einsum("nii->n", A) ** 2
    lam, mu = L.lame_parameters(**c["lame"])
    return lam / 2 * torch.einsum("nii->n", A) ** 2 + mu / 4 * ((A + A.transpose(1, 2)) ** 2).sum(dim=(1, 2))


def gen_affine_values(rng, tier):
    yield from _or_case(rng, _n(tier, 1, 8, 3), ["diffusion", "tv", "grad", "divergence", "elasticity"],
                        [None] + FD_MODES + ["bspline", "gaussian"])


def check_affine_values(c):
    A, _, u = affine_field(c)
    D, N = c["D"], c["N"]
    want = analytic_value(c, A).reshape(N, 1, *[1] * D)
    r, f = or_call(c, u, reduction="none")
    if f:
        return f
    power = max(1.0, loss_power(c))
    lim = or_tol(c) * max(or_scale(c, u, power), float(want.abs().max())) * 16
    interior = (slice(None), slice(None)) + (slice(1, -1),) * D
    if c["mode"] == "gaussian":
        e = float((r - want).abs().max())
        if e > lim:
            return ("C17:grad-terms:gaussian:affine-value-approx", f"{c['kind']}_loss(mode='gaussian') on an affine field differs from the "
                    f"analytic value by {e:.3e} (value {float(want.abs().max()):.3e}): the discretised Gaussian derivative kernel is "
                    f"not exact on ramps, and replicate padding halves it at the boundary")
        return None
    if c["mode"] in EXACT_EVERYWHERE:
        e = float((r - want).abs().max())
        if e > lim:
            return (f"C17:{c['kind']}:{mname(c['mode'])}:affine-value", f"{c['kind']}_loss(mode={c['mode']!r}) on an affine field "
                    f"differs from the analytic value by {e:.3e} (> {lim:.1e})")
        return None
    e = float((r[interior] - want).abs().max())
    if e > lim:
        return (f"C17:{c['kind']}:{mname(c['mode'])}:affine-value", f"{c['kind']}_loss(mode={c['mode']!r}) on an affine field differs "
                f"from the analytic value by {e:.3e} at margin-1 interior points")
    e = float((r - want).abs().max())
    if e > lim:     # DESIGN 5.0 I-3: C17 does not carve out boundary points
        return (f"C17:grad-terms:{mname(c['mode'])}:affine-value-boundary", f"{c['kind']}_loss(mode={c['mode']!r}) on an affine field: "
                f"boundary values differ from the analytic value by {e:.3e} (padded stencil), so the reduced loss is not the analytic one")
    return None


# ---- sign, scaling with the field, scaling with the spacing, reductions
def gen_generic(rng, tier):
    yield from _or_case(rng, _n(tier, 1, 8, 3), KINDS, OR_MODES)


def check_nonneg(c):
    u = random_field(c)
    r, f = or_call(c, u, reduction="none")
    if f:
        return f
    if float(r.min()) < 0:
        return (f"C17:{c['kind']}:{mname(c['mode'])}:negative", f"{c['kind']}_loss has a negative value {float(r.min()):.3e}")
    return None


def field_power(c) -> float:
    if c["kind"] == "tv":
        return 1.0
    if c["kind"] == "grad":
        q = 1.0 / c["p"] if c["q"] is None else c["q"]
        return float(c["p"]) * (1.0 if q == 0 else float(q))
    return 2.0


def check_scaling(c):
    u = random_field(c, amp=2.0)
    base, f = or_call(c, u, reduction="none")
    if f:
        return f
    k = field_power(c)
    for s in (-2.0, 0.5, 3.0):
        r, _ = or_call(c, s * u, reduction="none")
        want = abs(s) ** k * base
        e = float((r - want).abs().max())
        if e > 1e-9 * max(1.0, float(want.abs().max())):
            return (f"C17:{c['kind']}:{mname(c['mode'])}:field-scaling", f"{c['kind']}_loss({s} u) != |{s}|^{k} loss(u): error {e:.3e}")
    return None


def check_spacing_power(c):
    if c["spacing"]["value"] is None:
        # spacing=None must mean the cube spacing 2/(n-1) (x first)
        u = random_field(c, amp=2.0)
        a, f = or_call(c, u, reduction="none")
        if f:
            return f
        sp = tuple(reversed([2 / (n - 1) for n in c["shape"]]))
        b, _ = or_call(c, u, reduction="none", spacing=sp)
        e = float((a - b).abs().max())
        if e > 1e-9 * max(1.0, float(b.abs().max())):
            return (f"C17:{c['kind']}:{mname(c['mode'])}:default-spacing", f"spacing=None differs from spacing=2/(n-1): {e:.3e}")
        return None
    u = random_field(c, amp=2.0)
    base, f = or_call(c, u, reduction="none")
    if f:
        return f
    k = field_power(c) * deriv_order(c["kind"])
    sp = spacing_arg(c["spacing"])
    for s in (0.5, 2.0, 4.0):
        sp2 = sp * s if isinstance(sp, (float, torch.Tensor)) else (torch.tensor(sp, dtype=torch.float64) * s)
        r, _ = or_call(c, u, reduction="none", spacing=sp2)
        want = base / s ** k
        e = float((r - want).abs().max())
        if e > or_tol(c) * max(1.0, float(want.abs().max())):
            return (f"C17:{c['kind']}:{mname(c['mode'])}:spacing-power", f"{c['kind']}_loss with spacing x{s} != loss / {s}^{k}: error {e:.3e}")
    return None


def check_reductions(c):
    u = random_field(c)
    none, f = or_call(c, u, reduction="none")
    if f:
        return f
    for red, want in (("mean", none.mean()), ("sum", none.sum())):
        r, _ = or_call(c, u, reduction=red)
        e = float((r - want).abs())
        if r.ndim != 0 or e > 1e-9 * max(1.0, float(want.abs())):
            return (f"C17:{c['kind']}:reduction:{red}", f"{c['kind']}_loss(reduction={red!r}) = {float(r):.6e} but {red} of 'none' = {float(want):.6e}")
    return None


# ---- linear transformations
def gen_linear(rng, tier):
    for kind in KINDS:
        for via in ("functional", "module"):
            for cols in ("D1", "DD", "DD1"):
                for red in REDS:
                    D = rng.choice([2, 3])
                    c = {"kind": kind, "via": via, "D": D, "N": rng.choice([1, 3]), "linshape": cols, "red": red, "input": "lin",
                         "mode": rng.choice(OR_MODES), "seed": rng.randrange(1 << 30),
                         "spacing": {"form": "none", "value": None, "tensor": False}, "data": {"seed": rng.randrange(1 << 30)}}
                    if kind == "grad":
                        c["p"], c["q"] = 2, 1
                    if kind == "elasticity":
                        c["lame"] = rng.choice(LAME_OK)
                    yield c


def check_linear(c):
    u = make_input(c)
    try:
        r = call_loss(c, u)
    except NotImplementedError:
        return None if c["red"] == "none" else (f"C17:{c['kind']}:linear:{c['red']}", "NotImplementedError for a reduced loss of a linear transformation")
    if c["red"] == "none":
        return (f"C17:{c['kind']}:linear:none", f"returned {r} for reduction='none' of a linear transformation (documented: not implemented)")
    if float(r) != 0.0 or r.ndim != 0:
        return (f"C17:{c['kind']}:linear:{c['via']}", f"{c['kind']} of a linear transformation {tuple(u.shape)} = {r}, expected 0")
    return None


# ---- lame_parameters: every valid pair returns the (lambda, mu) it came from
LAME_PAIRS = {
    "lambda-mu": lambda l, m, nu, E: dict(first_parameter=l, second_parameter=m),
    "lambda-G": lambda l, m, nu, E: dict(first_parameter=l, shear_modulus=m),
    "lambda-nu": lambda l, m, nu, E: dict(first_parameter=l, poissons_ratio=nu),
    "G-nu": lambda l, m, nu, E: dict(shear_modulus=m, poissons_ratio=nu),
    "mu-nu": lambda l, m, nu, E: dict(second_parameter=m, poissons_ratio=nu),
    "G-E": lambda l, m, nu, E: dict(shear_modulus=m, youngs_modulus=E),
    "mu-E": lambda l, m, nu, E: dict(second_parameter=m, youngs_modulus=E),
    "lambda-E": lambda l, m, nu, E: dict(first_parameter=l, youngs_modulus=E),
    "nu-E": lambda l, m, nu, E: dict(poissons_ratio=nu, youngs_modulus=E),
}
LAME_KEYS = {"lambda-E": "C17:lame_parameters:lambda-E:precedence", "nu-E": "C17:lame_parameters:nu-E:float-call"}


def gen_lame_pairs(rng, tier):
    for pair in LAME_PAIRS:
        # the boundary of the valid range: lambda = 0, i.e. Poisson's ratio exactly 0 (a value that is falsy in Python)
        if pair != "lambda-nu":     # (lambda, nu) = (0, 0) does not determine mu (0/0): not a valid pair
            yield {"pair": pair, "lam": 0.0, "mu": round(rng.uniform(0.05, 3.0), 3)}
        for _ in range(_n(tier, 4, 60, 12)):
            yield {"pair": pair, "lam": round(rng.uniform(0.05, 3.0), 3), "mu": round(rng.uniform(0.05, 3.0), 3)}


def check_lame_pairs(c):
    l, m = c["lam"], c["mu"]
    nu = l / (2 * (l + m))
    E = m * (3 * l + 2 * m) / (l + m)
    kw = LAME_PAIRS[c["pair"]](l, m, nu, E)
    key = LAME_KEYS.get(c["pair"], f"C17:lame_parameters:{c['pair']}")
    try:
        got = L.lame_parameters(**kw)
    except Exception as e:
        return (key, f"lame_parameters({kw}) raises {type(e).__name__}: {str(e)[:80]} (valid pair derived from lambda={l}, mu={m})")
    e = max(abs(got[0] - l), abs(got[1] - m))
    if e > 1e-9 * max(1.0, l, m):
        return (key, f"lame_parameters({kw}) = {got}, expected ({l}, {m})")
    return None


# ---- inverse consistency
def in_hull(c, A, t) -> bool:
    grid = ic_grid(c)
    x = grid.coords(dtype=torch.float64)
    y = torch.einsum("ij,...j->...i", torch.tensor(A, dtype=torch.float64), x) + torch.tensor(t, dtype=torch.float64)
    n = torch.tensor([float(v) for v in grid.size()], dtype=torch.float64)
    lim = torch.ones_like(n) if c["ac"] else 1 - 1 / n
    return bool((y.abs() <= lim + 1e-12).all())


def gen_ic_zero(rng, tier):
    for fk, ik in itertools.product(["lin", "flow"], repeat=2):
        for ac in (True, False):
            for units in ("cube", "voxel", "world"):
                for _ in range(_n(tier, 1, 8, 3)):
                    D = rng.choice([2, 2, 3])
                    shape = [rng.randint(5, 9) for _ in range(D)] if D == 2 else [rng.randint(5, 6) for _ in range(3)]
                    c = {"D": D, "shape": shape, "ac": ac, "spacing": [rng.choice([0.5, 1.0, 1.5, 0.7, 2.0]) for _ in range(D)],
                         "margin": rng.choice([0, 0, 1, 0.125]), "mask": rng.choice([None, None, "binary"]),
                         "mask_seed": rng.randrange(1 << 30), "units": units, "red": rng.choice(["mean", "none"])}
                    for _try in range(50):
                        # contraction towards the centre plus a small shear / translation keeps the lattice in the hull
                        A = [[(rng.uniform(0.6, 0.9) if i == j else rng.uniform(-0.05, 0.05)) for j in range(D)] for i in range(D)]
                        t = [rng.uniform(-0.04, 0.04) for _ in range(D)]
                        if ik == "lin" or in_hull(c, A, t):
                            break
                    Ai, ti = inv_affine(A, t)
                    c["fwd"] = _transform_spec(rng, D, A, t, fk)
                    c["inv"] = _transform_spec(rng, D, Ai, ti, ik)
                    for s_ in (c["fwd"], c["inv"]):
                        if s_["kind"] == "lin":
                            s_["form"] = "hom"
                    yield c


def check_ic_zero(c):
    r = call_ic(c)
    e = float(r.abs().max()) if r.numel() else 0.0
    if not (e <= 1e-9 * max(c["shape"]) * max(c["spacing"])):
        return (f"C17:inverse_consistency:exact-inverse:{c['fwd']['kind']}-{c['inv']['kind']}",
                f"inverse consistency error of an exact inverse pair ({c['fwd']['kind']}, {c['inv']['kind']}) = {e:.3e} {c['units']}")
    return None


def gen_ic_units(rng, tier):
    for red, margin, mask in (("sum", 0, None), ("mean", 1, "binary"), ("mean", 2, "binary")):
        yield {"D": 2, "shape": [9, 7], "ac": True, "spacing": [1.5, 0.5], "t": [0.1, -0.05], "units": "cube", "red": red,
               "margin": margin, "mask": mask, "mask_seed": 5, "as_flow": False}
    for ac in (True, False):
        for units in ("cube", "voxel", "world"):
            for red in REDS:
                for _ in range(_n(tier, 2, 12, 4)):
                    D = rng.choice([2, 3])
                    shape = [rng.randint(5, 10) for _ in range(D)] if D == 2 else [rng.randint(5, 6) for _ in range(3)]
                    yield {"D": D, "shape": shape, "ac": ac, "spacing": [rng.choice([0.5, 1.0, 1.5, 0.7, 2.0, 3.0]) for _ in range(D)],
                           "t": [round(rng.uniform(-0.2, 0.2), 3) for _ in range(D)], "units": units, "red": red,
                           "margin": rng.choice([0, 0, 1, 2, 0.125]), "mask": rng.choice([None, None, "binary"]),
                           "mask_seed": rng.randrange(1 << 30), "as_flow": rng.random() < 0.5}


def check_ic_units(c):
    """forward = translation by t (cube units), inverse = identity: the error vector is t at every point."""
    from deepali.core import Axes

    D = c["D"]
    grid = ic_grid(c)
    t = torch.tensor(c["t"], dtype=torch.float64)
    fwd = t.reshape(1, D, 1)
    if c["as_flow"]:
        fwd = t.reshape(1, D, *[1] * D).expand(1, D, *c["shape"]).clone()
    inv = torch.eye(D, dtype=torch.float64).unsqueeze(0)
    mask = ic_mask(c)
    r = L.inverse_consistency_loss(fwd, inv, grid=grid, margin=c["margin"], mask=mask, units=c["units"], reduction=c["red"])
    axes = Axes.from_align_corners(c["ac"])
    to = {"cube": axes, "voxel": Axes.GRID, "world": Axes.WORLD}[c["units"]]
    want = float(grid.transform_vectors(t.float(), axes=axes, to_axes=to).double().norm()) if c["units"] != "cube" else float(t.norm())
    # which grid points are averaged: inside the margin, and (mean) inside the mask
    m = c["margin"]
    ms = [int(m * n) if isinstance(m, float) else max(0, int(m)) for n in c["shape"]]
    keep = torch.ones(c["shape"], dtype=torch.bool)
    for ax, (k, n) in enumerate(zip(ms, c["shape"])):
        sl = [slice(None)] * D
        if k > 0:
            idx = torch.arange(n)
            sel = (idx >= k) & (idx < n - k)
            shape_ = [1] * D
            shape_[ax] = n
            keep &= sel.reshape(shape_)
    fg = keep if mask is None else keep & (mask[0, 0] != 0)
    nfg = int(fg.sum())
    if nfg == 0:
        return None
    if c["red"] == "none":
        got = r[0][fg[keep].reshape(r[0].shape)] if r.numel() else r
        e = float((got - want).abs().max()) if got.numel() else 0.0
        total = None
    elif c["red"] == "mean":
        e = abs(float(r) - want)
    else:
        e = abs(float(r) - want * nfg)
    if e <= 1e-5 * max(1.0, abs(want) * (nfg if c["red"] == "sum" else 1)):
        return None
    # classify
    if c["red"] == "sum" and nfg > 1 and abs(float(r) * nfg - want * nfg) > 1e-5 * max(1.0, abs(want) * nfg) \
            and abs(float(r) * int(keep.sum()) - want * nfg) <= 1e-5 * max(1.0, abs(want) * nfg):
        return ("C17:inverse_consistency:reduction-sum-is-mean", f"reduction='sum' returns {float(r):.6f}; sum of the per-point errors is "
                f"{want * nfg:.6f} ({nfg} points x {want:.6f})")
    if c["units"] != "cube" and not c["ac"]:
        # would the value be right under the other convention?
        return ("C17:inverse_consistency:units-ignore-align_corners",
                f"units={c['units']!r}, align_corners=False, shape {c['shape']}, spacing {c['spacing']}, error vector {c['t']} cube units, "
                f"reduction={c['red']!r}: reported {float(r.flatten()[0]) if c['red'] == 'none' else float(r):.6f}, expected {want:.6f} per point")
    if c["red"] == "sum":
        return ("C17:inverse_consistency:reduction-sum-is-mean", f"reduction='sum' returns {float(r):.6f}; sum of the per-point errors is "
                f"{want * nfg:.6f} ({nfg} points x {want:.6f})")
    if c["red"] == "mean" and mask is not None and any(ms):
        return ("C17:inverse_consistency:mask-margin-mean-count", f"mean with mask and margin={m}: reported {float(r):.6f}, every kept "
                f"foreground point has error {want:.6f} (divides by the count of the uncropped mask)")
    return (f"C17:inverse_consistency:units:{c['units']}:{c['red']}", f"reported {r.flatten()[:3].tolist()}, expected {want:.6f}")


# ---- B-spline bending energy = energy of the analytic spline derivatives
def gen_bspline_analytic(rng, tier):
    for D in (2, 3):
        for _ in range(_n(tier, 3, 30, 8)):
            N = rng.choice([1, 2])
            yield {"kind": "bending", "mode": "bspline", "D": D, "N": N, "shape": [rng.randint(5, 7) for _ in range(D)],
                   "seed": rng.randrange(1 << 30), "stride": [rng.randint(1, 3 if D == 2 else 2) for _ in range(D)],
                   "h": [[rng.choice(DYADIC) for _ in range(D)] for _ in range(N)], "field": rng.choice(["random", "random", "affine"]),
                   "via": rng.choice(["bending_loss", "bspline_bending_loss", "BSplineBending"])}


def analytic_spline_deriv(coef, shape, stride, order):
    """coef (N, *shape) -> derivative of the spline of the given order per spatial dim (x first), unit spacing."""
    D = len(shape)
    val = coef
    for d in range(D):
        n, s = shape[D - 1 - d], stride[d]
        pos = 1 + torch.arange(s * (n - 3), dtype=torch.float64) / s
        W = _beta3(pos.reshape(-1, 1) - torch.arange(n, dtype=torch.float64).reshape(1, -1), order[d])
        val = torch.movedim(torch.tensordot(val, W, dims=([1 + (D - 1 - d)], [1])), -1, 1 + (D - 1 - d))
    return val


def check_bspline_analytic(c):
    D, N, shape = c["D"], c["N"], c["shape"]
    g = torch.Generator().manual_seed(c["seed"])
    if c["field"] == "random":
        coef = torch.randint(-64, 65, (N, D, *shape), generator=g).double() / 8
    else:
        idx = index_coords(shape)
        A = torch.randint(-16, 17, (N, D, D), generator=g).double() / 8
        coef = torch.einsum("nij,j...->ni...", A, idx) + 0.5
    default = c["via"] != "bending_loss"
    h = torch.tensor([[2 / (n - 1) for n in reversed(shape)]] * N, dtype=torch.float64) if default else torch.tensor(c["h"], dtype=torch.float64)
    st = tuple(c["stride"])
    if c["via"] == "bending_loss":
        got = L.bending_loss(coef, mode="bspline", stride=st, spacing=h, reduction="none")
    elif c["via"] == "BSplineBending":
        got = LB.BSplineBending(stride=st, reduction="none")(coef)
    else:
        got = L.bspline_bending_loss(coef, stride=st, reduction="none")
    want = None
    for ch in range(D):
        for a in range(D):
            for b in range(a, D):
                order = [0] * D
                order[a] += 1
                order[b] += 1
                dv = analytic_spline_deriv(coef[:, ch], shape, c["stride"], order)
                den = (h[:, a] * h[:, b]).reshape(N, *[1] * D)
                term = (dv / den) ** 2 * (2.0 if a != b else 1.0)
                want = term if want is None else want + term
    want = want.unsqueeze(1)
    if got.shape != want.shape:
        return (f"C17:bspline_bending:shape:{c['via']}", f"{tuple(got.shape)} vs {tuple(want.shape)}")
    e = float((got - want).abs().max())
    tol = RTOL_SP32 * max(1.0, float(want.abs().max()))
    if e > tol:
        return (f"C17:bspline_bending:analytic:{c['via']}:D{D}", f"B-spline bending energy differs from the energy of the analytic "
                f"second derivatives by {e:.3e} (> {tol:.1e}), stride {st}")
    if c["field"] == "affine" and float(got.abs().max()) > 1e-9 * max(1.0, float((coef.abs().max() / h.min() ** 2) ** 2)):
        return (f"C17:bspline_bending:affine-nonzero", f"B-spline bending energy of affine coefficients = {float(got.abs().max()):.3e}")
    return None


# ---- bending / curvature are the energies their names say (quadratic fields, margin-2 interior)
def gen_quadratic_values(rng, tier):
    for c in _or_case(rng, _n(tier, 1, 8, 3), ["bending", "curvature"], [None] + FD_MODES):
        if c["spacing"]["value"] is None:
            c["spacing"] = {"form": "scalar", "value": rng.choice(DYADIC), "tensor": False}
        yield c


def check_quadratic_values(c):
    D, N, shape = c["D"], c["N"], c["shape"]
    g = torch.Generator().manual_seed(c["seed"])
    sp = spacing_matrix_true(c["spacing"], N, D, shape)
    idx = index_coords(shape)
    Q = torch.randint(-8, 9, (N, D, D, D), generator=g).double() / 4
    Q = Q + Q.transpose(2, 3)
    Lc = torch.randint(-8, 9, (N, D, D), generator=g).double() / 4
    x = torch.stack([idx * torch.tensor(sp[b], dtype=torch.float64).reshape(D, *[1] * D) for b in range(N)], 0)
    u = 0.5 * torch.einsum("ni...,ncij,nj...->nc...", x, Q, x) + torch.einsum("nci,ni...->nc...", Lc, x) + 0.25
    r, f = or_call(c, u, reduction="none")
    if f:
        return f
    if c["kind"] == "bending":
        want = (Q ** 2).sum(dim=(1, 2, 3))
    else:
        want = 0.5 * (torch.einsum("ncii->nc", Q) ** 2).sum(dim=1)
    want = want.reshape(N, 1, *[1] * D)
    inner = (slice(None), slice(None)) + (slice(2, -2),) * D
    e = float((r[inner] - want).abs().max())
    lim = or_tol(c) * max(or_scale(c, u), float(want.abs().max()))
    if e > lim:
        return (f"C17:{c['kind']}:{mname(c['mode'])}:quadratic-value", f"{c['kind']}_loss(mode={c['mode']!r}) of a quadratic field differs "
                f"from {'sum of squared second derivatives' if c['kind'] == 'bending' else 'half the squared Laplacians'} by {e:.3e} at the margin-2 interior")
    return None


# ---- module classes forward their arguments
def gen_modules(rng, tier):
    for kind in KINDS:
        for mode in [None] + FD_MODES + ["bspline"]:
            for _ in range(_n(tier, 1, 6, 2)):
                D = rng.choice([2, 2, 3])
                N = rng.choice([1, 2])
                c = {"kind": kind, "mode": mode, "D": D, "N": N, "shape": [6] * D if mode == "bspline" else [rng.randint(5, 7) for _ in range(D)],
                     "seed": rng.randrange(1 << 30), "spacing": gen_spacing(rng, N, D, dyadic_only=True), "red": rng.choice(REDS)}
                if mode == "bspline":
                    c["stride"] = rng.choice([None, 2, 2, [2] * D]) if kind != "elasticity" else 2
                if kind == "grad":
                    c["p"], c["q"] = rng.choice([(1, 1), (2, 1), (2, 0.5), (3, 1), (2, None)])
                if kind == "elasticity":
                    c["lame"] = rng.choice(LAME_OK)
                if rng.random() < 0.4:
                    c["spacing"] = {"value": None}     # default spacing 2/(n-1): depends on the shape of the field of EACH call
                yield c


def check_modules(c):
    u = random_field(c)
    kw = or_kwargs(c, reduction=c["red"])
    try:
        a = FUNCS[c["kind"]](u, **kw)
    except RuntimeError as e:
        if c["kind"] == "elasticity" and c.get("mode") == "bspline":
            return ("C17:elasticity:bspline-mode:shape-error", f"elasticity_loss(mode='bspline', stride={c.get('stride')}): {str(e)[:90]}")
        raise
    try:
        module = MODULES[c["kind"]](**kw)
        b = module(u)
    except RuntimeError as e:
        if c["kind"] == "elasticity" and c.get("stride") not in (None, 1):
            return ("C17:Elasticity-module:stride-dropped", f"losses.flow.Elasticity(mode='bspline', stride={c['stride']}) raises "
                    f"{str(e)[:70]} while elasticity_loss(..., stride={c['stride']}) returns a value: __init__ does not forward `stride`")
        raise
    if a.shape != b.shape or float((a - b).abs().max()) > 0:
        if c["kind"] == "elasticity" and c.get("stride") not in (None, 1):
            return ("C17:Elasticity-module:stride-dropped", f"losses.flow.Elasticity(stride={c['stride']}) differs from elasticity_loss")
        return (f"C17:{c['kind']}:module-vs-functional", f"module {MODULES[c['kind']].__name__} differs from the functional form")
    # a loss module carries no state from one call to the next: the SAME instance applied to a field of another shape
    # (coarse-to-fine pyramid) gives the functional value for that field
    if c.get("mode") != "bspline":
        c2 = dict(c, shape=[n + 2 + k for k, n in enumerate(c["shape"])], seed=c["seed"] + 1)
        u2 = random_field(c2)
        a2, b2 = FUNCS[c["kind"]](u2, **kw), module(u2)
        if a2.shape != b2.shape or float((a2 - b2).abs().max()) > 0:
            return (f"C17:{c['kind']}:module-reuse", f"{MODULES[c['kind']].__name__} called a second time on a field of shape "
                    f"{list(u2.shape)} (after {list(u.shape)}) differs from the functional form by {float((a2 - b2).abs().max()):.3e}")
    return None


def gen_ic_default_grid(rng, tier):
    for fk, ik in (("lin", "flow"), ("flow", "lin"), ("flow", "flow")):
        for units in ("cube", "voxel", "world"):
            for red in ("none", "mean"):
                for _ in range(_n(tier, 1, 8, 2)):
                    D = rng.choice([2, 3])
                    shape = rng.sample([5, 6, 7, 9, 11], D)          # non-cubic: the axis order matters
                    yield {"D": D, "shape": shape, "fk": fk, "ik": ik, "units": units, "red": red,
                           "t": [round(rng.uniform(-0.2, 0.2), 3) for _ in range(D)], "seed": rng.randrange(1 << 30),
                           "margin": rng.choice([0, 1, 0.125])}


def check_ic_default_grid(c):
    """grid=None means the default grid of the dense field's shape: the same numbers as passing Grid(shape=field.shape[2:])"""
    D, shape = c["D"], c["shape"]
    g = torch.Generator().manual_seed(c["seed"])
    t = torch.tensor(c["t"], dtype=torch.float64)

    def mk(kind, sign):
        if kind == "lin":
            return (sign * t).reshape(1, D, 1)
        return (sign * t).reshape(1, D, *[1] * D).expand(1, D, *shape) + 0.01 * torch.randn((1, D, *shape), generator=g, dtype=torch.float64)

    f, i = mk(c["fk"], 1.0), mk(c["ik"], -0.6)
    kw = dict(margin=c["margin"], units=c["units"], reduction=c["red"])
    a = L.inverse_consistency_loss(f, i, **kw)
    b = L.inverse_consistency_loss(f, i, grid=Grid(shape=shape), **kw)
    if a.shape != b.shape or float((a - b).abs().max()) > 1e-9:
        return (f"C17:inverse_consistency:default-grid:{c['fk']}-{c['ik']}",
                f"grid=None ({c['fk']} forward, {c['ik']} inverse of shape {shape}, units={c['units']}, reduction={c['red']}) gives "
                f"{list(a.shape)} / {a.flatten()[:2].tolist()}, grid=Grid(shape=...) gives {list(b.shape)} / {b.flatten()[:2].tolist()}")
    return None


ORACLES = [
    Oracle("affine_null", gen_affine_null, check_affine_null, doc="bending / curvature of affine fields = 0 and unchanged by adding one "
           "(reduced loss, every mode incl. bspline and gaussian; DESIGN I-3: no boundary carve-out)"),
    Oracle("translation", gen_translation, check_translation, doc="every regulariser vanishes at every point for constant fields, every mode"),
    Oracle("affine_values", gen_affine_values, check_affine_values, doc="diffusion / TV / grad(p,q) / divergence / elasticity on affine "
           "fields = closed forms (every point for default / forward_central_backward / bspline; interior for padded schemes, whose "
           "boundary deviation is reported per mode)"),
    Oracle("quadratic_values", gen_quadratic_values, check_quadratic_values, doc="bending = sum of squared second derivatives (mixed "
           "counted twice), curvature = half the sum of squared component Laplacians, on quadratic fields at the margin-2 interior, every "
           "finite-difference mode"),
    Oracle("nonneg", gen_generic, check_nonneg, doc="all values >= 0 on random fields (p >= 1; lambda, mu >= 0)"),
    Oracle("scaling", gen_generic, check_scaling, doc="L(c u) = |c|^k L(u): k = 2 (bending, curvature, diffusion, divergence, elasticity), 1 (TV), p q (grad)"),
    Oracle("spacing_power", gen_generic, check_spacing_power, doc="L(u; c h) = c^-(k order) L(u; h); spacing=None means 2/(n-1)"),
    Oracle("reductions", gen_generic, check_reductions, doc="'mean' / 'sum' = mean / sum of 'none'"),
    Oracle("linear", gen_linear, check_linear, doc="3-dimensional (linear transformation) tensors: 0 for mean/sum, NotImplementedError for none; functional and module"),
    Oracle("lame", gen_lame_pairs, check_lame_pairs, doc="every valid pair of elastic constants derived from one (lambda, mu) returns that (lambda, mu)"),
    Oracle("ic_zero", gen_ic_zero, check_ic_zero, doc="exact inverse pairs of affine maps (matrix / sampled flow, hull-preserving) have zero error in every unit"),
    Oracle("ic_units", gen_ic_units, check_ic_units, doc="a uniform error vector is reported as its length in cube / voxel / world units "
           "(reference: Grid.transform_vectors) for either align_corners, anisotropic spacing, margins, masks, every reduction"),
    Oracle("bspline_analytic", gen_bspline_analytic, check_bspline_analytic, doc="B-spline bending energy = energy of the analytic spline "
           "second derivatives (independent cubic basis), strides 1..3, functional / alias / module"),
    Oracle("modules", gen_modules, check_modules, doc="losses.flow module classes equal their functional forms for the same arguments"),
    Oracle("ic_default_grid", gen_ic_default_grid, check_ic_default_grid, doc="inverse_consistency_loss(grid=None) = the same call with "
           "Grid(shape=<dense field>.shape[2:]) for matrix/flow pairs on non-cubic shapes, every unit"),
]


def search_cases(disagreements: List[dict]):
    """Disagreeing correspondence cases become oracle cases with the same kind / mode / D / shape / spacing."""
    names = ["affine_null", "translation", "affine_values", "quadratic_values", "nonneg", "scaling", "spacing_power", "reductions", "modules",
             "lame", "ic_zero", "ic_units", "bspline_analytic"]
    extra: Dict[str, List[dict]] = {n: [] for n in names}
    for dsg in disagreements[:40]:
        c = dsg["case"]
        if dsg["stream"] == "lame":
            for pair in LAME_PAIRS:
                extra["lame"].append({"pair": pair, "lam": 1.5, "mu": 0.7})
            continue
        if dsg["stream"] == "ic":
            for units in ("cube", "voxel", "world"):
                for red in REDS:
                    extra["ic_units"].append({"D": c["D"], "shape": c["shape"], "ac": c["ac"], "spacing": c["spacing"], "t": [0.1, -0.05, 0.07][:c["D"]],
                                              "units": units, "red": red, "margin": 0, "mask": None, "mask_seed": 1, "as_flow": c["fwd"]["kind"] == "flow"})
            continue
        if c.get("input") != "field" or "kind" not in c:
            continue
        base = {"kind": c["kind"], "mode": c.get("mode"), "D": c["D"], "N": c["N"], "shape": c["shape"], "seed": c["data"]["seed"],
                "spacing": c["spacing"], "stride": c.get("stride")}
        if c["kind"] == "grad":
            base["p"], base["q"] = c["p"], c["q"]
            if base["p"] == 0:
                base["p"] = 2
        if c["kind"] == "elasticity":
            base["lame"] = LAME_OK[0]
        if c["kind"] in ("bending", "curvature"):
            extra["affine_null"].append(base)
            if c.get("mode") != "bspline":
                extra["quadratic_values"].append(dict(base, spacing={"form": "scalar", "value": 0.5, "tensor": False}))
        else:
            extra["affine_values"].append(base)
        for n in ("translation", "nonneg", "scaling", "spacing_power", "reductions"):
            extra[n].append(base)
        extra["modules"].append(dict(base, red=c.get("red", "mean")))
        if c.get("mode") == "bspline" and c["kind"] == "bending":
            extra["bspline_analytic"].append({"kind": "bending", "mode": "bspline", "D": c["D"], "N": c["N"], "shape": c["shape"],
                                              "seed": c["data"]["seed"], "stride": strides_of(c), "h": [[1.5, 0.5, 2.0][:c["D"]]] * c["N"],
                                              "field": "random", "via": "bending_loss"})
    return extra
