"""C18 — images and flow fields survive a write/read round trip in every supported format."""
from __future__ import annotations

import itertools
import json
import math
import os
import random
import re
import tempfile
from fractions import Fraction
from typing import Dict, List, Optional, Tuple

import numpy as np
import SimpleITK as sitk
import torch

from deepali.core.grid import Axes, Grid
from deepali.data.flow import FlowField
from deepali.data.image import Image
from deepali.utils.imageio import read_image, write_image
from deepali.utils.imageio.nifti import read_nifti_image
from deepali.utils.simpleitk.torch import image_from_tensor, tensor_from_image

from lib import gen, proto
from lib.core import Oracle, Stream, close

PROP = "C18"
FORMATS = [".mha", ".mhd", ".nii", ".nii.gz", ".nrrd"]
DIMS = [2, 3]
CHANNELS = [1, 2, 3]
DTYPES = ["uint8", "int16", "int32", "float32", "float64"]
TORCH_DT = {"uint8": torch.uint8, "int16": torch.int16, "int32": torch.int32, "float32": torch.float32,
            "float64": torch.float64}
AXES = ["grid", "cube", "cube_corners", "world"]

# Geometry tolerance.  Grid attributes are float32; a header stores them as shortest decimal strings (exact for
# float32) or as float32/float64 binary fields; reading recomputes center <-> origin in float32 (<= ~8 flops,
# eps32 = 6e-8, relative to the scale of the coordinates).  2e-6 * scale is the property's "1e-6 relative" with
# head-room for that recomputation; every modelled defect (a sign, a transposed rotation, center vs origin) is >= 1e-2.
GEO_RTOL = 2e-6
# NIfTI stores the rotation as a float32 quaternion (ITK) / float32 sform rows (nibabel): entries of the
# reconstructed direction carry a few float32 ulps.
NII_DIR_ATOL = 5e-6
VEC_RTOL = 2e-4   # float32 vector conversions (scale by n/2, rotate): as C01

ASSUMPTIONS = [
    "grids have at least 2 samples per axis: a multi-channel NIfTI image whose LAST grid axis has one sample (X, Y, 1 with C > 1) "
    "is stored as a 5-D array X, Y, 1, 1, C that neither ITK nor deepali (which transcribes ITK's rule: trailing singleton axes of "
    "vector images are dropped) can tell from a 2-D vector image; the round trip returns a 2-D image there — a limitation of the "
    "format shared with SimpleITK (both readers agree), observed on the unchanged tree and recorded in NOTES_C18.md, not a finding",
    "voxel byte encoding (numpy tobytes/frombuffer, zlib, nibabel, ITK ImageIO) is trusted and only exercised; the model "
    "covers header grammar, field order, TransformMatrix layout, channel-axis shuffle, NIfTI affine / LPS<->RAS / axis order",
    "a number token of a MetaImage header carries its value: decimal rendering str(float32) / parsing float(str) is not "
    "modelled (checked on every case: np.float32(token) equals the stored float32 exactly)",
    f"grid geometry is compared with tolerance {GEO_RTOL} * max(1, |origin|, extent) (float32 recomputation of "
    f"center/origin), direction entries through NIfTI with {NII_DIR_ATOL} absolute (float32 quaternion)",
    "the exhaustive configuration space is formats {.mha,.mhd,.nii,.nii.gz,.nrrd} x D {2,3} x channels {1,2,3} x dtypes "
    "{uint8,int16,int32,float32,float64} x compress {True,False}; each configuration gets random oriented anisotropic grids",
    "an exception raised for a supported format is a violation (DESIGN 5.0 I-1)",
    "NIfTI cannot distinguish a trailing axis of size 1 from a missing axis; all generated grids have >= 2 samples per axis",
]
TRUSTED = [
    "Model/{MetaImage,Nifti}.lean hand transcription of utils/imageio/meta.py, nifti.py, utils/simpleitk/torch.py (axis "
    "shuffle), data/flow.py (world axes on I/O); tied to /repo by the streams below on every run",
    "SimpleITK (independent reader/writer for interoperability in both directions), nibabel (NIfTI header fields)",
]
RULE = ("exhaustive enumeration of format x D x channels x dtype x compress (300 configurations; sub-spaces per stream), "
        "one (quick) or several (thorough) random oriented anisotropic grids per configuration from one PRNG seeded by "
        "VERIF_SEED; distinct after JSON canonicalisation; non-trivial = direction != identity or anisotropic spacing or "
        "off-centre")


def safe_line(fn):
    """a line function must not raise when the implementation cannot even produce its input (mutants):
    the model is then asked an unknown op and the comparison reports the implementation's error"""
    def wrapped(c):
        try:
            return fn(c)
        except Exception as e:   # noqa: BLE001
            return "c18.no-input " + type(e).__name__
    return wrapped


def _n(tier, quick, thorough, search=None):
    return {"quick": quick, "thorough": thorough, "search": search or max(quick, thorough // 3)}[tier]


# ----------------------------------------------------------------------------------------------- inputs
def grid_spec(rng: random.Random, d: int, min_size: int = 2) -> dict:
    """random oriented anisotropic grid (small sizes: files stay tiny)"""
    kind = rng.choice(["rotation", "rotation", "rotation", "signed_perm", "identity"])
    if kind == "signed_perm":
        direction = rng.choice(gen.signed_perms(d))          # incl. reflections
    else:
        direction = gen.direction(rng, d, kind)
    spec = gen.grid_spec(rng, d, min_size=min_size, max_size=6, dir_kind="identity")
    spec["direction"] = direction
    if len(set(spec["spacing"])) == 1 and rng.random() < 0.8:
        spec["spacing"] = [round(rng.uniform(0.1, 10.0), 3) for _ in range(d)]
    r = rng.random()
    if r < 0.15:
        # header values a writer may regard as defaults: origin exactly 0 (and, half of the time, unit spacing / identity)
        spec.pop("center", None)
        spec["origin"] = [0.0] * d
        if r < 0.07:
            spec["spacing"] = [1.0] * d
            spec["direction"] = [[1.0 if i == j else 0.0 for j in range(d)] for i in range(d)]
    return spec


def make_data(seed: int, c: int, shape, dtype: str) -> torch.Tensor:
    g = torch.Generator().manual_seed(seed)
    full = (c,) + tuple(shape)
    if dtype == "uint8":
        return torch.randint(0, 256, full, generator=g).to(torch.uint8)
    if dtype == "int16":
        return torch.randint(-32768, 32768, full, generator=g).to(torch.int16)
    if dtype == "int32":
        return torch.randint(-2 ** 31, 2 ** 31, full, generator=g, dtype=torch.int64).to(torch.int32)
    if dtype == "float32":
        return (torch.randn(full, generator=g, dtype=torch.float64) * 1e3).to(torch.float32)
    return torch.randn(full, generator=g, dtype=torch.float64) * 1e3


def make_image(c: dict) -> Tuple[torch.Tensor, Grid]:
    grid = gen.make_grid(c["grid"])
    return make_data(c["seed"], c["C"], grid.shape, c["dtype"]), grid


def sitk_image(data: torch.Tensor, grid: Grid) -> "sitk.Image":
    """SimpleITK image built WITHOUT deepali's conversion code (independent writer side)."""
    arr = data.numpy()
    arr = arr[0] if arr.shape[0] == 1 else np.ascontiguousarray(np.moveaxis(arr, 0, -1))
    im = sitk.GetImageFromArray(arr, isVector=data.shape[0] > 1)
    im.SetOrigin([float(v) for v in grid.origin()])
    im.SetSpacing([float(v) for v in grid.spacing()])
    im.SetDirection([float(v) for v in grid.direction().flatten()])
    return im


def sitk_tensor(im: "sitk.Image") -> torch.Tensor:
    """(C, ..., X) tensor of a SimpleITK image WITHOUT deepali's conversion code."""
    arr = sitk.GetArrayFromImage(im)
    if im.GetNumberOfComponentsPerPixel() > 1:
        arr = np.moveaxis(arr, -1, 0)
    else:
        arr = arr[None]
    return torch.from_numpy(np.ascontiguousarray(arr))


def configs(formats=FORMATS, dims=DIMS, channels=CHANNELS, dtypes=DTYPES, compress=(True, False)):
    return itertools.product(formats, dims, channels, dtypes, compress)


def gen_configs(rng: random.Random, reps: int, **kw):
    for _ in range(reps):
        for fmt, d, c, dt, comp in configs(**kw):
            yield {"fmt": fmt, "D": d, "C": c, "dtype": dt, "compress": comp,
                   "grid": grid_spec(rng, d), "seed": rng.randrange(1 << 30)}


def geo_scale(grid: Grid) -> float:
    ext = max(float(n) * float(s) for n, s in zip(grid.size(), grid.spacing()))
    return max(1.0, float(grid.origin().abs().max()), float(grid.center().abs().max()), ext)


def nontrivial(c: dict) -> bool:
    return gen.grid_nontrivial(c["grid"])


# ----------------------------------------------------------------------------------------------- MetaImage text
def lex_header(blob: bytes) -> Tuple[List[Tuple[str, List[str]]], int]:
    """lines `Key = v1 v2 ...` up to and including ElementDataFile; returns (lines, offset of the data)."""
    lines, pos = [], 0
    while True:
        end = blob.index(b"\n", pos)
        line = blob[pos:end].decode("ascii")
        pos = end + 1
        if not line or line.startswith("#"):
            continue
        key = line.split("=", 1)[0].strip()
        val = line.split("=", 1)[-1].strip()
        lines.append((key, val.split()))
        if key.upper() == "ELEMENTDATAFILE":
            return lines, pos


def tok_for_reader(t: str) -> str:
    """token as the reader sees it: numbers are parsed with float() (float64)"""
    if re.fullmatch(r"[0-9]+", t):
        return f"n:{t}"
    try:
        v = float(t)
        if math.isfinite(v):
            return "f:" + proto.fr(v)
    except ValueError:
        pass
    return "w:" + t


def lines_arg(lines) -> str:
    out = [str(len(lines))]
    for key, toks in lines:
        out += [key, str(len(toks))] + [tok_for_reader(t) for t in toks]
    return " ".join(out)


def fields(out: str) -> Dict[str, str]:
    return dict(p.split("=", 1) for p in out.split(";"))


# ----------------------------------------------------------------------------------------------- stream: header text
def gen_header(rng, tier):
    yield from gen_configs(rng, _n(tier, 3, 40), formats=[".mha"])


def _write_mha(c) -> bytes:
    data, grid = make_image(c)
    with tempfile.TemporaryDirectory() as td:
        p = os.path.join(td, "image.mha")
        Image(data, grid).write(p, compress=c["compress"])
        with open(p, "rb") as f:
            return f.read()


def impl_header(c):
    blob = _write_mha(c)
    lines, pos = lex_header(blob)
    return {"lines": lines, "rest": len(blob) - pos}


@safe_line
def line_header(c):
    data, grid = make_image(c)
    r = impl_header(c)
    csize = 0
    for key, toks in r["lines"]:
        if key == "CompressedDataSize":
            csize = int(toks[0])
    return (f"meta.write {c['D']} {proto.grid(grid)} {c['C']} {c['dtype']} {1 if c['compress'] else 0} {csize}")


def cmp_header(c, r, out):
    if isinstance(r, str):
        return f"impl {r}; model {out[:80]}"
    if proto.is_error(out):
        return f"model error {out}"
    data, grid = make_image(c)
    model = [(l.split("|", 1)[0], l.split("|", 1)[1].split()) for l in out.split(";")]
    impl = r["lines"]
    if [k for k, _ in impl] != [k for k, _ in model]:
        return f"keys/order differ: impl {[k for k, _ in impl]} vs model {[k for k, _ in model]}"
    for (k, ti), (_, tm) in zip(impl, model):
        if len(ti) != len(tm):
            return f"{k}: {len(ti)} tokens vs model {len(tm)}"
        fl_i, fl_m = [], []
        for a, b in zip(ti, tm):
            kind, val = b[:2], b[2:]
            if kind in ("w:", "n:"):
                if a != val:
                    return f"{k}: token {a!r} vs model {val!r}"
            else:
                try:
                    x = np.float32(a)
                except ValueError:
                    return f"{k}: token {a!r} is not a number"
                if repr(float(x)) != repr(float(np.float32(float(a)))):
                    return f"{k}: token {a!r} does not denote a float32"
                if k == "Offset":
                    fl_i.append(float(x))
                    fl_m.append(Fraction(val))
                elif Fraction(float(x)) != Fraction(val):
                    return f"{k}: token {a!r} = {Fraction(float(x))} vs model {val}"
        if fl_i:
            why = close(fl_i, fl_m, GEO_RTOL, geo_scale(grid))
            if why:
                return f"{k}: {why}"
    # size of the data section
    numel = c["C"] * int(np.prod(list(grid.shape)))
    item = {"uint8": 1, "int16": 2, "int32": 4, "float32": 4, "float64": 8}[c["dtype"]]
    want = dict(impl).get("CompressedDataSize", [str(numel * item)])[0]
    if str(r["rest"]) != want:
        return f"data section has {r['rest']} bytes, header implies {want}"
    return None


# ----------------------------------------------------------------------------------------------- stream: native reader
def gen_mha_read(rng, tier):
    for c in gen_configs(rng, _n(tier, 2, 20), formats=[".mha"]):
        for writer in ("deepali", "sitk"):
            yield dict(c, writer=writer)


def _mha_file(c, td) -> str:
    data, grid = make_image(c)
    p = os.path.join(td, "image.mha")
    if c["writer"] == "deepali":
        Image(data, grid).write(p, compress=c["compress"])
    else:
        sitk.WriteImage(sitk_image(data, grid), p, c["compress"])
    return p


def impl_mha_read(c):
    with tempfile.TemporaryDirectory() as td:
        p = _mha_file(c, td)
        data, grid = read_image(p)
    return {"size": [int(n) for n in grid.size()], "channels": int(data.shape[0]),
            "dtype": str(data.dtype).replace("torch.", ""), "shape": list(data.shape),
            "origin": proto.flat(grid.origin()), "spacing": proto.flat(grid.spacing()),
            "direction": proto.flat(grid.direction())}


@safe_line
def line_mha_read(c):
    with tempfile.TemporaryDirectory() as td:
        p = _mha_file(c, td)
        with open(p, "rb") as f:
            lines, _ = lex_header(f.read())
    return "meta.read " + lines_arg(lines)


def cmp_mha_read(c, r, out):
    if isinstance(r, str):
        kind = ":".join(r.split(":")[:2])
        return None if out == kind else f"impl {r}; model {out[:80]}"
    if proto.is_error(out):
        return f"impl succeeded, model {out}"
    f = fields(out)
    if [int(v) for v in f["size"].split()] != r["size"]:
        return f"size {r['size']} vs model {f['size']}"
    if int(f["channels"]) != r["channels"]:
        return f"channels {r['channels']} vs model {f['channels']}"
    if f["tensor_dtype"] != r["dtype"]:
        return f"dtype {r['dtype']} vs model {f['tensor_dtype']}"
    if r["shape"] != [r["channels"]] + r["size"][::-1]:
        return f"tensor shape {r['shape']} is not (C, ..., X) of size {r['size']}"
    _, grid = make_image(c)
    sc = geo_scale(grid)
    for name, key, tol_scale in (("origin", "origin", sc), ("spacing", "spacing", 1.0), ("direction", "matrix", 1.0)):
        if f[key] == "none":
            return f"model has no {name}"
        why = close(r[name], proto.parse_vec(f[key]), GEO_RTOL, tol_scale)
        if why:
            return f"{name}: {why}"
    return None


# ----------------------------------------------------------------------------------------------- stream: native reader model vs ITK
def impl_mha_read_itk(c):
    """reference: SimpleITK's reading of the same .mha file (independent of deepali)"""
    with tempfile.TemporaryDirectory() as td:
        p = _mha_file(c, td)
        im = sitk.ReadImage(p)
        t = sitk_tensor(im)
    return {"size": list(im.GetSize()), "channels": im.GetNumberOfComponentsPerPixel(),
            "dtype": str(t.dtype).replace("torch.", ""), "origin": list(im.GetOrigin()),
            "spacing": list(im.GetSpacing()), "direction": list(im.GetDirection())}


def cmp_mha_read_itk(c, r, out):
    if isinstance(r, str):
        return f"reference {r}; model {out[:80]}"
    if proto.is_error(out):
        return f"ITK reads the file, reader model gives {out}"
    f = fields(out)
    if [int(v) for v in f["size"].split()] != r["size"] or int(f["channels"]) != r["channels"]:
        return f"size/channels {r['size']}/{r['channels']} vs model {f['size']}/{f['channels']}"
    if f["etype"] != r["dtype"]:
        return f"dtype {r['dtype']} vs model {f['etype']}"
    _, grid = make_image(c)
    for name, key, s in (("origin", "origin", geo_scale(grid)), ("spacing", "spacing", 1.0), ("direction", "matrix", 1.0)):
        why = close(r[name], proto.parse_vec(f[key]), GEO_RTOL, s)
        if why:
            return f"{name}: {why}"
    return None


# ----------------------------------------------------------------------------------------------- stream: axis shuffle
SHUFFLE_SITES = ["meta_write", "image_from_tensor", "tensor_from_image"]


def gen_shuffle(rng, tier):
    for _ in range(_n(tier, 4, 80)):
        for site, d, ch in itertools.product(SHUFFLE_SITES, DIMS, CHANNELS):
            spatial = [rng.randint(1, 5) for _ in range(d)]       # tensor order (..., X)
            shape = [ch] + spatial
            for _ in range(3):
                idx = [rng.randrange(n) for n in shape]
                yield {"site": site, "C": ch, "shape": shape, "idx": idx}


def impl_shuffle(c):
    shape, ch = c["shape"], c["C"]
    n = int(np.prod(shape))
    if c["site"] == "tensor_from_image":
        # file-order array (..., X[, C]) -> SimpleITK image -> deepali tensor
        fshape = shape[1:] + ([ch] if ch > 1 else [])
        arr = np.arange(n, dtype=np.int32).reshape(fshape)
        t = tensor_from_image(sitk.GetImageFromArray(arr, isVector=ch > 1))
        fidx = c["idx"][1:] + ([c["idx"][0]] if ch > 1 else [])
        return {"shape": list(t.shape), "flat": t.flatten().tolist(), "value": int(arr[tuple(fidx)]), "fidx": fidx,
                "fshape": fshape}
    t = torch.arange(n, dtype=torch.int32).reshape(shape)
    value = int(t[tuple(c["idx"])])
    if c["site"] == "image_from_tensor":
        arr = sitk.GetArrayFromImage(image_from_tensor(t))
        return {"shape": list(arr.shape), "flat": arr.flatten().tolist(), "value": value}
    grid = Grid(size=shape[:0:-1])
    with tempfile.TemporaryDirectory() as td:
        p = os.path.join(td, "image.mha")
        write_image(t, grid, p, compress=False)
        with open(p, "rb") as f:
            blob = f.read()
    lines, pos = lex_header(blob)
    dim = [int(v) for v in dict(lines)["DimSize"]]
    nch = int(dict(lines)["ElementNumberOfChannels"][0])
    return {"shape": dim[::-1] + ([nch] if nch > 1 else []), "flat": np.frombuffer(blob[pos:], dtype=np.int32).tolist(),
            "value": value}


@safe_line
def line_shuffle(c):
    n = len(c["shape"])
    if c["site"] == "tensor_from_image":
        ch = c["C"]
        fshape = c["shape"][1:] + ([ch] if ch > 1 else [])
        fidx = c["idx"][1:] + ([c["idx"][0]] if ch > 1 else [])
        return f"shuffle.read {ch} {len(fshape)} {proto.vec(fshape)} {proto.vec(fidx)}"
    return f"shuffle.write {c['C']} {n} {proto.vec(c['shape'])} {proto.vec(c['idx'])}"


def cmp_shuffle(c, r, out):
    if isinstance(r, str):
        return f"impl {r}; model {out[:80]}"
    if proto.is_error(out):
        return f"model error {out}"
    f = fields(out)
    mshape = [int(v) for v in f["shape"].split()]
    if mshape != r["shape"]:
        return f"shape {r['shape']} vs model {mshape}"
    off = int(f["offset"])
    if off >= len(r["flat"]) or r["flat"][off] != r["value"]:
        return f"element at model offset {off} is {r['flat'][off] if off < len(r['flat']) else None}, expected {r['value']}"
    if c["site"] != "tensor_from_image":
        if [int(v) for v in f["back_shape"].split()] != c["shape"] or [int(v) for v in f["back_idx"].split()] != c["idx"]:
            return f"model read-shuffle does not undo write-shuffle: {f['back_shape']} / {f['back_idx']}"
    elif [int(v) for v in f["idx"].split()] != c["idx"]:
        return f"model tensor index {f['idx']} vs {c['idx']}"
    return None


# ----------------------------------------------------------------------------------------------- stream: NIfTI write
def gen_nifti_write(rng, tier):
    for c in gen_configs(rng, _n(tier, 1, 10), formats=[".nii", ".nii.gz"], compress=(True,)):
        yield c


def impl_nifti_write(c):
    import nibabel as nib

    data, grid = make_image(c)
    with tempfile.TemporaryDirectory() as td:
        p = os.path.join(td, "image" + c["fmt"])
        Image(data, grid).write(p, compress=c["compress"])
        im = nib.load(p)
        return {"affine": np.asarray(im.affine, dtype=np.float64).flatten().tolist(), "shape": [int(n) for n in im.shape],
                "dim": [int(v) for v in im.header["dim"]], "intent": int(im.header["intent_code"]),
                "dtype": str(im.get_data_dtype())}


@safe_line
def line_nifti_write(c):
    data, grid = make_image(c)
    return f"nifti.write {c['D']} {proto.grid(grid)} {data.ndim} {proto.vec(list(data.shape))}"


def cmp_nifti_write(c, r, out):
    if isinstance(r, str):
        return f"impl {r}; model {out[:80]}"
    if proto.is_error(out):
        return f"impl wrote the file, model {out}"
    f = fields(out)
    _, grid = make_image(c)
    why = close(r["affine"], proto.parse_vec(f["affine"]), GEO_RTOL, geo_scale(grid))
    if why:
        return "affine: " + why
    for k in ("shape", "dim"):
        if [int(v) for v in f[k].split()] != r[k]:
            return f"{k} {r[k]} vs model {f[k]}"
    if int(f["intent"]) != r["intent"]:
        return f"intent {r['intent']} vs model {f['intent']}"
    if r["dtype"] != c["dtype"]:
        return f"stored dtype {r['dtype']}"
    return None


# ----------------------------------------------------------------------------------------------- stream: NIfTI voxel layout
def gen_nifti_layout(rng, tier):
    for _ in range(_n(tier, 4, 60)):
        for d, ch in itertools.product(DIMS, CHANNELS):
            shape = [ch] + [rng.randint(2, 5) for _ in range(d)]
            yield {"D": d, "C": ch, "shape": shape, "idx": [rng.randrange(n) for n in shape]}


def impl_nifti_layout(c):
    import nibabel as nib

    shape = c["shape"]
    t = torch.arange(int(np.prod(shape)), dtype=torch.int32).reshape(shape)
    with tempfile.TemporaryDirectory() as td:
        p = os.path.join(td, "image.nii")
        write_image(t, Grid(size=shape[:0:-1]), p)
        arr = np.asarray(nib.load(p).dataobj.get_unscaled())
        back, _ = read_nifti_image(p)
    return {"shape": list(arr.shape), "flat": arr.flatten().tolist(), "value": int(t[tuple(c["idx"])]),
            "back_equal": bool(torch.equal(back, t))}


@safe_line
def line_nifti_layout(c):
    return f"nifti.index {c['C']} {c['D']} {len(c['idx'])} {proto.vec(c['idx'])}"


def cmp_nifti_layout(c, r, out):
    if isinstance(r, str):
        return f"impl {r}; model {out[:80]}"
    if proto.is_error(out):
        return f"model error {out}"
    f = fields(out)
    idx = [int(v) for v in f["idx"].split()]
    if len(idx) != len(r["shape"]):
        return f"nibabel array has shape {r['shape']}, model index {idx}"
    off = 0
    for n, i in zip(r["shape"], idx):
        off = off * n + i
    if r["flat"][off] != r["value"]:
        return f"voxel at model index {idx} is {r['flat'][off]}, expected {r['value']}"
    if [int(v) for v in f["back"].split()] != c["idx"]:
        return f"model reader index {f['back']} vs {c['idx']}"
    if not r["back_equal"]:
        return "read_nifti_image does not return the written tensor"
    return None


# ----------------------------------------------------------------------------------------------- stream: NIfTI read
def gen_nifti_read(rng, tier):
    for c in gen_configs(rng, _n(tier, 1, 10), formats=[".nii", ".nii.gz"], compress=(True,)):
        for writer in ("sitk", "deepali"):
            yield dict(c, writer=writer)


def _nifti_file(c, td) -> str:
    data, grid = make_image(c)
    p = os.path.join(td, "image" + c["fmt"])
    if c["writer"] == "sitk":
        sitk.WriteImage(sitk_image(data, grid), p)
    else:
        Image(data, grid).write(p)
    return p


def impl_nifti_read(c):
    with tempfile.TemporaryDirectory() as td:
        p = _nifti_file(c, td)
        data, grid = read_nifti_image(p)
    return {"D": grid.ndim, "size": [int(n) for n in grid.size()], "shape": list(data.shape),
            "origin": proto.flat(grid.origin()), "spacing": proto.flat(grid.spacing()),
            "direction": proto.flat(grid.direction())}


@safe_line
def line_nifti_read(c):
    import nibabel as nib

    with tempfile.TemporaryDirectory() as td:
        p = _nifti_file(c, td)
        im = nib.load(p)
        dim = [int(v) for v in im.header["dim"]]
        pix = [float(v) for v in im.header["pixdim"][1:4]]
        aff = np.asarray(im.affine, dtype=np.float64)
        intent = int(im.header["intent_code"])
    return f"nifti.read {proto.vec(dim)} {proto.vec(pix)} {proto.vec(aff.flatten().tolist())} {intent}"


def cmp_nifti_read(c, r, out):
    if isinstance(r, str):
        kind = ":".join(r.split(":")[:2])
        return None if out == kind else f"impl {r}; model {out[:80]}"
    if proto.is_error(out):
        return f"impl succeeded, model {out}"
    f = fields(out)
    if int(f["D"]) != r["D"]:
        return f"D {r['D']} vs model {f['D']}"
    if [int(v) for v in f["size"].split()] != r["size"]:
        return f"size {r['size']} vs model {f['size']}"
    if [int(v) for v in f["shape"].split()] != r["shape"]:
        return f"tensor shape {r['shape']} vs model {f['shape']}"
    _, grid = make_image(c)
    for name, tol_scale in (("origin", geo_scale(grid)), ("spacing", 1.0), ("direction", 1.0)):
        why = close(r[name], proto.parse_vec(f[name]), GEO_RTOL, tol_scale)
        if why:
            return f"{name}: {why}"
    return None


# ----------------------------------------------------------------------------------------------- stream: written NIfTI affine vs ITK
def gen_nifti_itk(rng, tier):
    for _ in range(_n(tier, 12, 400)):
        d = rng.choice(DIMS)
        yield {"D": d, "C": rng.choice(CHANNELS), "dtype": "float32", "grid": grid_spec(rng, d),
               "seed": rng.randrange(1 << 30), "fmt": ".nii", "compress": True}


def impl_nifti_itk(c):
    data, grid = make_image(c)
    with tempfile.TemporaryDirectory() as td:
        p = os.path.join(td, "image.nii")
        Image(data, grid).write(p)
        im = sitk.ReadImage(p)      # independent reader: ITK geometry (LPS) of the file
    return {"dim": im.GetDimension(), "size": list(im.GetSize()), "channels": im.GetNumberOfComponentsPerPixel(),
            "origin": list(im.GetOrigin()), "spacing": list(im.GetSpacing()), "direction": list(im.GetDirection())}


@safe_line
def line_nifti_itk(c):
    data, grid = make_image(c)
    return f"nifti.write {c['D']} {proto.grid(grid)} {data.ndim} {proto.vec(list(data.shape))}"


def cmp_nifti_itk(c, r, out):
    """ITK's geometry of the file vs the geometry the model reader derives from the model writer's affine
    (origin = LPS-flipped last column, spacing = column norms, direction = columns / spacing)"""
    if isinstance(r, str):
        return f"impl {r}; model {out[:80]}"
    if proto.is_error(out):
        return f"model error {out}"
    _, grid = make_image(c)
    d = grid.ndim
    a = [float(v) for v in proto.parse_vec(fields(out)["affine"])]
    a = np.array(a, dtype=np.float64).reshape(4, 4)
    a[:2] *= -1
    sp = np.sqrt((a[:d, :d] ** 2).sum(axis=0))
    want = {"origin": a[:d, 3].tolist(), "spacing": sp.tolist(), "direction": (a[:d, :d] / sp).flatten().tolist()}
    if r["dim"] != d or r["size"] != [int(n) for n in grid.size()] or r["channels"] != c["C"]:
        return f"ITK reads dim {r['dim']} size {r['size']} components {r['channels']}"
    sc = geo_scale(grid)
    for name, tol, s in (("origin", GEO_RTOL, sc), ("spacing", GEO_RTOL, 1.0), ("direction", NII_DIR_ATOL, 1.0)):
        why = close(r[name], [Fraction(v) for v in want[name]], tol, s)
        if why:
            return f"ITK {name} of the written file vs model affine: {why}"
    return None


# ----------------------------------------------------------------------------------------------- stream: flow vectors in files


def _write_door(obj, p: str, c: dict):
    """the three ways a user saves an Image / FlowField: write(path), to_uri(path), to_uri('file://' + path)"""
    door = c["seed"] % 3
    if door == 0:
        obj.write(p, compress=c["compress"])
    else:
        obj.to_uri(p if door == 1 else "file://" + p, compress=c["compress"])


def _read_door(cls, p: str, c: dict):
    door = (c["seed"] // 3) % 3
    if door == 0:
        return cls.read(p)
    return cls.from_uri(p if door == 1 else "file://" + p)


def gen_flow(rng, tier):
    for _ in range(_n(tier, 2, 50)):
        for fmt, d, axes in itertools.product(FORMATS, DIMS, AXES):
            spec = grid_spec(rng, d)
            shape = spec["size"][::-1]
            yield {"fmt": fmt, "D": d, "axes": axes, "grid": spec, "seed": rng.randrange(1 << 30),
                   "idx": [rng.randrange(n) for n in shape], "compress": rng.random() < 0.5}


def _flow(c) -> FlowField:
    grid = gen.make_grid(c["grid"])
    g = torch.Generator().manual_seed(c["seed"])
    data = torch.randn((grid.ndim,) + tuple(grid.shape), generator=g, dtype=torch.float64).mul(3).to(torch.float32)
    return FlowField(data, grid, Axes(c["axes"]))


def impl_flow(c):
    flow = _flow(c)
    with tempfile.TemporaryDirectory() as td:
        p = os.path.join(td, "flow" + c["fmt"])
        _write_door(flow, p, c)
        stored = sitk_tensor(sitk.ReadImage(p))      # what is in the file, read without deepali
    sel = (slice(None),) + tuple(c["idx"])
    return {"stored": proto.flat(stored[sel]), "dtype": str(stored.dtype)}


@safe_line
def line_flow(c):
    flow = _flow(c)
    sel = (slice(None),) + tuple(c["idx"])
    v = proto.flat(flow.tensor()[sel])
    return f"grid.tvec {c['D']} {proto.grid(flow.grid())} {c['axes']} world {proto.vec(v)}"


def cmp_flow(c, r, out):
    if isinstance(r, str):
        return f"impl {r}; model {out[:80]}"
    if proto.is_error(out):
        return f"model error {out}"
    m = proto.parse_vec(out)
    return close(r["stored"], m, VEC_RTOL, max(abs(float(v)) for v in m))


STREAMS = [
    Stream("mha_header", gen_header, impl_header, line_header, cmp_header, nontrivial=nontrivial, exhaustive=True,
           doc="header text written by Image.write(.mha) vs model serialisation, token by token, for every D x C x dtype x "
               "compress; keys and order, words/ints as strings, spacing/TransformMatrix floats exactly, Offset vs model "
               "origin within tolerance, data section size"),
    Stream("mha_read", gen_mha_read, impl_mha_read, line_mha_read, cmp_mha_read, nontrivial=nontrivial, exhaustive=True,
           doc="native .mha reader (read_image) on files written by deepali and by SimpleITK vs model parse of the same "
               "header lines: size, channels, dtype, origin, spacing, direction, or the same exception class"),
    Stream("mha_read_itk", gen_mha_read, impl_mha_read_itk, line_mha_read, cmp_mha_read_itk,
           nontrivial=nontrivial, exhaustive=True,
           doc="model of the native reader on the same files vs SimpleITK's reading of them (independent reference for "
               "what a MetaImage header means), all D x C x dtype x compress x writer"),
    Stream("shuffle", gen_shuffle, impl_shuffle, line_shuffle, cmp_shuffle, exhaustive=True,
           doc="channel-axis shuffle at its three call sites (write_meta_image raw bytes, image_from_tensor, "
               "tensor_from_image) vs model index permutation and row-major offset, D x C exhaustive, random sizes/indices"),
    Stream("nifti_write", gen_nifti_write, impl_nifti_write, line_nifti_write, cmp_nifti_write, nontrivial=nontrivial,
           exhaustive=True,
           doc="what Image.write(.nii/.nii.gz) stores (nibabel: affine, array shape, header dim, intent code, dtype) vs "
               "model writeAffine / toNiftiOrder / headerDim / writeIntent, every D x C x dtype"),
    Stream("nifti_layout", gen_nifti_layout, impl_nifti_layout, line_nifti_layout, cmp_nifti_layout, exhaustive=True,
           doc="position of a voxel in the nibabel array of a written file vs model index map, and the reader's way back; "
               "D x C exhaustive, random sizes/indices"),
    Stream("nifti_read", gen_nifti_read, impl_nifti_read, line_nifti_read, cmp_nifti_read, nontrivial=nontrivial,
           exhaustive=True,
           doc="read_nifti_image on files written by SimpleITK and by deepali vs model applied to the header fields nibabel "
               "reports: D, size, tensor shape, origin, spacing, direction"),
    Stream("nifti_itk", gen_nifti_itk, impl_nifti_itk, line_nifti_itk, cmp_nifti_itk, nontrivial=nontrivial,
           doc="ITK's reading (dimension, size, components, origin, spacing, direction) of a file written by deepali vs "
               "the model writer's affine (validates the LPS<->RAS convention against an independent reader)"),
    Stream("flow_world", gen_flow, impl_flow, line_flow, cmp_flow, nontrivial=nontrivial, exhaustive=True,
           doc="vectors found in a file written by FlowField.write (read with SimpleITK) vs model Grid.transformVectors "
               "axes->world, for all five formats x D x all four axes"),
]


# =============================================================================================== property oracles
def _exc_key(oracle: str, c: dict, stage: str, e: Exception) -> Tuple[str, str]:
    """specific key of an exception; a regression of one of the repaired defects F-18a..d gets its original key
    (the entries in known_findings.json are `fixed`, i.e. they suppress nothing)"""
    fmt, d, ch, msg = c["fmt"], c["D"], c.get("C", c["D"]), str(e)
    what = f"{oracle}: {stage} {fmt} D={d} C={ch} dtype={c.get('dtype')} compress={c.get('compress')}: {type(e).__name__}: {msg[:120]}"
    if fmt in (".nii", ".nii.gz") and stage == "write" and isinstance(e, ValueError) and "Affine should be shape 4,4" in msg:
        return "C18:nifti:write-affine-shape", what
    if fmt == ".mha" and stage == "read" and d == 2 and isinstance(e, ValueError) and \
            "cannot reshape array of size 4 into shape (3,3)" in msg:
        return "C18:mha:read-2d-transform-matrix", what
    if fmt == ".mha" and stage == "read" and d == 3 and ch > 1 and isinstance(e, TypeError) and \
            "'numpy.float64' object cannot be interpreted as an integer" in msg:
        return "C18:mha:read-multichannel", what
    if fmt in (".nii", ".nii.gz") and stage == "read" and ch > 1 and oracle == "from_sitk" and isinstance(e, ValueError) \
            and "cannot reshape array of size" in msg:
        return "C18:nifti:read-vector-intent", what
    return f"C18:{oracle}:{fmt}:{stage}:{type(e).__name__}", what


def _bits_equal(a: torch.Tensor, b: torch.Tensor) -> bool:
    return a.dtype == b.dtype and tuple(a.shape) == tuple(b.shape) and \
        a.contiguous().numpy().tobytes() == b.contiguous().numpy().tobytes()


def _cmp_grid(oracle, c, grid: Grid, size, origin, spacing, direction) -> Optional[Tuple[str, str]]:
    fmt = c["fmt"]
    tag = f"{oracle} {fmt} D={c['D']} C={c.get('C')} dtype={c.get('dtype')} compress={c.get('compress')}"
    if [int(n) for n in size] != [int(n) for n in grid.size()]:
        return f"C18:{oracle}:{fmt}:size", f"{tag}: size {list(size)} vs {list(grid.size())}"
    sc = geo_scale(grid)
    o = [float(v) for v in origin]
    if len(o) != grid.ndim or max(abs(a - float(b)) for a, b in zip(o, grid.origin())) > GEO_RTOL * sc:
        return f"C18:{oracle}:{fmt}:origin", f"{tag}: origin {o} vs {grid.origin().tolist()}"
    s = [float(v) for v in spacing]
    if max(abs(a - float(b)) / float(b) for a, b in zip(s, grid.spacing())) > GEO_RTOL:
        return f"C18:{oracle}:{fmt}:spacing", f"{tag}: spacing {s} vs {grid.spacing().tolist()}"
    dd = [float(v) for v in direction]
    tol = NII_DIR_ATOL if fmt.startswith(".nii") else GEO_RTOL
    if len(dd) != grid.ndim ** 2 or max(abs(a - float(b)) for a, b in zip(dd, grid.direction().flatten())) > tol:
        return f"C18:{oracle}:{fmt}:direction", f"{tag}: direction {dd} vs {grid.direction().flatten().tolist()}"
    return None


def _cmp_data(oracle, c, got: torch.Tensor, want: torch.Tensor) -> Optional[Tuple[str, str]]:
    fmt = c["fmt"]
    tag = f"{oracle} {fmt} D={c['D']} C={c.get('C')} dtype={c.get('dtype')} compress={c.get('compress')}"
    if got.ndim != want.ndim or got.shape[0] != want.shape[0]:
        return f"C18:{oracle}:{fmt}:channels", f"{tag}: tensor shape {tuple(got.shape)} vs {tuple(want.shape)}"
    if tuple(got.shape) != tuple(want.shape):
        return f"C18:{oracle}:{fmt}:shape", f"{tag}: tensor shape {tuple(got.shape)} vs {tuple(want.shape)}"
    if got.dtype != want.dtype:
        return f"C18:{oracle}:{fmt}:dtype", f"{tag}: dtype {got.dtype} vs {want.dtype}"
    if not _bits_equal(got, want):
        n = int((got != want).sum())
        return f"C18:{oracle}:{fmt}:values", f"{tag}: {n} of {want.numel()} voxel values differ"
    return None


def gen_all(rng, tier):
    yield from gen_configs(rng, _n(tier, 2, 20, 3))


def check_roundtrip(c):
    """Image.write(path) -> Image.read(path): values bit-exact, channels, dtype, grid."""
    data, grid = make_image(c)
    with tempfile.TemporaryDirectory() as td:
        p = os.path.join(td, "image" + c["fmt"])
        try:
            _write_door(Image(data, grid), p, c)
        except Exception as e:
            return _exc_key("roundtrip", c, "write", e)
        try:
            back = _read_door(Image, p, c)
        except Exception as e:
            return _exc_key("roundtrip", c, "read", e)
    g2 = back.grid()
    return _cmp_data("roundtrip", c, back.tensor(), data) or \
        _cmp_grid("roundtrip", c, grid, g2.size(), g2.origin(), g2.spacing(), g2.direction().flatten())


def check_to_sitk(c):
    """Image.write(path) -> SimpleITK.ReadImage(path) and Grid.from_file(path)."""
    data, grid = make_image(c)
    with tempfile.TemporaryDirectory() as td:
        p = os.path.join(td, "image" + c["fmt"])
        try:
            Image(data, grid).write(p, compress=c["compress"])
        except Exception as e:
            return _exc_key("to_sitk", c, "write", e)
        try:
            im = sitk.ReadImage(p)
            got = sitk_tensor(im)
        except Exception as e:
            return _exc_key("to_sitk", c, "sitk-read", e)
        try:
            gf = Grid.from_file(p)
        except Exception as e:
            return _exc_key("to_sitk", c, "grid-from-file", e)
    if im.GetDimension() != grid.ndim:
        return f"C18:to_sitk:{c['fmt']}:dimension", f"SimpleITK reads a {im.GetDimension()}-D image, written {grid.ndim}-D"
    return _cmp_data("to_sitk", c, got, data) or \
        _cmp_grid("to_sitk", c, grid, im.GetSize(), im.GetOrigin(), im.GetSpacing(), im.GetDirection()) or \
        _cmp_grid("grid_from_file", c, grid, gf.size(), gf.origin(), gf.spacing(), gf.direction().flatten())


def check_from_sitk(c):
    """SimpleITK.WriteImage(path) -> Image.read(path)."""
    data, grid = make_image(c)
    with tempfile.TemporaryDirectory() as td:
        p = os.path.join(td, "image" + c["fmt"])
        sitk.WriteImage(sitk_image(data, grid), p, c["compress"])
        try:
            back = Image.read(p)
        except Exception as e:
            return _exc_key("from_sitk", c, "read", e)
    g2 = back.grid()
    return _cmp_data("from_sitk", c, back.tensor(), data) or \
        _cmp_grid("from_sitk", c, grid, g2.size(), g2.origin(), g2.spacing(), g2.direction().flatten())


def gen_convert(rng, tier):
    for _ in range(_n(tier, 2, 15, 3)):
        for d, ch, dt in itertools.product(DIMS, CHANNELS, DTYPES):
            yield {"fmt": "memory", "D": d, "C": ch, "dtype": dt, "compress": None, "grid": grid_spec(rng, d, min_size=1),
                   "seed": rng.randrange(1 << 30)}


def check_convert(c):
    """Image.sitk() agrees with an independently built SimpleITK image; Image.from_sitk() of it returns the image."""
    data, grid = make_image(c)
    try:
        im = Image(data, grid).sitk()
    except Exception as e:
        return _exc_key("convert", c, "sitk", e)
    r = _cmp_data("convert", c, sitk_tensor(im), data) or \
        _cmp_grid("convert", c, grid, im.GetSize(), im.GetOrigin(), im.GetSpacing(), im.GetDirection())
    if r:
        return r
    try:
        back = Image.from_sitk(sitk_image(data, grid))
    except Exception as e:
        return _exc_key("convert", c, "from_sitk", e)
    g2 = back.grid()
    return _cmp_data("convert_back", c, back.tensor(), data) or \
        _cmp_grid("convert_back", c, grid, g2.size(), g2.origin(), g2.spacing(), g2.direction().flatten())


def gen_flow_io(rng, tier):
    for _ in range(_n(tier, 1, 10, 2)):
        for fmt, d, axes, comp in itertools.product(FORMATS, DIMS, AXES, (True, False)):
            yield {"fmt": fmt, "D": d, "C": d, "dtype": "float32", "axes": axes, "compress": comp,
                   "grid": grid_spec(rng, d), "seed": rng.randrange(1 << 30)}


def _world_vectors(flow: FlowField) -> torch.Tensor:
    """independent float64 computation of the world-space displacement of every vector"""
    grid, axes = flow.grid(), flow.axes()
    d = grid.ndim
    v = flow.tensor().double().movedim(0, -1)                       # (..., X, D), components (x, y, z)
    n = torch.tensor([float(s) for s in grid.size()], dtype=torch.float64)
    if axes == Axes.WORLD:
        return v.movedim(-1, 0)
    if axes == Axes.CUBE:
        v = v * n / 2
    elif axes == Axes.CUBE_CORNERS:
        v = v * (n - 1) / 2
    a = grid.direction().double() @ torch.diag(grid.spacing().double())
    return (v @ a.T).movedim(-1, 0)


def check_flow_io(c):
    """FlowField.write stores world-space vectors; FlowField.read(...).axes(original) returns the original field."""
    flow = _flow(c)
    grid = flow.grid()
    want_world = _world_vectors(flow)
    vmax = float(want_world.abs().max()) + 1e-12
    with tempfile.TemporaryDirectory() as td:
        p = os.path.join(td, "flow" + c["fmt"])
        try:
            _write_door(flow, p, c)
        except Exception as e:
            return _exc_key("flow", c, "write", e)
        try:
            stored = sitk_tensor(sitk.ReadImage(p))
        except Exception as e:
            return _exc_key("flow", c, "sitk-read", e)
        try:
            back = _read_door(FlowField, p, c)
        except Exception as e:
            return _exc_key("flow", c, "read", e)
    fmt = c["fmt"]
    tag = f"flow {fmt} D={c['D']} axes={c['axes']}"
    if tuple(stored.shape) != tuple(want_world.shape):
        return f"C18:flow:{fmt}:stored-shape", f"{tag}: file holds {tuple(stored.shape)}"
    if float((stored.double() - want_world).abs().max()) > VEC_RTOL * vmax:
        return f"C18:flow:{fmt}:stored-not-world", f"{tag}: stored vectors differ from world-space vectors by " \
                                                   f"{float((stored.double() - want_world).abs().max()):.3e}"
    if back.axes() != Axes.WORLD:
        return f"C18:flow:{fmt}:axes-label", f"{tag}: read flow is labelled {back.axes()}"
    g2 = back.grid()
    r = _cmp_grid("flow", c, grid, g2.size(), g2.origin(), g2.spacing(), g2.direction().flatten())
    if r:
        return r
    orig = back.axes(Axes(c["axes"])).tensor()
    amax = float(flow.tensor().abs().max()) + 1e-12
    if tuple(orig.shape) != tuple(flow.shape) or float((orig - flow.tensor()).abs().max()) > VEC_RTOL * amax:
        return f"C18:flow:{fmt}:not-restored", f"{tag}: read().axes({c['axes']}) differs from the written field"
    # in-memory SimpleITK route
    try:
        im = flow.sitk()
        back2 = FlowField.from_sitk(im).axes(Axes(c["axes"])).tensor()
    except Exception as e:
        return _exc_key("flow", c, "sitk-convert", e)
    if float((sitk_tensor(im).double() - want_world).abs().max()) > VEC_RTOL * vmax:
        return "C18:flow:sitk:stored-not-world", f"{tag}: FlowField.sitk() vectors are not world-space"
    if float((back2 - flow.tensor()).abs().max()) > VEC_RTOL * amax:
        return "C18:flow:sitk:not-restored", f"{tag}: from_sitk(sitk()).axes(...) differs from the field"
    return None


# ---- regression cases: the witnesses of the four repaired defects (F-18a..d); they must round-trip now
REGRESSIONS = {
    # Props/C18.lean c18Witness2D
    "c18Witness2D": ("C18:mha:read-2d-transform-matrix",
                     {"fmt": ".mha", "D": 2, "C": 1, "dtype": "int16", "compress": False, "seed": 1,
                      "grid": {"size": [5, 4], "spacing": [0.5, 1.25], "direction": [[0.6, -0.8], [0.8, 0.6]],
                               "origin": [1.5, -2.25], "align_corners": True}}),
    # Props/C18.lean c18Witness3D2C
    "c18Witness3D2C": ("C18:mha:read-multichannel",
                       {"fmt": ".mha", "D": 3, "C": 2, "dtype": "float32", "compress": True, "seed": 1,
                        "grid": {"size": [5, 4, 3], "spacing": [0.5, 1.25, 0.3], "origin": [1.5, -2.25, 0.1],
                                 "direction": [[0.0, -1.0, 0.0], [1.0, 0.0, 0.0], [0.0, 0.0, 1.0]], "align_corners": True}}),
    # C18_nifti_write_refuted (exampleGrid: 5x4, spacing (2, 1/2), rotated by 90 degrees, centre (1, -3))
    "exampleGrid.nii": ("C18:nifti:write-affine-shape",
                        {"fmt": ".nii", "D": 2, "C": 1, "dtype": "float32", "compress": True, "seed": 1,
                         "grid": {"size": [5, 4], "spacing": [2.0, 0.5], "direction": [[0.0, -1.0], [1.0, 0.0]],
                                  "center": [1.0, -3.0], "align_corners": True}}),
    # C18_nifti_vector_intent_refuted: dim = 5, 5,4,3,1,2, intent 1007 as ITK writes it
    "itk-vector-nifti": ("C18:nifti:read-vector-intent",
                         {"fmt": ".nii", "D": 3, "C": 2, "dtype": "float32", "compress": True, "seed": 1,
                          "grid": {"size": [5, 4, 3], "spacing": [0.5, 1.25, 0.3], "origin": [1.5, -2.25, 0.1],
                                   "direction": [[1.0, 0.0, 0.0], [0.0, 1.0, 0.0], [0.0, 0.0, 1.0]],
                                   "align_corners": True}}),
}


def gen_witness(rng, tier):
    for name in REGRESSIONS:
        yield {"witness": name}


def check_witness(c):
    key, case = REGRESSIONS[c["witness"]]
    return check_from_sitk(case) if c["witness"] == "itk-vector-nifti" else check_roundtrip(case)


ORACLES = [
    Oracle("regression", gen_witness, check_witness,
           doc="the witnesses of the repaired defects F-18a..d (Props/C18.lean regression instances) must round-trip"),
    Oracle("roundtrip", gen_all, check_roundtrip, nontrivial=nontrivial,
           doc="Image.write -> Image.read for all 300 configurations: voxel bytes, dtype, channels, size, origin, spacing, direction"),
    Oracle("to_sitk", gen_all, check_to_sitk, nontrivial=nontrivial,
           doc="Image.write -> SimpleITK.ReadImage and Grid.from_file for all 300 configurations"),
    Oracle("from_sitk", gen_all, check_from_sitk, nontrivial=nontrivial,
           doc="SimpleITK.WriteImage -> Image.read for all 300 configurations"),
    Oracle("convert", gen_convert, check_convert, nontrivial=nontrivial,
           doc="Image.sitk() / Image.from_sitk() against an independently built SimpleITK image, D x C x dtype"),
    Oracle("flow", gen_flow_io, check_flow_io, nontrivial=nontrivial,
           doc="FlowField.write/read/sitk/from_sitk: file holds world-space vectors, read().axes(original) restores the "
               "field; formats x D x axes x compress"),
]


def search_cases(disagreements):
    """feed the configuration of a disagreeing stream case to the oracles that write/read the same format"""
    extra: Dict[str, List[dict]] = {"roundtrip": [], "to_sitk": [], "from_sitk": []}
    for d in disagreements:
        c = d["case"]
        if "grid" not in c or "dtype" not in c or "C" not in c or "fmt" not in c:
            continue
        base = {k: c[k] for k in ("fmt", "D", "C", "dtype", "grid", "seed")}
        for comp in (True, False):
            for name in extra:
                extra[name].append(dict(base, compress=comp))
    return extra
